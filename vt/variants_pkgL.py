"""Variants for C20 (Flaw failsafe): distilled refactorings the rules were taught to follow, and breaking edits for
the judgements that were added."""
from .variants import B, T, S, C, R, A, E, ST, CK, STATS, GZ, CC, PF, RS, FL, META, CE

SV = 'clastic/server.py'

_TRY = ('    try:\n        parsed_tb = _ParsedTB.from_string(traceback_string)\n        parsed_error = parsed_tb.to_dict()\n'
        '    except:\n        parsed_error = {}\n')
_ROUTES = ("    routes = [('/', get_flaw_info, 'flaw_tmpl'),\n"
           "              ('/clastic_assets/', StaticApplication(_ASSET_PATH)),\n"
           "              ('/<_ignored*>', get_flaw_info, 'flaw_tmpl')]\n")
_RESOURCES = ("    resources = {'tb_str': traceback_string,\n                 'parsed_error': parsed_error,\n"
              "                 'all_mon_files': monitored_files,\n                 'mon_files': non_site_files}\n")
_LAST = ("    try:\n        last_line = tb_str.splitlines()[-1]\n    except:\n        last_line = u'Unknown error'\n")
_CTX = ("    return {'mon_files': mon_files,\n            'all_mon_files': all_mon_files,\n            'parsed_err': parsed_error,\n"
        "            'last_line': last_line,\n            'tb_str': tb_str}\n")

# ------------------------------------------------------------------ twins: the page is built the same way, spelled differently
T('pkgL_t_routes_named_temps', ['C20'],
  (FL, "_ASSET_PATH = os.path.join(_CUR_PATH, '_clastic_assets')\n", "_ASSET_PATH = os.path.join(_CUR_PATH, '_clastic_assets')\n_PAGE_NAME = 'flaw_tmpl'\n"),
  (FL, "    arf.register_source('flaw_tmpl', _FLAW_TEMPLATE)\n", "    arf.register_source(_PAGE_NAME, _FLAW_TEMPLATE)\n"),
  (FL, _ROUTES, "    home = ('/', get_flaw_info, _PAGE_NAME)\n    assets = ('/clastic_assets/', StaticApplication(_ASSET_PATH))\n"
                "    everything_else = ('/<_ignored*>', get_flaw_info, _PAGE_NAME)\n    routes = [home, assets, everything_else]\n"))
T('pkgL_t_routes_inline_return', ['C20'],
  (FL, _ROUTES + "\n    app = Application(routes, resources, render_factory=arf)\n    return app\n",
       "    return Application([('/', get_flaw_info, 'flaw_tmpl'),\n                        ('/clastic_assets/', StaticApplication(_ASSET_PATH)),\n"
       "                        ('/<_ignored*>', get_flaw_info, 'flaw_tmpl')],\n                       resources, render_factory=arf)\n"))
T('pkgL_t_routes_appended', ['C20'],
  (FL, _ROUTES, "    routes = [('/', get_flaw_info, 'flaw_tmpl')]\n    routes.append(('/clastic_assets/', StaticApplication(_ASSET_PATH)))\n"
                "    routes += [('/<_ignored*>', get_flaw_info, 'flaw_tmpl')]\n"))
T('pkgL_t_app_keywords', ['C20'],
  (FL, "    app = Application(routes, resources, render_factory=arf)\n", "    app = Application(routes=routes, render_factory=arf, resources=resources)\n"))
T('pkgL_t_resources_dict_call', ['C20'],
  (FL, _RESOURCES, "    resources = dict(tb_str=traceback_string, parsed_error=parsed_error,\n"
                   "                     all_mon_files=monitored_files, mon_files=non_site_files)\n"))
T('pkgL_t_resources_incremental', ['C20'],
  (FL, _RESOURCES, "    resources = {'tb_str': traceback_string, 'parsed_error': parsed_error}\n"
                   "    resources['all_mon_files'] = monitored_files\n    resources.update(mon_files=non_site_files)\n"))
T('pkgL_t_parse_in_public_helper', ['C20'],
  (FL, _TRY, "    parsed_error = parse_error_text(traceback_string)\n"),
  (FL, "def get_flaw_info(tb_str,", "def parse_error_text(text):\n    try:\n        return _ParsedTB.from_string(text).to_dict()\n"
                                    "    except Exception:\n        return {}\n\n\ndef get_flaw_info(tb_str,"))
T('pkgL_t_preinit_then_pass', ['C20'],
  (FL, _TRY, "    parsed_error = {}\n    try:\n        parsed_error = _ParsedTB.from_string(traceback_string).to_dict()\n    except BaseException:\n        pass\n"))
T('pkgL_t_to_dict_in_else', ['C20'],
  (FL, _TRY, "    try:\n        parsed_tb = _ParsedTB.from_string(traceback_string)\n    except:\n        parsed_error = {}\n    else:\n        parsed_error = parsed_tb.to_dict()\n"))
T('pkgL_t_fallback_dict_call', ['C20'], (FL, "    except:\n        parsed_error = {}\n", "    except:\n        parsed_error = dict()\n"))
T('pkgL_t_last_line_public_helper', ['C20'],
  (FL, _LAST, "    last_line = last_line_of(tb_str)\n"),
  (FL, "def get_flaw_info(tb_str,", "def last_line_of(text, default=u'Unknown error'):\n    try:\n        lines = text.splitlines()\n        return lines[-1]\n"
                                    "    except Exception:\n        return default\n\n\ndef get_flaw_info(tb_str,"))
T('pkgL_t_last_line_two_steps', ['C20'],
  (FL, _LAST, "    last_line = u'Unknown error'\n    try:\n        lines = tb_str.splitlines()\n        last_line = lines[-1]\n    except Exception:\n        pass\n"))
T('pkgL_t_context_built_stepwise', ['C20'],
  (FL, _CTX, "    info = dict(mon_files=mon_files, all_mon_files=all_mon_files)\n    info['parsed_err'] = parsed_error\n"
             "    info.update(last_line=last_line, tb_str=tb_str)\n    return info\n"))
T('pkgL_t_partition_locals_renamed', ['C20'],
  (FL, "            exc_type, sep, exc_msg = line.partition(':')\n            if sep and exc_type and len(exc_type.split()) == 1:\n",
       "            type_name, colon, message = line.partition(':')\n            if colon and type_name and len(type_name.split()) == 1:\n"),
  (FL, "        return cls(exc_type, exc_msg, frames)", "        return cls(type_name, message, frames)"))
T('pkgL_t_ctor_keywords', ['C20'],
  (FL, "        return cls(exc_type, exc_msg, frames)", "        parsed = cls(exc_msg=exc_msg, frames=frames, exc_type_name=exc_type)\n        return parsed"))
T('pkgL_t_template_constant_renamed', ['C20'], (FL, r're:\b_FLAW_TEMPLATE\b', '_PAGE_SOURCE'))
T('pkgL_t_filter_renamed_public', ['C20'], (FL, r're:\b_filter_site_files\b', 'without_site_files'))
T('pkgL_t_filter_renamed_private', ['C20'], (FL, r're:\b_filter_site_files\b', '_own_files_only'))
T('pkgL_t_endpoint_params_renamed', ['C20'],
  (FL, "    resources = {'tb_str': traceback_string,", "    resources = {'error_text': traceback_string,"),
  (FL, "def get_flaw_info(tb_str, parsed_error,", "def get_flaw_info(error_text, parsed_error,"),
  (FL, "        last_line = tb_str.splitlines()[-1]", "        last_line = error_text.splitlines()[-1]"),
  (FL, "            'tb_str': tb_str}", "            'tb_str': error_text}"))
T('pkgL_t_endpoint_and_list_aliases', ['C20'],
  (FL, "    non_site_files = _filter_site_files(monitored_files)\n", "    all_files = monitored_files\n    page = get_flaw_info\n    non_site_files = _filter_site_files(all_files)\n"),
  (FL, "                 'all_mon_files': monitored_files,", "                 'all_mon_files': all_files,"),
  (FL, _ROUTES, "    routes = [('/', page, 'flaw_tmpl'),\n              ('/clastic_assets/', StaticApplication(_ASSET_PATH)),\n              ('/<_ignored*>', page, 'flaw_tmpl')]\n"))
T('pkgL_t_route_objects', ['C20'],
  (FL, "from .application import Application\n", "from .application import Application\nfrom .route import Route\n"),
  (FL, _ROUTES, "    routes = [Route('/', get_flaw_info, 'flaw_tmpl'),\n              ('/clastic_assets/', StaticApplication(_ASSET_PATH)),\n"
                "              Route('/<_ignored*>', get_flaw_info, render='flaw_tmpl')]\n"))
T('pkgL_t_register_on_env_keywords', ['C20'],
  (FL, "    arf.register_source('flaw_tmpl', _FLAW_TEMPLATE)\n", "    arf.env.register_source(name='flaw_tmpl', source=_FLAW_TEMPLATE)\n"))
T('pkgL_t_to_dict_local', ['C20'],
  (FL, "        return {'exc_type': self.exc_type,\n                'exc_msg': self.exc_msg,\n                'frames': self.frames}\n",
       "        ret = dict(exc_type=self.exc_type, exc_msg=self.exc_msg)\n        ret['frames'] = self.frames\n        return ret\n"))
T('pkgL_t_windows_constant', ['C20'],
  (SV, "_STDERR_BUFF_SIZE = 1024\n", "_STDERR_BUFF_SIZE = 1024\n_ON_WINDOWS = os.name == 'nt'\n"),
  (SV, "        if os.name == 'nt':\n", "        if _ON_WINDOWS:\n"))
T('pkgL_t_windows_guard_inverted', ['C20'],
  (SV, "        if os.name == 'nt':\n            for key, value in new_environ.iteritems():\n                if isinstance(value, unicode):\n"
       "                    new_environ[key] = value.encode('iso-8859-1')\n",
       "        if os.name != 'nt':\n            pass\n        else:\n            for key, value in new_environ.iteritems():\n"
       "                if isinstance(value, unicode):\n                    new_environ[key] = value.encode('iso-8859-1')\n"))
T('pkgL_t_filter_loop_builds_new_list', ['C20'],
  (FL, "    ret = [fn for fn in ret if not fn.startswith(main_lib_dir)]\n",
       "    kept = []\n    for fn in ret:\n        if not fn.startswith(main_lib_dir):\n            kept.append(fn)\n    ret = kept\n"))

T('pkgL_t_routes_comprehension', ['C20'],
  (FL, _ROUTES, "    routes = [(pattern, get_flaw_info, 'flaw_tmpl') for pattern in ('/', '/<_ignored*>')]\n"
                "    routes.insert(1, ('/clastic_assets/', StaticApplication(_ASSET_PATH)))\n"))
T('pkgL_t_routes_picked_from_pages', ['C20'],
  (FL, _ROUTES, "    pages = [(pattern, get_flaw_info, 'flaw_tmpl') for pattern in ('/', '/<_ignored*>')]\n"
                "    routes = [pages[0], ('/clastic_assets/', StaticApplication(_ASSET_PATH)), pages[-1]]\n"))
T('pkgL_t_sort_by_slice_assignment', ['C20'],
  (FL, "        monitored_files.sort(key=lambda x: len(x))\n", "        monitored_files[:] = sorted(monitored_files, key=len)\n"))
T('pkgL_t_render_function_made_explicitly', ['C20'],
  (FL, _ROUTES, "    render_page = arf('flaw_tmpl')\n    routes = [('/', get_flaw_info, render_page),\n"
                "              ('/clastic_assets/', StaticApplication(_ASSET_PATH)),\n              ('/<_ignored*>', get_flaw_info, render_page)]\n"))
T('pkgL_t_public_builder_functions', ['C20'],
  (FL, "    arf = AshesRenderFactory()\n    arf.register_source('flaw_tmpl', _FLAW_TEMPLATE)\n" + _ROUTES + "\n    app = Application(routes, resources, render_factory=arf)\n    return app\n",
       "    return build_app(resources)\n\n\ndef build_routes():\n    page = ('flaw_tmpl', get_flaw_info)\n    return [('/', page[1], page[0]),\n"
       "            ('/clastic_assets/', StaticApplication(_ASSET_PATH)),\n            ('/<_ignored*>', page[1], page[0])]\n\n\n"
       "def build_app(resources):\n    arf = AshesRenderFactory()\n    arf.register_source('flaw_tmpl', _FLAW_TEMPLATE)\n"
       "    return Application(build_routes(), resources, render_factory=arf)\n"))
T('pkgL_t_render_factory_public_helper', ['C20'],
  (FL, "    arf = AshesRenderFactory()\n    arf.register_source('flaw_tmpl', _FLAW_TEMPLATE)\n", "    arf = make_render_factory()\n"),
  (FL, "def get_flaw_info(tb_str,", "def make_render_factory():\n    factory = AshesRenderFactory()\n    factory.register_source('flaw_tmpl', _FLAW_TEMPLATE)\n"
                                    "    return factory\n\n\ndef get_flaw_info(tb_str,"))
T('pkgL_t_suppress_context_manager', ['C20'],
  (FL, "import os\nimport re\n", "import os\nimport re\nfrom contextlib import suppress\n"),
  (FL, _TRY, "    parsed_error = {}\n    with suppress(Exception):\n        parsed_error = _ParsedTB.from_string(traceback_string).to_dict()\n"))
T('pkgL_t_exception_line_public_helper', ['C20'],
  (FL, "        for line in reversed(tb_lines):\n            # get the bottom-most line that looks like an actual Exception\n"
       "            # repr(), (i.e., \"Exception: message\")\n            exc_type, sep, exc_msg = line.partition(':')\n"
       "            if sep and exc_type and len(exc_type.split()) == 1:\n                break\n",
       "        kind, text = find_exception_line(tb_lines)\n"),
  (FL, "        return cls(exc_type, exc_msg, frames)", "        return cls(kind, text, frames)"),
  (FL, "class _ParsedTB(object):\n", "def find_exception_line(lines):\n    for line in reversed(lines):\n        head, colon, tail = line.partition(':')\n"
                                     "        if colon and head and len(head.split()) == 1:\n            break\n    return head, tail\n\n\nclass _ParsedTB(object):\n"))
T('pkgL_t_ignored_lines_while_condition', ['C20'],
  (FL, "        while tb_lines:\n            cl = tb_lines[-1]\n            if cl.startswith('Exception ') and cl.endswith('ignored'):\n"
       "                # handle some ignored exceptions\n                tb_lines.pop()\n            else:\n                break\n",
       "        while tb_lines and tb_lines[-1].startswith('Exception ') and tb_lines[-1].endswith('ignored'):\n            del tb_lines[-1]\n"))

# ------------------------------------------------------------------ breaking: each must be reported by the named rule
B('pkgL_b_handler_substitutes_nothing', ['C20'], 'R20.b',
  (FL, "    except:\n        parsed_error = {}\n", "    except:\n        pass\n"))
B('pkgL_b_last_line_unprotected', ['C20'], 'R20.b', (FL, _LAST, "    last_line = tb_str.splitlines()[-1]\n"))
B('pkgL_b_narrow_handler_reraises', ['C20'], 'R20.b',
  (FL, "    except:\n        parsed_error = {}\n", "    except (IndexError, AttributeError):\n        raise\n    except:\n        parsed_error = {}\n"))
B('pkgL_b_handler_can_raise', ['C20'], 'R20.b',
  (FL, "    except:\n        parsed_error = {}\n", "    except:\n        parsed_error = {'exc_type': traceback_string.splitlines()[-1], 'exc_msg': ''}\n"))
B('pkgL_b_to_dict_in_else', ['C20'], 'R20.b',
  (FL, _TRY, "    try:\n        parsed_tb = _ParsedTB.from_string(traceback_string)\n    except:\n        parsed_error = {}\n    else:\n        parsed_error = parsed_tb.to_dict()\n"),
  (FL, "    def to_dict(self):\n        return {", "    def to_dict(self):\n        self.frames[-1]\n        return {"))
B('pkgL_b_public_helper_leaks', ['C20'], 'R20.b',
  (FL, _TRY, "    parsed_error = parse_error_text(traceback_string)\n"),
  (FL, "def get_flaw_info(tb_str,", "def parse_error_text(text):\n    try:\n        return _ParsedTB.from_string(text).to_dict()\n"
                                    "    except ValueError:\n        return {}\n\n\ndef get_flaw_info(tb_str,"))
B('pkgL_b_page_shows_other_text', ['C20'], 'R20.b', (FL, "            'tb_str': tb_str}", "            'tb_str': last_line}"))
B('pkgL_b_all_files_is_filtered_list', ['C20'], 'R20.b', (FL, "                 'all_mon_files': monitored_files,", "                 'all_mon_files': non_site_files,"))
B('pkgL_b_catchall_not_last', ['C20'], 'R20.b',
  (FL, _ROUTES, "    routes = [('/', get_flaw_info, 'flaw_tmpl'),\n              ('/<_ignored*>', get_flaw_info, 'flaw_tmpl')]\n"
                "    routes.append(('/clastic_assets/', StaticApplication(_ASSET_PATH)))\n"))
B('pkgL_b_swapped_after_rename', ['C20'], 'R20.d',
  (FL, "            exc_type, sep, exc_msg = line.partition(':')\n            if sep and exc_type and len(exc_type.split()) == 1:\n",
       "            type_name, colon, message = line.partition(':')\n            if colon and type_name and len(type_name.split()) == 1:\n"),
  (FL, "        return cls(exc_type, exc_msg, frames)", "        return cls(message, type_name, frames)"))
B('pkgL_b_windows_test_inverted', ['C20'], 'R20.a', (SV, "        if os.name == 'nt':\n", "        if os.name != 'nt':\n"))
B('pkgL_b_registered_other_factory', ['C20'], 'R20.b',
  (FL, "    app = Application(routes, resources, render_factory=arf)\n", "    app = Application(routes, resources, render_factory=AshesRenderFactory())\n"))
B('pkgL_b_suppress_too_narrow', ['C20'], 'R20.b',
  (FL, "import os\nimport re\n", "import os\nimport re\nfrom contextlib import suppress\n"),
  (FL, _TRY, "    parsed_error = {}\n    with suppress(ValueError):\n        parsed_error = _ParsedTB.from_string(traceback_string).to_dict()\n"))
# (variant pkgL_b_qualified_names_rejected removed: value-level behaviour of the traceback parser, decided only by running it -- declined)
# (variant pkgL_b_header_without_colon removed: value-level behaviour of the traceback parser, decided only by running it -- declined)
# (variant pkgL_b_message_side_lost removed: value-level behaviour of the traceback parser, decided only by running it -- declined)
B('pkgL_b_sort_without_guard', ['C20'], 'R20.b',
  (FL, "    if monitored_files:\n        monitored_files.sort(key=lambda x: len(x))\n", "    monitored_files.sort(key=lambda x: len(x))\n"))
B('pkgL_b_text_stripped_outside_try', ['C20'], 'R20.b',
  (FL, "    non_site_files = _filter_site_files(monitored_files)\n    try:\n", "    non_site_files = _filter_site_files(monitored_files)\n    first_line = traceback_string.strip().split('\\n')[0]\n    try:\n"))
B('pkgL_b_pages_only_for_get', ['C20'], 'R20.b',
  (FL, "from .application import Application\n", "from .application import Application\nfrom .route import GET\n"),
  (FL, "    routes = [('/', get_flaw_info, 'flaw_tmpl'),\n", "    routes = [GET('/', get_flaw_info, 'flaw_tmpl'),\n"))
T('pkgL_t_sort_guard_spelled_out', ['C20'],
  (FL, "    if monitored_files:\n        monitored_files.sort(key=lambda x: len(x))\n",
       "    if monitored_files is not None and len(monitored_files) > 1:\n        monitored_files.sort(key=len)\n"))
B('pkgL_b_nested_function_rebinds_file_list', ['C20'], 'R20.e',
  (SV, "                    to_mon[:] = literal_eval(line_text[len(_MON_PREFIX):])", "                    to_mon = literal_eval(line_text[len(_MON_PREFIX):])"))
B('pkgL_b_create_app_arguments_swapped', ['C20'], 'R20.e',
  (SV, "        err_app = flaw.create_app(tb_str, monitored_files)", "        err_app = flaw.create_app(monitored_files, tb_str)"))
B('pkgL_b_failsafe_without_file_list', ['C20'], 'R20.e',
  (SV, "        err_app = flaw.create_app(tb_str, monitored_files)", "        err_app = flaw.create_app(tb_str)"))
T('pkgL_t_stderr_pump_hoisted_partial', ['C20'],
  (SV, "from itertools import chain\n", "from itertools import chain\nfrom functools import partial\n"),
  (SV, "        def consume_lines():\n            for line in iter(child_proc.stderr.readline, ''):\n                if not line:\n                    break\n"
       "                line_text = line.decode('utf8')\n                if line_text.startswith(_MON_PREFIX):\n"
       "                    to_mon[:] = literal_eval(line_text[len(_MON_PREFIX):])\n                else:\n"
       "                    sys.stderr.write(line_text)\n                    stderr_buff.append(line_text)\n",
       "        consume_lines = partial(_pump_stderr, child_proc, to_mon, stderr_buff)\n"),
  (SV, "def restart_with_reloader(error_func=None):\n", "def _pump_stderr(proc, mon_files, buff):\n    for line in iter(proc.stderr.readline, ''):\n        if not line:\n            break\n"
       "        line_text = line.decode('utf8')\n        if not line_text.startswith(_MON_PREFIX):\n            sys.stderr.write(line_text)\n"
       "            buff.append(line_text)\n            continue\n        mon_files[:] = literal_eval(line_text[len(_MON_PREFIX):])\n\n\n"
       "def restart_with_reloader(error_func=None):\n"))
T('pkgL_t_error_app_builder_keywords', ['C20'],
  (SV, "        from clastic import flaw\n        err_app = flaw.create_app(tb_str, monitored_files)\n        err_server = make_server(hostname, port, err_app)\n",
       "        from clastic.flaw import create_app\n        err_server = make_server(hostname, port, create_app(monitored_files=monitored_files, traceback_string=tb_str))\n"))
B('pkgL_b_strict_slashes', ['C20'], 'R20.b',
  (FL, "from .application import Application\n", "from .application import Application, S_STRICT\n"),
  (FL, "    app = Application(routes, resources, render_factory=arf)\n", "    app = Application(routes, resources, render_factory=arf, slash_mode=S_STRICT)\n"))
B('pkgL_b_factory_with_own_filters', ['C20'], 'R20.c',
  (FL, "    arf = AshesRenderFactory()\n", "    arf = AshesRenderFactory(filters={'h': lambda s: s.replace('<', '&lt;')})\n"))
B('pkgL_b_file_list_shown_conditionally', ['C20'], 'R20.c',
  (FL, "    <p>Monitoring:\n", "    {?mon_files}<p>Monitoring:\n"), (FL, "    </p>\n  </body>", "    </p>{/mon_files}\n  </body>"))
B('pkgL_b_file_list_recreated_per_round', ['C20'], 'R20.e',
  (SV, "    to_mon = []\n    while 1:\n        print(' * Clastic restarting with reloader')\n", "    while 1:\n        to_mon = []\n        print(' * Clastic restarting with reloader')\n"))
T('pkgL_t_default_configuration_spelled_out', ['C20'],
  (FL, "from .application import Application\n", "from .application import Application, S_REDIRECT\n"),
  (FL, "    app = Application(routes, resources, render_factory=arf)\n", "    app = Application(routes, resources, middlewares=[], render_factory=arf, error_handler=None, slash_mode=S_REDIRECT)\n"))
T('pkgL_t_context_pairs_and_unpacking', ['C20'],
  (FL, _LAST + _CTX, "    context = dict([('mon_files', mon_files), ('all_mon_files', all_mon_files), ('parsed_err', parsed_error)])\n"
       "    try:\n        context['last_line'] = tb_str.splitlines()[-1]\n    except:\n        context['last_line'] = u'Unknown error'\n"
       "    return {**context, 'tb_str': tb_str}\n"))
T('pkgL_t_stderr_pump_object', ['C20'],
  (SV, "        def consume_lines():\n            for line in iter(child_proc.stderr.readline, ''):\n                if not line:\n                    break\n"
       "                line_text = line.decode('utf8')\n                if line_text.startswith(_MON_PREFIX):\n"
       "                    to_mon[:] = literal_eval(line_text[len(_MON_PREFIX):])\n                else:\n"
       "                    sys.stderr.write(line_text)\n                    stderr_buff.append(line_text)\n",
       "        consume_lines = _StderrPump(child_proc, to_mon, stderr_buff)\n"),
  (SV, "def restart_with_reloader(error_func=None):\n", "class _StderrPump(object):\n    def __init__(self, proc, files, buff):\n        self.proc, self.buff = proc, buff\n        self.files = files\n\n"
       "    def __call__(self):\n        for line in iter(self.proc.stderr.readline, ''):\n            if not line:\n                break\n"
       "            line_text = line.decode('utf8')\n            if line_text.startswith(_MON_PREFIX):\n"
       "                self.files[:] = literal_eval(line_text[len(_MON_PREFIX):])\n            else:\n"
       "                sys.stderr.write(line_text)\n                self.buff.append(line_text)\n\n\n"
       "def restart_with_reloader(error_func=None):\n"))
B('pkgL_b_pump_object_rebinds_attribute', ['C20'], 'R20.e',
  (SV, "        def consume_lines():\n            for line in iter(child_proc.stderr.readline, ''):\n                if not line:\n                    break\n"
       "                line_text = line.decode('utf8')\n                if line_text.startswith(_MON_PREFIX):\n"
       "                    to_mon[:] = literal_eval(line_text[len(_MON_PREFIX):])\n                else:\n"
       "                    sys.stderr.write(line_text)\n                    stderr_buff.append(line_text)\n",
       "        consume_lines = _StderrPump(child_proc, to_mon, stderr_buff)\n"),
  (SV, "def restart_with_reloader(error_func=None):\n", "class _StderrPump(object):\n    def __init__(self, proc, files, buff):\n        self.proc, self.buff = proc, buff\n        self.files = files\n\n"
       "    def __call__(self):\n        for line in iter(self.proc.stderr.readline, ''):\n            if not line:\n                break\n"
       "            line_text = line.decode('utf8')\n            if line_text.startswith(_MON_PREFIX):\n"
       "                self.files = literal_eval(line_text[len(_MON_PREFIX):])\n            else:\n"
       "                sys.stderr.write(line_text)\n                self.buff.append(line_text)\n\n\n"
       "def restart_with_reloader(error_func=None):\n"))
_ATTEMPT = ("def _attempt(func, default):\n    try:\n        return func()\n    except BaseException:\n        return default\n\n\n"
            "def get_flaw_info(tb_str,")
T('pkgL_t_callable_run_under_catch_all', ['C20'],
  (FL, _TRY, "    parsed_error = _attempt(lambda: _ParsedTB.from_string(traceback_string).to_dict(), {})\n"),
  (FL, _LAST, "    last_line = _attempt(lambda: tb_str.splitlines()[-1], u'Unknown error')\n"),
  (FL, "def get_flaw_info(tb_str,", _ATTEMPT))
B('pkgL_b_callable_runner_lets_errors_out', ['C20'], 'R20.b',
  (FL, _TRY, "    parsed_error = _attempt(lambda: _ParsedTB.from_string(traceback_string).to_dict(), {})\n"),
  (FL, "def get_flaw_info(tb_str,", _ATTEMPT.replace('except BaseException:', 'except ValueError:')))
_ATTEMPT_ARGS = ("def _attempt(func, *args, **kwargs):\n    default = kwargs.pop('default', None)\n    try:\n        return func(*args)\n"
                 "    except BaseException:\n        return default\n\n\ndef get_flaw_info(tb_str,")
T('pkgL_t_callable_runner_with_star_args', ['C20'],
  (FL, _TRY, "    parsed_error = _attempt(lambda: _ParsedTB.from_string(traceback_string).to_dict(), default={})\n"),
  (FL, _LAST, "    last_line = _attempt(lambda text: text.splitlines()[-1], tb_str, default=u'Unknown error')\n"),
  (FL, "def get_flaw_info(tb_str,", _ATTEMPT_ARGS))
B('pkgL_b_callable_runner_with_star_args_leaks', ['C20'], 'R20.b',
  (FL, _TRY, "    parsed_error = _attempt(lambda: _ParsedTB.from_string(traceback_string).to_dict(), default={})\n"),
  (FL, "def get_flaw_info(tb_str,", _ATTEMPT_ARGS.replace('except BaseException:', 'except (ValueError, IndexError):')))
T('pkgL_t_resources_zipped_routes_starred', ['C20'],
  (FL, "_ASSET_PATH = os.path.join(_CUR_PATH, '_clastic_assets')\n", "_ASSET_PATH = os.path.join(_CUR_PATH, '_clastic_assets')\n_RESOURCE_NAMES = ('tb_str', 'parsed_error', 'all_mon_files', 'mon_files')\n"),
  (FL, _RESOURCES, "    values = (traceback_string, parsed_error, monitored_files, non_site_files)\n    resources = dict(zip(_RESOURCE_NAMES, values))\n"),
  (FL, _ROUTES, "    first, last = [(pattern, get_flaw_info, 'flaw_tmpl') for pattern in ('/', '/<_ignored*>')]\n"
                "    middle = [('/clastic_assets/', StaticApplication(_ASSET_PATH))]\n    routes = [first, *middle, last]\n"))
T('pkgL_t_function_reference_to_runner', ['C20'],
  (FL, _TRY, "    parsed_error = _attempt(_parse_to_dict, traceback_string, default={})\n"),
  (FL, "def get_flaw_info(tb_str,", "def _parse_to_dict(text):\n    return _ParsedTB.from_string(text).to_dict()\n\n\n" + _ATTEMPT_ARGS))
B('pkgL_b_function_reference_runner_leaks', ['C20'], 'R20.b',
  (FL, _TRY, "    parsed_error = _attempt(_parse_to_dict, traceback_string, default={})\n"),
  (FL, "def get_flaw_info(tb_str,", "def _parse_to_dict(text):\n    return _ParsedTB.from_string(text).to_dict()\n\n\n" + _ATTEMPT_ARGS.replace('except BaseException:', 'except ValueError:')))
T('pkgL_t_sort_guard_as_and_chain', ['C20'],
  (FL, "    if monitored_files:\n        monitored_files.sort(key=lambda x: len(x))\n", "    monitored_files and monitored_files.sort(key=len)\n"))
T('pkgL_t_routes_zipped_with_targets', ['C20'],
  (FL, "_ASSET_PATH = os.path.join(_CUR_PATH, '_clastic_assets')\n", "_ASSET_PATH = os.path.join(_CUR_PATH, '_clastic_assets')\n_ROUTE_PATTERNS = ('/', '/clastic_assets/', '/<_ignored*>')\n"),
  (FL, _ROUTES, "    page = (get_flaw_info, 'flaw_tmpl')\n    targets = (page, (StaticApplication(_ASSET_PATH),), page)\n"
                "    routes = [(pattern, *target) for pattern, target in zip(_ROUTE_PATTERNS, targets)]\n"))
T('pkgL_t_routes_sliced_pages', ['C20'],
  (FL, _ROUTES, "    pages = [(pattern, get_flaw_info, 'flaw_tmpl') for pattern in ('/', '/<_ignored*>')]\n"
                "    routes = [*pages[:1], ('/clastic_assets/', StaticApplication(_ASSET_PATH)), *pages[1:]]\n"))


# ------------------------------------------------------------------ R20.f: the exception line is searched from the end of the text
_SEARCH = ("        for line in reversed(tb_lines):\n"
           "            # get the bottom-most line that looks like an actual Exception\n"
           "            # repr(), (i.e., \"Exception: message\")\n"
           "            exc_type, sep, exc_msg = line.partition(':')\n"
           "            if sep and exc_type and len(exc_type.split()) == 1:\n"
           "                break\n")
_FROM_STRING = "    @classmethod\n    def from_string(cls, tb_str):\n"
_IS_EXC_LINE = ("    @staticmethod\n    def _is_exc_line(line):\n        head, sep, _ = line.partition(':')\n"
                "        return bool(sep and head and len(head.split()) == 1)\n\n")

B('pkgL_b_exc_line_search_top_down', ['C20'], 'R20.f',
  (FL, "        for line in reversed(tb_lines):\n", "        for line in tb_lines:\n"))
B('pkgL_b_exc_line_next_over_lines', ['C20'], 'R20.f',
  (FL, _SEARCH, "        exc_line = next((ln for ln in tb_lines if cls._is_exc_line(ln)), tb_lines[0])\n"
                "        exc_type, sep, exc_msg = exc_line.partition(':')\n"),
  (FL, _FROM_STRING, _IS_EXC_LINE + _FROM_STRING))
B('pkgL_b_exc_line_first_of_filtered', ['C20'], 'R20.f',
  (FL, _SEARCH, "        found = [ln for ln in tb_lines if ':' in ln and len(ln.partition(':')[0].split()) == 1]\n"
                "        exc_line = found[0] if found else tb_lines[0]\n"
                "        exc_type, sep, exc_msg = exc_line.partition(':')\n"))
B('pkgL_b_exc_line_ascending_index', ['C20'], 'R20.f',
  (FL, _SEARCH, "        for pos in range(len(tb_lines)):\n"
                "            exc_type, sep, exc_msg = tb_lines[pos].partition(':')\n"
                "            if sep and exc_type and len(exc_type.split()) == 1:\n"
                "                break\n"))
B('pkgL_b_exc_line_reversed_keeps_last_hit', ['C20'], 'R20.f',
  (FL, _SEARCH, "        exc_type, sep, exc_msg = tb_lines[0].partition(':')\n"
                "        for line in reversed(tb_lines):\n"
                "            head, sep, tail = line.partition(':')\n"
                "            if sep and head and len(head.split()) == 1:\n"
                "                exc_type, exc_msg = head, tail\n"))
B('pkgL_b_exc_line_helper_method_returns_first', ['C20'], 'R20.f',
  (FL, _SEARCH, "        exc_type, sep, exc_msg = cls.exception_line(tb_lines).partition(':')\n"),
  (FL, _FROM_STRING, "    @staticmethod\n    def exception_line(lines):\n        for line in lines:\n"
                     "            head, sep, _ = line.partition(':')\n"
                     "            if sep and head and len(head.split()) == 1:\n                return line\n"
                     "        return lines[0]\n\n" + _FROM_STRING))
B('pkgL_b_exc_line_double_reversal', ['C20'], 'R20.f',
  (FL, "        for line in reversed(tb_lines):\n", "        for line in reversed(tb_lines[::-1]):\n"))
B('pkgL_b_exc_line_while_index_up', ['C20'], 'R20.f',
  (FL, _SEARCH, "        pos = 0\n        while pos < len(tb_lines) - 1:\n"
                "            head, sep, _ = tb_lines[pos].partition(':')\n"
                "            if sep and head and len(head.split()) == 1:\n                break\n"
                "            pos += 1\n"
                "        exc_type, sep, exc_msg = tb_lines[pos].partition(':')\n"))

T('pkgL_t_exc_line_slice_reversed', ['C20'],
  (FL, "        for line in reversed(tb_lines):\n", "        for line in tb_lines[::-1]:\n"))
T('pkgL_t_exc_line_top_down_keeps_last_hit', ['C20'],
  (FL, _SEARCH, "        exc_type, sep, exc_msg = tb_lines[0].partition(':')\n"
                "        for line in tb_lines:\n"
                "            head, sep, tail = line.partition(':')\n"
                "            if sep and head and len(head.split()) == 1:\n"
                "                exc_type, exc_msg = head, tail\n"))
T('pkgL_t_exc_line_next_over_reversed', ['C20'],
  (FL, _SEARCH, "        exc_line = next((ln for ln in reversed(tb_lines) if cls._is_exc_line(ln)), tb_lines[0])\n"
                "        exc_type, sep, exc_msg = exc_line.partition(':')\n"),
  (FL, _FROM_STRING, _IS_EXC_LINE + _FROM_STRING))
T('pkgL_t_exc_line_descending_index', ['C20'],
  (FL, _SEARCH, "        for pos in range(len(tb_lines) - 1, -1, -1):\n"
                "            exc_type, sep, exc_msg = tb_lines[pos].partition(':')\n"
                "            if sep and exc_type and len(exc_type.split()) == 1:\n"
                "                break\n"))
T('pkgL_t_exc_line_negative_index_walk', ['C20'],
  (FL, _SEARCH, "        for back in range(1, len(tb_lines) + 1):\n"
                "            exc_type, sep, exc_msg = tb_lines[-back].partition(':')\n"
                "            if sep and exc_type and len(exc_type.split()) == 1:\n"
                "                break\n"))
T('pkgL_t_exc_line_helper_method', ['C20'],
  (FL, _SEARCH, "        exc_type, sep, exc_msg = cls.exception_line(tb_lines).partition(':')\n"),
  (FL, _FROM_STRING, "    @staticmethod\n    def exception_line(lines):\n        for line in reversed(lines):\n"
                     "            head, sep, _ = line.partition(':')\n"
                     "            if sep and head and len(head.split()) == 1:\n                return line\n"
                     "        return lines[0]\n\n" + _FROM_STRING))
T('pkgL_t_exc_line_last_of_filtered', ['C20'],
  (FL, _SEARCH, "        found = [ln for ln in tb_lines if ':' in ln and len(ln.partition(':')[0].split()) == 1]\n"
                "        exc_line = found[-1] if found else tb_lines[0]\n"
                "        exc_type, sep, exc_msg = exc_line.partition(':')\n"))
T('pkgL_t_exc_line_popped_from_copy', ['C20'],
  (FL, _SEARCH, "        rest = list(tb_lines)\n        while rest:\n"
                "            exc_type, sep, exc_msg = rest.pop().partition(':')\n"
                "            if sep and exc_type and len(exc_type.split()) == 1:\n"
                "                break\n"))
T('pkgL_t_exc_line_while_index_down', ['C20'],
  (FL, _SEARCH, "        pos = len(tb_lines) - 1\n        while pos > 0:\n"
                "            head, sep, _ = tb_lines[pos].partition(':')\n"
                "            if sep and head and len(head.split()) == 1:\n                break\n"
                "            pos -= 1\n"
                "        exc_type, sep, exc_msg = tb_lines[pos].partition(':')\n"))
T('pkgL_t_exc_line_private_helper_for_else', ['C20'],
  (FL, _SEARCH, "        exc_type, sep, exc_msg = cls._exception_line(tb_lines).partition(':')\n"),
  (FL, _FROM_STRING, "    @staticmethod\n    def _exception_line(lines):\n        for line in reversed(lines):\n"
                     "            head, sep, _ = line.partition(':')\n"
                     "            if sep and head and len(head.split()) == 1:\n                return line\n"
                     "        return lines[0]\n\n" + _FROM_STRING))
B('pkgL_b_exc_line_private_helper_top_down', ['C20'], 'R20.f',
  (FL, _SEARCH, "        exc_type, sep, exc_msg = cls._exception_line(tb_lines).partition(':')\n"),
  (FL, _FROM_STRING, "    @staticmethod\n    def _exception_line(lines):\n        for line in lines:\n"
                     "            head, sep, _ = line.partition(':')\n"
                     "            if sep and head and len(head.split()) == 1:\n                return line\n"
                     "        return lines[0]\n\n" + _FROM_STRING))


# ------------------------------------------------------------------ R20.g: what the child wrote to stderr is what the hook is given
_CONSUME = ("        def consume_lines():\n            for line in iter(child_proc.stderr.readline, ''):\n                if not line:\n                    break\n"
            "                line_text = line.decode('utf8')\n                if line_text.startswith(_MON_PREFIX):\n"
            "                    to_mon[:] = literal_eval(line_text[len(_MON_PREFIX):])\n                else:\n"
            "                    sys.stderr.write(line_text)\n                    stderr_buff.append(line_text)\n")
_BRANCHES = ("                if line_text.startswith(_MON_PREFIX):\n"
             "                    to_mon[:] = literal_eval(line_text[len(_MON_PREFIX):])\n                else:\n"
             "                    sys.stderr.write(line_text)\n                    stderr_buff.append(line_text)\n")
_JOIN = "            tb_str = ''.join(stderr_buff)\n"
_HOOK = "            err_server = error_func(tb_str, to_mon)\n"
_WAIT = ("            try:\n                reloader_loop(to_mon, 1)\n            except KeyboardInterrupt:\n                return 0\n"
         "            except SystemExit as se:\n                if se.code == 3:\n                    continue\n                return se.code\n"
         "            finally:\n                err_server.shutdown()\n                err_server.server_close()\n            return 0\n")
_BUILDER = ("        from clastic import flaw\n        err_app = flaw.create_app(tb_str, monitored_files)\n"
            "        err_server = make_server(hostname, port, err_app)\n"
            "        thread.start_new_thread(err_server.serve_forever, ())\n        return err_server\n")

B('pkgL_b_reader_guard_clause_inverted', ['C20'], 'R20.g',
  (SV, _BRANCHES, "                if line_text.startswith(_MON_PREFIX):\n                    sys.stderr.write(line_text)\n"
                  "                    stderr_buff.append(line_text)\n                    continue\n"
                  "                to_mon[:] = literal_eval(line_text[len(_MON_PREFIX):])\n"))
B('pkgL_b_reader_strips_other_prefix', ['C20'], 'R20.g',
  (SV, "_STDERR_BUFF_SIZE = 1024\n", "_STDERR_BUFF_SIZE = 1024\n_MON_TAG = '__clastic_mon_files'\n"),
  (SV, "literal_eval(line_text[len(_MON_PREFIX):])", "literal_eval(line_text[len(_MON_TAG):])"))
B('pkgL_b_child_writes_other_prefix', ['C20'], 'R20.g',
  (SV, "_STDERR_BUFF_SIZE = 1024\n", "_STDERR_BUFF_SIZE = 1024\n_MON_REPORT = '__clastic_monitored:'\n"),
  (SV, "sys.stderr.write('%s%r\\n' % (_MON_PREFIX, mon_list))", "sys.stderr.write('%s%r\\n' % (_MON_REPORT, mon_list))"))
B('pkgL_b_hook_given_one_line', ['C20'], 'R20.g', (SV, _JOIN, "            tb_str = stderr_buff[-1]\n"))
B('pkgL_b_hook_given_join_of_other_list', ['C20'], 'R20.g', (SV, _JOIN, "            tb_str = ''.join(to_mon)\n"))
B('pkgL_b_reader_collects_into_own_buffer', ['C20'], 'R20.g',
  (SV, "        def consume_lines():\n", "        def consume_lines():\n            stderr_buff = deque(maxlen=_STDERR_BUFF_SIZE)\n"))
B('pkgL_b_report_parsed_from_every_line', ['C20'], 'R20.g',
  (SV, _BRANCHES, "                to_mon[:] = literal_eval(line_text[len(_MON_PREFIX):])\n"
                  "                if not line_text.startswith(_MON_PREFIX):\n"
                  "                    sys.stderr.write(line_text)\n                    stderr_buff.append(line_text)\n"))
T('pkgL_t_reader_guard_clause', ['C20'],
  (SV, _BRANCHES, "                if not line_text.startswith(_MON_PREFIX):\n                    sys.stderr.write(line_text)\n"
                  "                    stderr_buff.append(line_text)\n                    continue\n"
                  "                report = line_text[len(_MON_PREFIX):]\n                to_mon[:] = literal_eval(report)\n"))
T('pkgL_t_reader_prefix_length_named', ['C20'],
  (SV, "        def consume_lines():\n", "        skip = len(_MON_PREFIX)\n\n        def consume_lines():\n"),
  (SV, "literal_eval(line_text[len(_MON_PREFIX):])", "literal_eval(line_text[skip:])"))
T('pkgL_t_reader_partition_strip', ['C20'],
  (SV, "literal_eval(line_text[len(_MON_PREFIX):])", "literal_eval(line_text.partition(_MON_PREFIX)[2])"))
T('pkgL_t_hook_text_joined_inline', ['C20'],
  (SV, _JOIN + _HOOK, "            err_server = error_func(''.join(stderr_buff), to_mon)\n"))
T('pkgL_t_hook_text_join_of_copy', ['C20'],
  (SV, _JOIN, "            collected = stderr_buff\n            tb_str = u''.join(list(collected))\n"))
T('pkgL_t_child_report_by_format', ['C20'],
  (SV, "sys.stderr.write('%s%r\\n' % (_MON_PREFIX, mon_list))", "report_line = '{0}{1!r}\\n'.format(_MON_PREFIX, mon_list)\n            sys.stderr.write(report_line)"))

# ------------------------------------------------------------------ R20.h: the failsafe is served, and taken down on every way round the loop
B('pkgL_b_cleanup_only_after_normal_wait', ['C20'], 'R20.h',
  (SV, "            finally:\n                err_server.shutdown()\n                err_server.server_close()\n            return 0\n",
       "            err_server.shutdown()\n            err_server.server_close()\n            return 0\n"))
B('pkgL_b_cleanup_in_handlers_but_not_on_restart', ['C20'], 'R20.h',
  (SV, _WAIT, "            try:\n                reloader_loop(to_mon, 1)\n            except KeyboardInterrupt:\n                code = 0\n"
              "            except SystemExit as se:\n                if se.code == 3:\n                    continue\n                code = se.code\n"
              "            else:\n                code = 0\n            err_server.shutdown()\n            err_server.server_close()\n            return code\n"))
B('pkgL_b_hook_result_dropped', ['C20'], 'R20.h',
  (SV, _HOOK, "            error_func(tb_str, to_mon)\n"),
  (SV, "            finally:\n                err_server.shutdown()\n                err_server.server_close()\n", ""))
B('pkgL_b_hook_called_without_guard', ['C20'], 'R20.h',
  (SV, "        elif error_func and exit_code == 1 and stderr_buff:\n", "        elif exit_code == 1 and stderr_buff:\n"))
B('pkgL_b_hook_guard_inverted_in_predicate', ['C20'], 'R20.h',
  (SV, "        elif error_func and exit_code == 1 and stderr_buff:\n", "        elif _wants_error_page(error_func, exit_code, stderr_buff):\n"),
  (SV, "def restart_with_reloader(error_func=None):\n",
       "def _wants_error_page(error_func, exit_code, stderr_buff):\n    if error_func:\n        return False\n"
       "    return exit_code == 1 and bool(stderr_buff)\n\n\ndef restart_with_reloader(error_func=None):\n"))
B('pkgL_b_error_server_serves_the_real_app', ['C20'], 'R20.h',
  (SV, "        err_server = make_server(hostname, port, err_app)\n", "        err_server = make_server(hostname, port, application)\n"))
B('pkgL_b_error_server_never_started', ['C20'], 'R20.h',
  (SV, "        thread.start_new_thread(err_server.serve_forever, ())\n        return err_server\n", "        return err_server\n"))
B('pkgL_b_error_app_returned_instead_of_server', ['C20'], 'R20.h',
  (SV, "        thread.start_new_thread(err_server.serve_forever, ())\n        return err_server\n",
       "        thread.start_new_thread(err_server.serve_forever, ())\n        return err_app\n"))
T('pkgL_t_cleanup_spelled_on_every_way', ['C20'],
  (SV, _WAIT, "            try:\n                reloader_loop(to_mon, 1)\n            except KeyboardInterrupt:\n                code = 0\n"
              "            except SystemExit as se:\n                code = se.code\n"
              "            else:\n                code = 0\n            err_server.shutdown()\n            err_server.server_close()\n"
              "            if code == 3:\n                continue\n            return code\n"))
T('pkgL_t_cleanup_public_helper', ['C20'],
  (SV, "            finally:\n                err_server.shutdown()\n                err_server.server_close()\n",
       "            finally:\n                stop_server(err_server)\n"),
  (SV, "def restart_with_reloader(error_func=None):\n",
       "def stop_server(server):\n    server.shutdown()\n    server.server_close()\n\n\ndef restart_with_reloader(error_func=None):\n"))
T('pkgL_t_wait_else_return', ['C20'],
  (SV, "            finally:\n                err_server.shutdown()\n                err_server.server_close()\n            return 0\n",
       "            else:\n                return 0\n            finally:\n                err_server.shutdown()\n                err_server.server_close()\n"))
T('pkgL_t_hook_guard_named', ['C20'],
  (SV, "        if exit_code == 3:\n            continue\n        elif error_func and exit_code == 1 and stderr_buff:\n",
       "        if exit_code == 3:\n            continue\n        show_error = error_func is not None and exit_code == 1 and len(stderr_buff) > 0\n"
       "        if show_error:\n"))
T('pkgL_t_hook_guard_private_predicate', ['C20'],
  (SV, "        elif error_func and exit_code == 1 and stderr_buff:\n", "        elif _wants_error_page(error_func, exit_code, stderr_buff):\n"),
  (SV, "def restart_with_reloader(error_func=None):\n",
       "def _wants_error_page(error_func, exit_code, stderr_buff):\n    if not error_func:\n        return False\n"
       "    return exit_code == 1 and bool(stderr_buff)\n\n\ndef restart_with_reloader(error_func=None):\n"))
T('pkgL_t_error_server_thread_object', ['C20'],
  (SV, "        thread.start_new_thread(err_server.serve_forever, ())\n",
       "        import threading\n        worker = threading.Thread(target=err_server.serve_forever)\n        worker.daemon = True\n        worker.start()\n"))
T('pkgL_t_error_server_built_inline', ['C20'],
  (SV, _BUILDER, "        from clastic.flaw import create_app\n        server = make_server(hostname, port, create_app(tb_str, monitored_files))\n"
                 "        thread.start_new_thread(server.serve_forever, ())\n        failsafe = server\n        return failsafe\n"))


# ------------------------------------------------------------------ R20.i: the failsafe runs no code that is named at run time
_WZ = ("    try:\n        import werkzeug\n        venv_site_dir = os.path.dirname(werkzeug.__file__)\n"
       "        ret = [fn for fn in ret if not fn.startswith(venv_site_dir)]\n    except:\n        pass\n")
_CL = ("    try:\n        import clastic\n        clastic_dir = os.path.dirname(clastic.__file__)\n"
       "        ret = [fn for fn in ret if not fn.startswith(clastic_dir)]\n    except:\n        pass\n")
B('pkgL_b_filter_imports_the_monitored_modules', ['C20'], 'R20.i',
  (FL, _CL, _CL + "    # leave out what cannot even be imported any more\n    importable = []\n    for fn in ret:\n        try:\n"
                  "            __import__(os.path.splitext(os.path.basename(fn))[0])\n            importable.append(fn)\n"
                  "        except:\n            pass\n"))
B('pkgL_b_parser_evals_the_message', ['C20'], 'R20.i',
  (FL, "        frames = []\n        for pair_idx in", "        if exc_msg.strip()[:1] in ('\"', \"'\"):\n            exc_msg = eval(exc_msg.strip())\n"
                                                        "        frames = []\n        for pair_idx in"))
B('pkgL_b_builder_runs_the_script_again', ['C20'], 'R20.i',
  (SV, "        from clastic import flaw\n", "        from clastic import flaw\n        import runpy\n        try:\n"
                                             "            runpy.run_path(sys.argv[0])\n        except BaseException:\n            pass\n"))
B('pkgL_b_module_imported_by_name_from_text', ['C20'], 'R20.i',
  (FL, "import os\nimport re\n", "import os\nimport re\nimport importlib\n"),
  (FL, "    non_site_files = _filter_site_files(monitored_files)\n",
       "    non_site_files = _filter_site_files(monitored_files)\n    try:\n        failed = importlib.import_module(str(traceback_string).split()[-1])\n"
       "    except Exception:\n        failed = None\n"))
T('pkgL_t_dunder_import_of_a_fixed_name', ['C20'],
  (FL, "        import werkzeug\n        venv_site_dir = os.path.dirname(werkzeug.__file__)\n",
       "        venv_site_dir = os.path.dirname(__import__('werkzeug').__file__)\n"))
T('pkgL_t_import_module_over_constant_names', ['C20'],
  (FL, "import os\nimport re\n", "import os\nimport re\nimport importlib\n"),
  (FL, _WZ + _CL, "    for pkg_name in ('werkzeug', 'clastic'):\n        try:\n            pkg_dir = os.path.dirname(importlib.import_module(pkg_name).__file__)\n"
                  "            ret = [fn for fn in ret if not fn.startswith(pkg_dir)]\n        except:\n            pass\n"))

# ------------------------------------------------------------------ R20.j: a module imported inside a function cannot stop the construction
B('pkgL_b_optional_package_imported_unguarded', ['C20'], 'R20.j',
  (FL, _WZ, "    import pkg_resources\n    dist_dir = os.path.dirname(pkg_resources.__file__)\n"
            "    ret = [fn for fn in ret if not fn.startswith(dist_dir)]\n" + _WZ))
B('pkgL_b_optional_import_handler_raises_again', ['C20'], 'R20.j',
  (FL, _WZ, "    try:\n        import pkg_resources\n    except ImportError:\n        raise RuntimeError('setuptools is needed to tell site files')\n"
            "    ret = [fn for fn in ret if not fn.startswith(os.path.dirname(pkg_resources.__file__))]\n" + _WZ))
B('pkgL_b_optional_import_in_create_app', ['C20'], 'R20.j',
  (FL, "    non_site_files = _filter_site_files(monitored_files)\n",
       "    from pygments.lexers import PythonTracebackLexer\n    non_site_files = _filter_site_files(monitored_files)\n"))
B('pkgL_b_optional_import_in_public_helper', ['C20'], 'R20.j',
  (FL, _WZ, "    ret = [fn for fn in ret if not fn.startswith(setuptools_dir())]\n" + _WZ),
  (FL, "def _filter_site_files(paths):\n", "def setuptools_dir():\n    import setuptools\n    return os.path.dirname(setuptools.__file__)\n\n\n"
                                           "def _filter_site_files(paths):\n"))
T('pkgL_t_optional_import_guarded', ['C20'],
  (FL, _WZ, "    try:\n        import pkg_resources\n        dist_dir = os.path.dirname(pkg_resources.__file__)\n"
            "        ret = [fn for fn in ret if not fn.startswith(dist_dir)]\n    except ImportError:\n        pass\n" + _WZ))
T('pkgL_t_stdlib_import_in_function', ['C20'],
  (FL, "    main_lib_dir = os.path.dirname(ast.__file__)\n", "    import sysconfig\n    main_lib_dir = sysconfig.get_paths()['stdlib']\n"))
T('pkgL_t_optional_import_in_helper_called_under_try', ['C20'],
  (FL, _WZ, "    try:\n        ret = [fn for fn in ret if not fn.startswith(setuptools_dir())]\n    except Exception:\n        pass\n" + _WZ),
  (FL, "def _filter_site_files(paths):\n", "def setuptools_dir():\n    import setuptools\n    return os.path.dirname(setuptools.__file__)\n\n\n"
                                           "def _filter_site_files(paths):\n"))


# ------------------------------------------------------------------ R20.f (2): the search from the end covers the last line
B('pkgL_b_exc_line_search_skips_last_line', ['C20'], 'R20.f',
  (FL, "        for line in reversed(tb_lines):\n", "        for line in reversed(tb_lines[:-1]):\n"))
B('pkgL_b_exc_line_reversed_slice_from_second_last', ['C20'], 'R20.f',
  (FL, "        for line in reversed(tb_lines):\n", "        for line in tb_lines[-2::-1]:\n"))
B('pkgL_b_exc_line_candidates_without_last', ['C20'], 'R20.f',
  (FL, "        for line in reversed(tb_lines):\n", "        candidates = tb_lines[1:-1]\n        for line in reversed(candidates):\n"))
B('pkgL_b_exc_line_descending_index_off_by_one', ['C20'], 'R20.f',
  (FL, _SEARCH, "        for pos in range(len(tb_lines) - 2, -1, -1):\n"
                "            exc_type, sep, exc_msg = tb_lines[pos].partition(':')\n"
                "            if sep and exc_type and len(exc_type.split()) == 1:\n"
                "                break\n"))
B('pkgL_b_exc_line_negative_walk_off_by_one', ['C20'], 'R20.f',
  (FL, _SEARCH, "        for back in range(2, len(tb_lines) + 1):\n"
                "            exc_type, sep, exc_msg = tb_lines[-back].partition(':')\n"
                "            if sep and exc_type and len(exc_type.split()) == 1:\n"
                "                break\n"))
B('pkgL_b_exc_line_fixed_second_last', ['C20'], 'R20.f',
  (FL, _SEARCH, "        exc_type, sep, exc_msg = tb_lines[-2].partition(':')\n"))
T('pkgL_t_exc_line_search_in_full_copy', ['C20'],
  (FL, "        for line in reversed(tb_lines):\n", "        for line in reversed(tb_lines[:]):\n"))
T('pkgL_t_exc_line_reversed_slice_from_last', ['C20'],
  (FL, "        for line in reversed(tb_lines):\n", "        for line in tb_lines[-1::-1]:\n"))
T('pkgL_t_exc_line_complement_index', ['C20'],
  (FL, _SEARCH, "        for i in range(len(tb_lines)):\n"
                "            exc_type, sep, exc_msg = tb_lines[~i].partition(':')\n"
                "            if sep and exc_type and len(exc_type.split()) == 1:\n"
                "                break\n"))


# ------------------------------------------------------------------ R20.c (taint): the text reaches HTML only as a value of the render context
_REG = "    arf.register_source('flaw_tmpl', _FLAW_TEMPLATE)\n"
B('pkgL_b_text_spliced_into_template_source', ['C20'], 'R20.c',
  (FL, _REG, "    arf.register_source('flaw_tmpl', _FLAW_TEMPLATE.replace('{tb_str}', traceback_string))\n"))
B('pkgL_b_file_list_appended_to_template_source', ['C20'], 'R20.c',
  (FL, _REG, "    page_source = _FLAW_TEMPLATE\n    if monitored_files:\n        page_source = page_source + u'<!-- %s -->' % u', '.join(monitored_files)\n"
             "    arf.register_source('flaw_tmpl', page_source)\n"))
B('pkgL_b_parsed_type_in_template_title', ['C20'], 'R20.c',
  (FL, _REG, "    title = parsed_error.get('exc_type', u'error')\n"
             "    arf.register_source('flaw_tmpl', _FLAW_TEMPLATE.replace(u\"Oh, Flaw'd\", u\"Oh, Flaw'd: \" + title))\n"))
B('pkgL_b_endpoint_answers_with_handmade_html', ['C20'], 'R20.c',
  (FL, "from .application import Application\n", "from .application import Application\nfrom werkzeug.wrappers import Response\n"),
  (FL, "    return {'mon_files': mon_files,\n", "    if not parsed_error:\n        return Response(u'<h2>%s</h2><pre>%s</pre>' % (last_line, tb_str), mimetype='text/html')\n"
                                              "    return {'mon_files': mon_files,\n"))
B('pkgL_b_endpoint_answers_with_fstring_html', ['C20'], 'R20.c',
  (FL, "from .application import Application\n", "from .application import Application\nfrom werkzeug.wrappers import Response\n"),
  (FL, "    return {'mon_files': mon_files,\n", "    if not mon_files:\n        page = f'<html><body><pre>{tb_str}</pre></body></html>'\n"
                                              "        return Response(page, content_type='text/html')\n    return {'mon_files': mon_files,\n"))
T('pkgL_t_template_from_constant_parts', ['C20'],
  (FL, _REG, "    page_source = _FLAW_TEMPLATE + u'<!-- clastic failsafe -->\\n'\n    arf.register_source('flaw_tmpl', page_source)\n"))
T('pkgL_t_context_value_built_from_text', ['C20'],
  (FL, "            'last_line': last_line,\n", "            'last_line': u'%s' % (last_line,),\n"))


# ------------------------------------------------------------------ R20.d (2): no bytes-only method on the path a text takes
_DECODE = "        if not isinstance(tb_str, str):\n            tb_str = tb_str.decode('utf-8')\n"
B('pkgL_b_decode_guard_inverted', ['C20'], 'R20.d',
  (FL, _DECODE, "        if isinstance(tb_str, str):\n            tb_str = tb_str.decode('utf-8')\n"))
B('pkgL_b_decode_conditional_expression_swapped', ['C20'], 'R20.d',
  (FL, _DECODE, "        tb_str = tb_str.decode('utf-8') if isinstance(tb_str, str) else tb_str\n"))
T('pkgL_t_decode_only_bytes', ['C20'],
  (FL, _DECODE, "        if isinstance(tb_str, bytes):\n            tb_str = tb_str.decode('utf-8')\n"))
T('pkgL_t_decode_conditional_expression', ['C20'],
  (FL, _DECODE + "        tb_lines = tb_str.lstrip().splitlines()\n",
       "        text = tb_str if isinstance(tb_str, str) else tb_str.decode('utf-8')\n        tb_lines = text.lstrip().splitlines()\n"))

# ------------------------------------------------------------------ R20.e (2): the builder passes on what it was handed
B('pkgL_b_builder_passes_configured_files', ['C20'], 'R20.e',
  (SV, "        err_app = flaw.create_app(tb_str, monitored_files)", "        err_app = flaw.create_app(tb_str, list(extra_files or ()))"))
B('pkgL_b_builder_passes_file_list_as_text', ['C20'], 'R20.e',
  (SV, "        err_app = flaw.create_app(tb_str, monitored_files)", "        err_app = flaw.create_app(u'\\n'.join(monitored_files), monitored_files)"))
T('pkgL_t_builder_passes_copy_of_files', ['C20'],
  (SV, "        err_app = flaw.create_app(tb_str, monitored_files)", "        err_app = flaw.create_app(tb_str, list(monitored_files))"))

# ------------------------------------------------------------------ realistic regressions hidden inside refactorings (pass 4, part c)
# c1  guard inverted in an extracted predicate (server.py): the reader's branches hang on a helper that answers the opposite
B('pkgL_r_report_predicate_inverted', ['C20'], 'R20.g',
  (SV, _BRANCHES, "                if _is_report_line(line_text):\n"
                  "                    to_mon[:] = literal_eval(line_text[len(_MON_PREFIX):])\n                    continue\n"
                  "                sys.stderr.write(line_text)\n                stderr_buff.append(line_text)\n"),
  (SV, "def restart_with_reloader(error_func=None):\n",
       "def _is_report_line(line_text):\n    \"The line on which the child announces the files it monitors.\"\n"
       "    return not line_text.startswith(_MON_PREFIX)\n\n\ndef restart_with_reloader(error_func=None):\n"))
# c2  the last line dropped by an off-by-one / the wrong one of two similarly named lists searched (flaw.py)
B('pkgL_r_search_runs_over_frame_lines', ['C20'], 'R20.f',
  (FL, "            frame_lines = tb_lines[1:-1]\n            frame_re = _frame_re\n", "            body_lines, frame_re = tb_lines[1:-1], _frame_re\n"),
  (FL, "            frame_lines = tb_lines[:-2]\n            frame_re = _se_frame_re\n", "            body_lines, frame_re = tb_lines[:-2], _se_frame_re\n"),
  (FL, "        for line in reversed(tb_lines):\n", "        for line in reversed(body_lines):\n"),
  (FL, "        for pair_idx in range(0, len(frame_lines), 2):\n            frame_line = frame_lines[pair_idx].strip()\n",
       "        frame_lines = body_lines\n        for pair_idx in range(0, len(frame_lines), 2):\n            frame_line = frame_lines[pair_idx].strip()\n"))
# c3  the wrong one of two similarly named variables passed on (server.py): the extracted page starter joins the file list
B('pkgL_r_error_page_helper_joins_wrong_list', ['C20'], 'R20.g',
  (SV, "            enable_tty_echo()\n" + _JOIN + _HOOK, "            err_server = _start_error_page(error_func, stderr_buff, to_mon)\n"),
  (SV, "def restart_with_reloader(error_func=None):\n",
       "def _start_error_page(error_func, stderr_lines, mon_files):\n    \"Serve the failsafe for what the child left on stderr.\"\n"
       "    enable_tty_echo()\n    return error_func(''.join(mon_files), mon_files)\n\n\ndef restart_with_reloader(error_func=None):\n"))
# c4  an except clause narrowed while the endpoint's text handling moves into a helper (flaw.py)
B('pkgL_r_last_line_helper_narrow_except', ['C20'], 'R20.b',
  (FL, _LAST, "    last_line = _last_line_of(tb_str)\n"),
  (FL, "def get_flaw_info(tb_str,", "def _last_line_of(text):\n    \"The last line of the text; an empty text has none.\"\n    try:\n"
                                    "        return text.splitlines()[-1]\n    except IndexError:\n        return u'Unknown error'\n\n\ndef get_flaw_info(tb_str,"))
# c5  a finally moved so that the clean-up is skipped on one path (server.py): only the ways out of the function shut down
B('pkgL_r_cleanup_moved_to_the_exits', ['C20'], 'R20.h',
  (SV, _WAIT, "            try:\n                reloader_loop(to_mon, 1)\n            except KeyboardInterrupt:\n                exit_code = 0\n"
              "            except SystemExit as se:\n                if se.code == 3:\n                    continue\n                exit_code = se.code\n"
              "            else:\n                exit_code = 0\n            try:\n                return exit_code\n            finally:\n"
              "                err_server.shutdown()\n                err_server.server_close()\n"))
# c6  guard inverted in an extracted predicate (flaw.py): the in-place sort runs exactly when there is nothing to sort
B('pkgL_r_sort_guard_predicate_inverted', ['C20'], 'R20.b',
  (FL, "    if monitored_files:\n        monitored_files.sort(key=lambda x: len(x))\n",
       "    if _nothing_to_sort(monitored_files):\n        monitored_files.sort(key=len)\n"),
  (FL, "def create_app(traceback_string, monitored_files=None):\n",
       "def _nothing_to_sort(files):\n    return files is None or len(files) < 2\n\n\ndef create_app(traceback_string, monitored_files=None):\n"))
# c7  the wrong one of two similarly named lists put under the wrong key when the resources move into a builder (flaw.py)
B('pkgL_r_resources_builder_swaps_lists', ['C20'], 'R20.b',
  (FL, _RESOURCES, "    resources = _make_resources(traceback_string, parsed_error, monitored_files, non_site_files)\n"),
  (FL, "def get_flaw_info(tb_str,", "def _make_resources(text, parsed, all_files, own_files):\n"
                                    "    return dict(tb_str=text, parsed_error=parsed, all_mon_files=own_files, mon_files=all_files)\n\n\ndef get_flaw_info(tb_str,"))
# c8  guard inverted when the bytes handling of the parser is extracted (flaw.py): every text is "decoded"
B('pkgL_r_text_coercion_helper_inverted', ['C20'], 'R20.d',
  (FL, _DECODE, "        tb_str = _as_text(tb_str)\n"),
  (FL, "class _ParsedTB(object):\n", "def _as_text(value):\n    \"Tracebacks read from a pipe arrive as bytes.\"\n    if isinstance(value, str):\n"
                                     "        return value.decode('utf-8')\n    return value\n\n\nclass _ParsedTB(object):\n"))


# ------------------------------------------------------------------ R20.d (3): what the parser made is what the {#section} around {exc_type} reads
B('pkgL_b_section_reads_other_value', ['C20'], 'R20.d', (FL, "            'parsed_err': parsed_error,\n", "            'parsed_err': mon_files,\n"))
B('pkgL_b_parsed_resource_is_constant', ['C20'], 'R20.d', (FL, "                 'parsed_error': parsed_error,\n", "                 'parsed_error': {},\n"))
B('pkgL_b_section_value_from_nowhere', ['C20'], 'R20.d', (FL, "            'parsed_err': parsed_error,\n", "            'parsed_err': {'exc_type': u'Error', 'exc_msg': u''},\n"))
B('pkgL_b_parsed_resource_is_other_local', ['C20'], 'R20.d',
  (FL, _RESOURCES, "    summary = {'files': len(non_site_files)}\n" + _RESOURCES.replace("'parsed_error': parsed_error", "'parsed_error': summary")))
T('pkgL_t_parsed_value_renamed_through', ['C20'],
  (FL, "                 'parsed_error': parsed_error,\n", "                 'error_info': parsed_error,\n"),
  (FL, "def get_flaw_info(tb_str, parsed_error,", "def get_flaw_info(tb_str, error_info,"),
  (FL, "            'parsed_err': parsed_error,\n", "            'parsed_err': error_info,\n"))


# ------------------------------------------------------------------ R20.h (2): the hook that reaches the restart loop is the builder of the failsafe
B('pkgL_b_restart_loop_started_without_hook', ['C20'], 'R20.h',
  (SV, "        sys.exit(restart_with_reloader(error_func=error_func))\n", "        sys.exit(restart_with_reloader())\n"))
B('pkgL_b_reloader_started_without_hook', ['C20'], 'R20.h',
  (SV, "        run_with_reloader(serve_forever, extra_files, reloader_interval,\n                          error_func=serve_error_app)\n",
       "        run_with_reloader(serve_forever, extra_files, reloader_interval)\n"))
B('pkgL_b_hook_is_the_real_server', ['C20'], 'R20.h',
  (SV, "                          error_func=serve_error_app)\n", "                          error_func=serve_forever)\n"))
T('pkgL_t_hook_passed_positionally_under_other_name', ['C20'],
  (SV, "        sys.exit(restart_with_reloader(error_func=error_func))\n", "        on_error = error_func\n        sys.exit(restart_with_reloader(on_error))\n"),
  (SV, "                          error_func=serve_error_app)\n", "                          serve_error_app)\n"))


# ------------------------------------------------------------------ R20.k: file names are handled by total string operations only
_RET = "    except:\n        pass\n\n    return ret\n"
_SORT = "        monitored_files.sort(key=lambda x: len(x))\n"
B('pkgL_b_files_sorted_by_mtime', ['C20'], 'R20.k', (FL, _SORT, "        monitored_files.sort(key=lambda x: os.path.getmtime(x), reverse=True)\n"))
B('pkgL_b_files_sorted_by_mtime_reference', ['C20'], 'R20.k', (FL, _SORT, "        monitored_files.sort(key=os.path.getmtime, reverse=True)\n"))
B('pkgL_b_names_made_relative', ['C20'], 'R20.k',
  (FL, _RET, "    except:\n        pass\n\n    ret = [os.path.relpath(fn) for fn in ret]\n    return ret\n"))
B('pkgL_b_hidden_files_by_first_character', ['C20'], 'R20.k',
  (FL, _RET, "    except:\n        pass\n\n    ret = [fn for fn in ret if os.path.basename(fn)[0] != '.']\n    return ret\n"))
B('pkgL_b_basename_by_rindex', ['C20'], 'R20.k',
  (FL, _RET, "    except:\n        pass\n\n    ret = [fn for fn in ret if not fn[fn.rindex(os.sep) + 1:].startswith('.')]\n    return ret\n"))
B('pkgL_b_containment_by_commonpath_in_public_helper', ['C20'], 'R20.k',
  (FL, "    ret = [fn for fn in ret if not fn.startswith(main_lib_dir)]\n", "    ret = [fn for fn in ret if not is_inside(fn, main_lib_dir)]\n"),
  (FL, "def _filter_site_files(paths):\n", "def is_inside(path, directory):\n    return os.path.commonpath([path, directory]) == directory\n\n\n"
                                           "def _filter_site_files(paths):\n"))
B('pkgL_b_only_existing_sources_kept', ['C20'], 'R20.k',
  (FL, _RET, "    except:\n        pass\n\n    kept = []\n    for fn in ret:\n        with open(fn) as source:\n            if source.read(1):\n"
             "                kept.append(fn)\n    return kept\n"))
T('pkgL_t_hidden_files_by_basename_prefix', ['C20'],
  (FL, _RET, "    except:\n        pass\n\n    ret = [fn for fn in ret if not os.path.basename(fn).startswith('.')]\n    return ret\n"))
T('pkgL_t_hidden_files_by_slice', ['C20'],
  (FL, _RET, "    except:\n        pass\n\n    ret = [fn for fn in ret if os.path.basename(fn)[:1] != '.']\n    return ret\n"))
T('pkgL_t_partial_operation_under_catch_all', ['C20'],
  (FL, _RET, "    except:\n        pass\n\n    try:\n        here = os.getcwd()\n        ret = [fn for fn in ret if os.path.commonpath([fn, here]) != here or True]\n"
             "    except Exception:\n        pass\n    return ret\n"))
T('pkgL_t_files_sorted_by_name_and_length', ['C20'], (FL, _SORT, "        monitored_files.sort(key=lambda x: (len(x), x.lower()))\n"))


# ------------------------------------------------------------------ R20.m: the parser's walks over the lines stay inside the list
# (a failure while the frames are collected loses the exception type and message too: one guarded call returns both)
_PAIRS = ("        for pair_idx in range(0, len(frame_lines), 2):\n"
          "            frame_line = frame_lines[pair_idx].strip()\n"
          "            frame_match = frame_re.match(frame_line)\n"
          "            if frame_match:\n"
          "                frame_dict = frame_match.groupdict()\n"
          "            else:\n"
          "                continue\n"
          "            frame_dict['source_line'] = frame_lines[pair_idx + 1].strip()\n"
          "            frames.append(frame_dict)\n")
_SRC = "            frame_dict['source_line'] = frame_lines[pair_idx + 1].strip()\n"
_EVERY_LINE = ("        for %s:\n"
               "            frame_match = frame_re.match(frame_lines[pos].strip())\n"
               "            if not frame_match:\n"
               "                continue\n"
               "            frame_dict = frame_match.groupdict()\n"
               "%s"
               "            frames.append(frame_dict)\n")
_SEARCH = ("        for line in reversed(tb_lines):\n"
           "            # get the bottom-most line that looks like an actual Exception\n"
           "            # repr(), (i.e., \"Exception: message\")\n"
           "            exc_type, sep, exc_msg = line.partition(':')\n"
           "            if sep and exc_type and len(exc_type.split()) == 1:\n"
           "                break\n")
B('pkgL_b_every_line_walk_reads_the_next_line', ['C20'], 'R20.m',
  (FL, _PAIRS, _EVERY_LINE % ('pos in range(len(frame_lines))', "            frame_dict['source_line'] = frame_lines[pos + 1].strip()\n")))
B('pkgL_b_every_line_walk_next_line_through_a_local', ['C20'], 'R20.m',
  (FL, _PAIRS, _EVERY_LINE % ('pos, _line in enumerate(frame_lines)',
                              "            after = pos + 1\n            frame_dict['source_line'] = frame_lines[after].strip()\n")))
B('pkgL_b_every_line_walk_guard_off_by_one', ['C20'], 'R20.m',
  (FL, _PAIRS, _EVERY_LINE % ('pos in range(len(frame_lines))',
                              "            frame_dict['source_line'] = frame_lines[pos + 1].strip() if pos + 1 <= len(frame_lines) else ''\n")))
B('pkgL_b_every_line_walk_guard_on_the_wrong_list', ['C20'], 'R20.m',
  (FL, _PAIRS, _EVERY_LINE % ('pos in range(len(frame_lines))',
                              "            frame_dict['source_line'] = frame_lines[pos + 1].strip() if pos + 1 < len(tb_lines) else ''\n")))
B('pkgL_b_pair_walk_peeks_at_the_next_frame', ['C20'], 'R20.m',
  (FL, _SRC, _SRC + "            frame_dict['is_innermost'] = not frame_re.match(frame_lines[pair_idx + 2].strip())\n"))
B('pkgL_b_while_walk_reads_the_next_line', ['C20'], 'R20.m',
  (FL, _PAIRS, "        pos = 0\n        while pos < len(frame_lines):\n"
               "            frame_match = frame_re.match(frame_lines[pos].strip())\n"
               "            if frame_match:\n"
               "                frames.append(dict(frame_match.groupdict(), source_line=frame_lines[pos + 1].strip()))\n"
               "            pos += 1\n"))
B('pkgL_b_comprehension_walk_reads_the_next_line', ['C20'], 'R20.m',
  (FL, _PAIRS, "        frames = [dict(frame_re.match(frame_lines[pos].strip()).groupdict(), source_line=frame_lines[pos + 1].strip())\n"
               "                  for pos in range(len(frame_lines)) if frame_re.match(frame_lines[pos].strip())]\n"))
B('pkgL_b_exception_search_compares_with_the_line_below', ['C20'], 'R20.m',
  (FL, _SEARCH, "        for pos in range(len(tb_lines) - 1, -1, -1):\n"
                "            exc_type, sep, exc_msg = tb_lines[pos].partition(':')\n"
                "            if sep and exc_type and len(exc_type.split()) == 1 and not tb_lines[pos + 1].startswith(' '):\n"
                "                break\n"))
B('pkgL_b_frame_walk_in_public_helper_reads_the_next_line', ['C20'], 'R20.m',
  (FL, _PAIRS, "        frames = collect_frames(frame_lines, frame_re)\n"),
  (FL, "def _filter_site_files(paths):\n",
       "def collect_frames(lines, pattern):\n    found = []\n    for pos, line in enumerate(lines):\n"
       "        m = pattern.match(line.strip())\n        if m:\n"
       "            found.append(dict(m.groupdict(), source_line=lines[pos + 1].strip()))\n    return found\n\n\n"
       "collect_frames_hook = collect_frames\n\n\ndef _filter_site_files(paths):\n"))
T('pkgL_t_every_line_walk_next_line_guarded', ['C20'],
  (FL, _PAIRS, _EVERY_LINE % ('pos in range(len(frame_lines))',
                              "            frame_dict['source_line'] = frame_lines[pos + 1].strip() if pos + 1 < len(frame_lines) else ''\n")))
T('pkgL_t_every_line_walk_last_position_flag', ['C20'],
  (FL, _PAIRS, _EVERY_LINE % ('pos, _line in enumerate(frame_lines)',
                              "            is_last = pos == len(frame_lines) - 1\n"
                              "            if is_last:\n                frame_dict['source_line'] = ''\n"
                              "            else:\n                frame_dict['source_line'] = frame_lines[pos + 1].strip()\n")))
T('pkgL_t_every_line_walk_guard_clause_and_length_local', ['C20'],
  (FL, _PAIRS, "        n_lines = len(frame_lines)\n        for pos in range(n_lines):\n"
               "            frame_match = frame_re.match(frame_lines[pos].strip())\n"
               "            if not frame_match:\n                continue\n"
               "            frame_dict = frame_match.groupdict()\n"
               "            frame_dict['source_line'] = ''\n            frames.append(frame_dict)\n"
               "            if pos + 1 >= n_lines:\n                continue\n"
               "            frame_dict['source_line'] = frame_lines[pos + 1].strip()\n"))
T('pkgL_t_every_line_walk_stops_one_short', ['C20'],
  (FL, _PAIRS, _EVERY_LINE % ('pos in range(len(frame_lines) - 1)', "            frame_dict['source_line'] = frame_lines[pos + 1].strip()\n")))
T('pkgL_t_every_line_walk_next_line_under_handler', ['C20'],
  (FL, _PAIRS, _EVERY_LINE % ('pos, _line in enumerate(frame_lines)',
                              "            try:\n                frame_dict['source_line'] = frame_lines[pos + 1].strip()\n"
                              "            except IndexError:\n                frame_dict['source_line'] = ''\n")))
T('pkgL_t_every_line_walk_next_line_by_slice', ['C20'],
  (FL, _PAIRS, _EVERY_LINE % ('pos, _line in enumerate(frame_lines)',
                              "            frame_dict['source_line'] = ''.join(frame_lines[pos + 1:pos + 2]).strip()\n")))
T('pkgL_t_while_walk_steps_by_what_it_read', ['C20'],
  (FL, _PAIRS, "        pos = 0\n        while pos < len(frame_lines):\n"
               "            frame_match = frame_re.match(frame_lines[pos].strip())\n"
               "            pos += 1\n"
               "            if not frame_match:\n                continue\n"
               "            frame_dict = frame_match.groupdict()\n"
               "            if pos < len(frame_lines) and not frame_re.match(frame_lines[pos].strip()):\n"
               "                frame_dict['source_line'] = frame_lines[pos].strip()\n                pos += 1\n"
               "            else:\n                frame_dict['source_line'] = ''\n"
               "            frames.append(frame_dict)\n"))
T('pkgL_t_pair_walk_by_zip', ['C20'],
  (FL, _PAIRS, "        for frame_line, source_line in zip(frame_lines[::2], frame_lines[1::2]):\n"
               "            frame_match = frame_re.match(frame_line.strip())\n"
               "            if frame_match:\n"
               "                frames.append(dict(frame_match.groupdict(), source_line=source_line.strip()))\n"))
T('pkgL_t_pair_walk_comprehension', ['C20'],
  (FL, _PAIRS, "        frames = [dict(frame_re.match(frame_lines[k].strip()).groupdict(), source_line=frame_lines[k + 1].strip())\n"
               "                  for k in range(0, len(frame_lines), 2) if frame_re.match(frame_lines[k].strip())]\n"))
