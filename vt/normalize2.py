"""More behaviour-preserving rewrites of the parsed tree (second half of the front-end, see normalize.py).

Each pass states the condition under which the two spellings are the same program; when the condition cannot be
established the construct is left as written (the rules then either recognise it themselves or answer
ANALYSIS-ERROR -- normalisation never guesses):

  A. ``hoist_walrus``      ``if (m := e) is None: ..``          ->  ``m = e`` / ``if m is None: ..``
  C. ``split_chain_loops`` ``for x in chain(A, B): body``       ->  ``for x in A: body`` / ``for x in B: body``
                           ``for x in chain.from_iterable(E for v in IT)``  ->  ``for v' in IT: for x in E: body``
  D. ``unroll_tables``     ``any(f(a) for f in _TABLE)`` / ``all(..)`` / ``for f in _TABLE: body`` over a module-level,
                           never re-bound tuple of *functions* (or rows containing functions) -> the or / and chain /
                           the unrolled statements (the private helpers named by the table are then inlined);
                           ``x = next((f for k, f in _TABLE if k == key), None)`` -> the if / elif chain over the rows
  D'. ``devirtualize_calls``  ``h = _f`` / ``h = _g`` ... ``r = h(a)``  ->  ``if h is _f: r = _f(a)`` / ``else: r = _g(a)``
  E. ``project_namedtuples``  ``p = _P(e1, e2)`` .. ``p.a``     ->  ``p__a = e1; p__b = e2; p = _P(p__a, p__b)`` .. ``p__a``
  H. ``forward_single_cell``  ``box = []`` .. ``box.append(v)`` .. ``box[0]``  ->  .. ``v``  (a local one-element list that nothing else
                           can reach, one append site outside loops, the read later in the append's own block)
  I. ``read_properties``    ``@property def p(self): return E`` .. ``self.p`` in a method of the class  ->  .. ``E``  (a read-only property
                           that no other module of the tree mentions: a derived value is read through its return expression)
  J. ``materialize_imports``  ``from ._priv import f as _f``  ->  ``def _f(..): <body of f>`` (+ the imports the body reads), for a
                           self-contained function of a private module of the tree; the private helper is then inlined like a local one
"""
import ast
import copy

from .normalize import _contains, _stored_names, _simple_arg, _Subst, _walk_same_scope, _map_blocks, Unroll

_SCOPES = (ast.FunctionDef, ast.AsyncFunctionDef, ast.ClassDef, ast.Lambda)


def _functions(tree):
    for n in ast.walk(tree):
        if isinstance(n, (ast.FunctionDef, ast.AsyncFunctionDef)):
            yield n


# ------------------------------------------------------------------------------------------------ A. walrus
def _spine_walrus(e):
    """The NamedExpr that is evaluated before anything else of expression ``e`` (or None), with its parent/field."""
    parent, field, idx = None, None, None
    while True:
        if isinstance(e, ast.NamedExpr):
            return e, parent, field, idx
        if isinstance(e, ast.UnaryOp):
            parent, field, idx, e = e, 'operand', None, e.operand
        elif isinstance(e, ast.Compare):
            parent, field, idx, e = e, 'left', None, e.left
        elif isinstance(e, ast.BoolOp):
            parent, field, idx, e = e, 'values', 0, e.values[0]
        elif isinstance(e, ast.BinOp):
            parent, field, idx, e = e, 'left', None, e.left
        elif isinstance(e, ast.IfExp):
            parent, field, idx, e = e, 'test', None, e.test
        elif isinstance(e, (ast.Attribute, ast.Subscript)):
            parent, field, idx, e = e, 'value', None, e.value
        elif isinstance(e, ast.Call):
            parent, field, idx, e = e, 'func', None, e.func
        else:
            return None, None, None, None


def hoist_walrus(tree):
    """``if (m := e) ..`` -> ``m = e; if m ..`` when the assignment expression is the first thing the statement
    evaluates (the leftmost spine of the test / value).  ``while`` tests are re-evaluated and are left alone."""
    n = [0]

    def fix(stmts):
        out = []
        for s in stmts:
            while True:
                holder, field = None, None
                if isinstance(s, ast.If):
                    holder, field = s, 'test'
                elif isinstance(s, (ast.Assign, ast.Expr, ast.Return, ast.AugAssign)) and getattr(s, 'value', None) is not None:
                    if isinstance(s, ast.AugAssign) or (isinstance(s, ast.Assign) and not all(isinstance(t, ast.Name) for t in s.targets)):
                        break      # the target's sub-expressions are evaluated first
                    holder, field = s, 'value'
                if holder is None:
                    break
                w, parent, pf, idx = _spine_walrus(getattr(holder, field))
                if w is None or not isinstance(w.target, ast.Name):
                    break
                out.append(ast.copy_location(ast.Assign(targets=[ast.Name(id=w.target.id, ctx=ast.Store())], value=w.value), w))
                ref = ast.copy_location(ast.Name(id=w.target.id, ctx=ast.Load()), w)
                if parent is None:
                    setattr(holder, field, ref)
                elif idx is None:
                    setattr(parent, pf, ref)
                else:
                    getattr(parent, pf)[idx] = ref
                n[0] += 1
            out.append(s)
        return out
    for f in _functions(tree):
        _map_blocks(f, fix)
    return n[0]


# ------------------------------------------------------------------------------------------------ C. chain loops
_MUTATORS = ('append', 'extend', 'insert', 'remove', 'pop', 'clear', 'sort', 'reverse', 'update', 'add', 'discard',
             'setdefault', 'popitem', '__setitem__', '__delitem__')


def _is_chain(f):
    return (isinstance(f, ast.Name) and f.id == 'chain') or \
        (isinstance(f, ast.Attribute) and f.attr == 'chain' and isinstance(f.value, ast.Name) and f.value.id == 'itertools')


def _is_from_iterable(f):
    return isinstance(f, ast.Attribute) and f.attr == 'from_iterable' and _is_chain(f.value)


def _stable_iterable(e):
    """An iterable expression whose evaluation has no effect and names an object that exists independently of when the
    expression is evaluated: a variable / attribute chain, a display of such, ``reversed(v)`` / ``list(v)`` / ``tuple(v)``."""
    if _simple_arg(e):
        return True
    if isinstance(e, ast.Subscript) and isinstance(e.slice, ast.Constant) and _simple_arg(e.value):
        return True
    if isinstance(e, (ast.Tuple, ast.List)):
        return all(_simple_arg(x) or isinstance(x, ast.Constant) for x in e.elts)
    if isinstance(e, ast.Call) and isinstance(e.func, ast.Name) and e.func.id in ('reversed', 'list', 'tuple', 'sorted') and \
            len(e.args) == 1 and not e.keywords:
        return _simple_arg(e.args[0])
    return False


def _roots(e):
    return set(n.id for n in ast.walk(e) if isinstance(n, ast.Name))


def split_chain_loops(tree, taken_of=None):
    n = [0]

    def parts_of(it, fresh):
        """-> list of ('iter', expr) | ('nest', var, outer iterable, conds, inner iterable)  or None"""
        if not isinstance(it, ast.Call) or it.keywords or any(isinstance(a, ast.Starred) for a in it.args):
            return None
        if _is_chain(it.func):
            out = []
            for a in it.args:
                sub = parts_of(a, fresh) if isinstance(a, ast.Call) and (_is_chain(a.func) or _is_from_iterable(a.func)) else None
                if sub is not None:
                    out.extend(sub)
                elif _stable_iterable(a):
                    out.append(('iter', a))
                else:
                    return None
            return out
        if _is_from_iterable(it.func) and len(it.args) == 1:
            g = it.args[0]
            if isinstance(g, (ast.GeneratorExp, ast.ListComp)) and len(g.generators) == 1 and not g.generators[0].is_async and \
                    isinstance(g.generators[0].target, ast.Name) and _stable_iterable(g.generators[0].iter) and \
                    (_stable_iterable(g.elt)) and not _contains([g], (ast.NamedExpr, ast.Lambda, ast.Await), stop=()):
                gen = g.generators[0]
                return [('nest', gen.target.id, gen.iter, list(gen.ifs), g.elt)]
            if _stable_iterable(g) and isinstance(g, (ast.Tuple, ast.List)):
                return [('iter', x) for x in g.elts]
        return None

    def fix_in(fn):
        names = set(x.id for x in ast.walk(fn) if isinstance(x, ast.Name)) | set(a.arg for x in ast.walk(fn) if isinstance(x, ast.arguments)
                                                                                  for a in x.posonlyargs + x.args + x.kwonlyargs)

        def fresh(base):
            c = '_chn_' + base
            while c in names:
                c += '_'
            names.add(c)
            return c

        def fix(stmts):
            out = []
            for s in stmts:
                if not isinstance(s, ast.For) or s.orelse:
                    out.append(s)
                    continue
                parts = parts_of(s.iter, fresh)
                if not parts or len(parts) > 4:
                    out.append(s)
                    continue
                body = s.body
                if sum(1 for b in body for x in ast.walk(b) if isinstance(x, ast.stmt)) > 12 or \
                        _contains(body, (ast.FunctionDef, ast.AsyncFunctionDef, ast.ClassDef, ast.Lambda, ast.Yield, ast.YieldFrom,
                                         ast.Await, ast.Global, ast.Nonlocal), stop=()):
                    out.append(s)
                    continue
                if _has_break(body):
                    out.append(s)
                    continue
                # the body must not re-bind or mutate what the later iterables read
                roots = set()
                for p in parts:
                    if p[0] == 'iter':
                        roots |= _roots(p[1])
                    else:
                        roots |= _roots(p[2]) | (_roots(p[4]) - {p[1]})
                        for c in p[3]:
                            roots |= _roots(c) - {p[1]}
                stored = _stored_names(body) | set(t.id for t in ast.walk(s.target) if isinstance(t, ast.Name))
                bad = bool(roots & stored)
                for b in body:
                    for x in ast.walk(b):
                        if isinstance(x, ast.Call) and isinstance(x.func, ast.Attribute) and x.func.attr in _MUTATORS and (_roots(x.func.value) & roots):
                            bad = True
                        if isinstance(x, (ast.Subscript, ast.Attribute)) and isinstance(x.ctx, (ast.Store, ast.Del)) and (_roots(x.value) & roots):
                            bad = True
                        if isinstance(x, ast.Call) and isinstance(x.func, ast.Name) and x.func.id in ('locals', 'vars', 'eval', 'exec'):
                            bad = True
                if bad:
                    out.append(s)
                    continue
                first = True
                for p in parts:
                    b = body if first else copy.deepcopy(body)
                    tgt = s.target if first else copy.deepcopy(s.target)
                    first = False
                    if p[0] == 'iter':
                        out.append(ast.copy_location(ast.For(target=tgt, iter=p[1], body=b, orelse=[], type_comment=None), s))
                    else:
                        v = fresh(p[1])
                        sub = _Subst({}, {p[1]: v})
                        inner_it = sub.visit(copy.deepcopy(p[4]))
                        inner = ast.copy_location(ast.For(target=tgt, iter=inner_it, body=b, orelse=[], type_comment=None), s)
                        blk = [inner]
                        for c in reversed(p[3]):
                            blk = [ast.copy_location(ast.If(test=sub.visit(copy.deepcopy(c)), body=blk, orelse=[]), s)]
                        out.append(ast.copy_location(ast.For(target=ast.Name(id=v, ctx=ast.Store()), iter=p[2], body=blk, orelse=[],
                                                             type_comment=None), s))
                n[0] += 1
            return out
        _map_blocks(fn, fix)

    def _has_break(body):
        todo = list(body)
        while todo:
            x = todo.pop()
            if isinstance(x, ast.Break):
                return True
            if isinstance(x, (ast.For, ast.While, ast.AsyncFor)):
                todo.extend(x.orelse)
                continue
            if isinstance(x, (ast.stmt, ast.ExceptHandler)):
                todo.extend(c for c in ast.iter_child_nodes(x) if isinstance(c, (ast.stmt, ast.ExceptHandler)))
        return False
    for f in _functions(tree):
        fix_in(f)
    return n[0]


# ------------------------------------------------------------------------------------------------ D. function tables
def _module_bindings(tree):
    """name -> number of bindings anywhere in the module (assignment, def, class, import, parameter, global ...)."""
    stores = {}

    def add(k, w=1):
        stores[k] = stores.get(k, 0) + w
    for n in ast.walk(tree):
        if isinstance(n, ast.Name) and isinstance(n.ctx, (ast.Store, ast.Del)):
            add(n.id)
        elif isinstance(n, ast.arg):
            add(n.arg, 2)
        elif isinstance(n, (ast.FunctionDef, ast.AsyncFunctionDef, ast.ClassDef)):
            add(n.name)
        elif isinstance(n, (ast.Global, ast.Nonlocal)):
            for x in n.names:
                add(x, 2)
        elif isinstance(n, ast.alias):
            add((n.asname or n.name).split('.')[0])
        elif isinstance(n, ast.ExceptHandler) and n.name:
            add(n.name, 2)
    return stores


def function_tables(tree):
    """Module-level ``NAME = (<row>, ...)`` bound once, never re-bound / shadowed, whose rows are names of module-level
    functions / classes / imports bound once, constants, ``operator.attrgetter('x')`` or tuples of those -- and which
    contain at least one callable (tables of plain constants keep their loop shape: the rules read them as tables)."""
    stores = _module_bindings(tree)
    top_defs = set()
    for st in tree.body:
        if isinstance(st, (ast.FunctionDef, ast.ClassDef)):
            top_defs.add(st.name)
        elif isinstance(st, (ast.Import, ast.ImportFrom)):
            for a in st.names:
                top_defs.add((a.asname or a.name).split('.')[0])
    builtins_ok = ('repr', 'str', 'len', 'bool', 'int', 'float', 'list', 'tuple', 'dict', 'set', 'sorted', 'callable', 'type', 'id')
    has_fn = [False]

    def ok(e, depth=0):
        if isinstance(e, ast.Constant):
            return True
        if isinstance(e, ast.Name):
            if (e.id in top_defs and stores.get(e.id) == 1) or (e.id in builtins_ok and e.id not in stores):
                has_fn[0] = True
                return True
            return False
        if isinstance(e, ast.Attribute) and isinstance(e.value, ast.Name) and e.value.id in top_defs and stores.get(e.value.id) == 1:
            has_fn[0] = True
            return True
        if _attrgetter_const(e) is not None:
            has_fn[0] = True
            return True
        if isinstance(e, ast.Tuple) and depth == 0:
            return all(ok(x, 1) for x in e.elts)
        return False
    out = {}
    for st in tree.body:
        if isinstance(st, ast.Assign) and len(st.targets) == 1 and isinstance(st.targets[0], ast.Name) and \
                isinstance(st.value, (ast.Tuple, ast.List)) and 1 <= len(st.value.elts) <= 8 and stores.get(st.targets[0].id) == 1:
            has_fn[0] = False
            if all(ok(e) for e in st.value.elts) and has_fn[0]:
                if isinstance(st.value, ast.List) and _mutated(tree, st.targets[0].id):
                    continue
                out[st.targets[0].id] = st.value
    return out


def _mutated(tree, name):
    for x in ast.walk(tree):
        if isinstance(x, ast.Attribute) and isinstance(x.value, ast.Name) and x.value.id == name and x.attr in _MUTATORS:
            return True
        if isinstance(x, ast.Subscript) and isinstance(x.ctx, (ast.Store, ast.Del)) and isinstance(x.value, ast.Name) and x.value.id == name:
            return True
        if isinstance(x, ast.AugAssign) and isinstance(x.target, ast.Name) and x.target.id == name:
            return True
    return False


def _attrgetter_const(e):
    """``operator.attrgetter('a.b')`` / ``attrgetter('a')`` -> ['a', 'b'] (None otherwise)."""
    if isinstance(e, ast.Call) and len(e.args) == 1 and not e.keywords and isinstance(e.args[0], ast.Constant) and \
            isinstance(e.args[0].value, str):
        f = e.func
        if (isinstance(f, ast.Name) and f.id == 'attrgetter') or \
                (isinstance(f, ast.Attribute) and f.attr == 'attrgetter' and isinstance(f.value, ast.Name) and f.value.id == 'operator'):
            parts = e.args[0].value.split('.')
            if all(p.isidentifier() for p in parts):
                return parts
    return None


class _AttrGetterCall(ast.NodeTransformer):
    """``operator.attrgetter('a.b')(o)`` -> ``o.a.b``"""

    def visit_Call(self, node):
        self.generic_visit(node)
        parts = _attrgetter_const(node.func) if isinstance(node.func, ast.Call) else None
        if parts and len(node.args) == 1 and not node.keywords and not isinstance(node.args[0], ast.Starred):
            e = node.args[0]
            for p in parts:
                e = ast.copy_location(ast.Attribute(value=e, attr=p, ctx=ast.Load()), node)
            return e
        return node


def _bind_row(target, row):
    """loop target (name or flat tuple of names) against a table row -> {name: expr} or None"""
    if isinstance(target, ast.Name):
        return {target.id: row}
    if isinstance(target, (ast.Tuple, ast.List)) and isinstance(row, ast.Tuple) and len(target.elts) == len(row.elts) and \
            all(isinstance(t, ast.Name) for t in target.elts):
        return dict((t.id, r) for t, r in zip(target.elts, row.elts))
    return None


def unroll_tables(tree):
    tables = function_tables(tree)
    if not tables:
        return 0
    n = [0]

    def shadowed_in(fn):
        return _stored_names(fn.body) | set(a.arg for x in ast.walk(fn) if isinstance(x, ast.arguments)
                                            for a in x.posonlyargs + x.args + x.kwonlyargs + [y for y in (x.vararg, x.kwarg) if y])

    class AnyAll(ast.NodeTransformer):
        def __init__(self, shadow):
            self.shadow = shadow
            self.boolctx = set()

        def _mark(self, e):
            """expressions whose value is only tested for truth"""
            self.boolctx.add(id(e))
            if isinstance(e, ast.BoolOp):
                for v in e.values:
                    self._mark(v)
            elif isinstance(e, ast.UnaryOp) and isinstance(e.op, ast.Not):
                self._mark(e.operand)

        def visit_If(self, node):
            self._mark(node.test)
            return self.generic_visit(node)

        def visit_While(self, node):
            self._mark(node.test)
            return self.generic_visit(node)

        def visit_IfExp(self, node):
            self._mark(node.test)
            return self.generic_visit(node)

        def visit_Assert(self, node):
            self._mark(node.test)
            return self.generic_visit(node)

        def visit_UnaryOp(self, node):
            if isinstance(node.op, ast.Not):
                self._mark(node.operand)
            return self.generic_visit(node)

        def visit_FunctionDef(self, node):
            return node

        visit_AsyncFunctionDef = visit_ClassDef = visit_Lambda = visit_FunctionDef

        def visit_Call(self, node):
            self.generic_visit(node)
            f = node.func
            if not (isinstance(f, ast.Name) and f.id in ('any', 'all') and f.id not in self.shadow and len(node.args) == 1 and not node.keywords):
                return node
            g = node.args[0]
            if not isinstance(g, (ast.GeneratorExp, ast.ListComp)) or len(g.generators) != 1:
                return node
            gen = g.generators[0]
            if gen.is_async or not isinstance(gen.iter, ast.Name) or gen.iter.id not in tables or gen.iter.id in self.shadow:
                return node
            if _contains([g.elt] + list(gen.ifs), (ast.NamedExpr, ast.Lambda, ast.ListComp, ast.SetComp, ast.DictComp, ast.GeneratorExp,
                                                    ast.Await, ast.Yield, ast.YieldFrom), stop=()):
                return node
            terms = []
            for row in tables[gen.iter.id].elts:
                b = _bind_row(gen.target, row)
                if b is None:
                    return node
                sub = _Subst(b, {})
                t = sub.visit(copy.deepcopy(g.elt))
                conds = [sub.visit(copy.deepcopy(c)) for c in gen.ifs]
                if conds:
                    # any: (c and t); all: (not c or t)
                    c = conds[0] if len(conds) == 1 else ast.BoolOp(op=ast.And(), values=conds)
                    if f.id == 'any':
                        t = ast.BoolOp(op=ast.And(), values=[c, t])
                    else:
                        t = ast.BoolOp(op=ast.Or(), values=[ast.UnaryOp(op=ast.Not(), operand=c), t])
                terms.append(ast.copy_location(t, node))
            if not terms:
                return node
            e = terms[0] if len(terms) == 1 else ast.BoolOp(op=ast.Or() if f.id == 'any' else ast.And(), values=terms)
            e = _AttrGetterCall().visit(ast.copy_location(e, node))
            n[0] += 1
            if id(node) in self.boolctx:
                return ast.copy_location(e, node)
            return ast.copy_location(ast.Call(func=ast.Name(id='bool', ctx=ast.Load()), args=[e], keywords=[]), node)

    def fix_in(fn):
        shadow = shadowed_in(fn)
        tr = AnyAll(shadow)
        for i, s in enumerate(fn.body):
            fn.body[i] = tr.visit(s)

        def fix(stmts):
            out = []
            for s in stmts:
                if not (isinstance(s, ast.For) and not s.orelse and isinstance(s.iter, ast.Name) and s.iter.id in tables and
                        s.iter.id not in shadow):
                    out.append(s)
                    continue
                body = s.body
                rows = tables[s.iter.id].elts
                binds = [_bind_row(s.target, r) for r in rows]
                tnames = set(t.id for t in ast.walk(s.target) if isinstance(t, ast.Name))
                if any(b is None for b in binds) or \
                        sum(1 for b in body for x in ast.walk(b) if isinstance(x, ast.stmt)) > 14 or Unroll._loop_jumps(body) or \
                        _contains(body, (ast.FunctionDef, ast.AsyncFunctionDef, ast.ClassDef, ast.Lambda, ast.Yield, ast.YieldFrom, ast.Await,
                                         ast.Global, ast.Nonlocal), stop=()) or (tnames & _stored_names(body)) or \
                        any(isinstance(x, ast.Call) and isinstance(x.func, ast.Name) and x.func.id in ('locals', 'vars', 'eval', 'exec')
                            for b in body for x in ast.walk(b)):
                    out.append(s)
                    continue
                # comprehension variables inside the body that shadow the loop target: leave
                comp = set(t.id for b in body for x in ast.walk(b) if isinstance(x, ast.comprehension) for t in ast.walk(x.target)
                           if isinstance(t, ast.Name))
                if comp & tnames:
                    out.append(s)
                    continue
                for b in binds:
                    # the loop variables stay assigned (they are readable after the loop)
                    for k in sorted(b):
                        out.append(ast.copy_location(ast.Assign(targets=[ast.Name(id=k, ctx=ast.Store())], value=copy.deepcopy(b[k])), s))
                    sub = _Subst(b, {})
                    for st in body:
                        out.append(_AttrGetterCall().visit(sub.visit(copy.deepcopy(st))))
                n[0] += 1
            return out
        _map_blocks(fn, fix)

        def lookups(stmts):
            # ``x = next((ELT for ROW in _TABLE if COND), <constant>)`` (also ``return next(..)``): the generator tests the rows in
            # order and stops at the first hit, so this is  ``if COND[row0]: x = ELT[row0] / elif COND[row1]: .. / else: x = <constant>``
            out = []
            for s in stmts:
                v = s.value if isinstance(s, (ast.Assign, ast.Return)) else None
                if isinstance(s, ast.Assign) and not (len(s.targets) == 1 and isinstance(s.targets[0], ast.Name)):
                    v = None
                g = v.args[0] if isinstance(v, ast.Call) and isinstance(v.func, ast.Name) and v.func.id == 'next' and 'next' not in shadow and \
                    len(v.args) == 2 and not v.keywords and isinstance(v.args[1], ast.Constant) and isinstance(v.args[0], ast.GeneratorExp) else None
                gen = g.generators[0] if g is not None and len(g.generators) == 1 else None
                if gen is None or gen.is_async or not isinstance(gen.iter, ast.Name) or gen.iter.id not in tables or gen.iter.id in shadow or \
                        _contains([g.elt] + list(gen.ifs), (ast.NamedExpr, ast.Lambda, ast.ListComp, ast.SetComp, ast.DictComp, ast.GeneratorExp,
                                                             ast.Await, ast.Yield, ast.YieldFrom), stop=()):
                    out.append(s)
                    continue
                binds = [_bind_row(gen.target, r) for r in tables[gen.iter.id].elts]
                if any(b is None for b in binds):
                    out.append(s)
                    continue

                def put(e):
                    if isinstance(s, ast.Return):
                        return ast.copy_location(ast.Return(value=e), s)
                    return ast.copy_location(ast.Assign(targets=[copy.deepcopy(s.targets[0])], value=e), s)
                chain_ = [put(v.args[1])]
                for b in reversed(binds):
                    sub = _Subst(b, {})
                    body = [put(_AttrGetterCall().visit(sub.visit(copy.deepcopy(g.elt))))]
                    conds = [_AttrGetterCall().visit(sub.visit(copy.deepcopy(c))) for c in gen.ifs]
                    if not conds:
                        chain_ = body          # a row without a condition is always a hit
                    else:
                        test = conds[0] if len(conds) == 1 else ast.BoolOp(op=ast.And(), values=conds)
                        chain_ = [ast.copy_location(ast.If(test=ast.copy_location(test, s), body=body, orelse=chain_), s)]
                out.extend(chain_)
                n[0] += 1
            return out
        _map_blocks(fn, lookups)
    for f in _functions(tree):
        fix_in(f)
    return n[0]


def devirtualize_calls(tree):
    """A local that only ever holds module-level functions (or None) and is called:

        ``h = _f`` .. ``h = _g`` .. ``h = None``   ...   ``r = h(a)``
        ->  ``if h is _f: r = _f(a)`` / ``elif h is _g: r = _g(a)`` / ``else: r = h(a)``

    Every binding of ``h`` in the function is a plain ``h = <name>`` of a function defined once at module level (never
    re-bound, not shadowed in the function) or ``h = None``; ``h`` is not a parameter, not global / nonlocal, not used in a
    nested scope.  ``h is _f`` holds exactly when the last binding executed was ``h = _f``, so each arm runs the statement it
    would have run.  The last arm is left open (``else: r = h(a)``) unless the statement sits in the body of ``if h is not
    None:`` / ``if h:`` in which ``h`` is not re-bound -- there ``h`` is one of the functions, and the last of them needs no test.
    Only statements whose value is the call itself are rewritten (``r = h(..)``, ``h(..)``, ``return h(..)``)."""
    stores = _module_bindings(tree)
    top_funcs = set(st.name for st in tree.body if isinstance(st, ast.FunctionDef) and stores.get(st.name) == 1)
    total = [0]
    for fn in _functions(tree):
        params = set(a.arg for x in ast.walk(fn) if isinstance(x, ast.arguments)
                     for a in x.posonlyargs + x.args + x.kwonlyargs + [y for y in (x.vararg, x.kwarg) if y])
        frozen = set()
        for x in ast.walk(fn):
            if isinstance(x, (ast.Global, ast.Nonlocal)):
                frozen |= set(x.names)
        own = [x for s in fn.body for x in _walk_same_scope(s)]
        own_ids = set(id(x) for x in own)
        local_stores = _stored_names(fn.body)
        binds = {}
        for x in own:
            if isinstance(x, ast.Assign) and len(x.targets) == 1 and isinstance(x.targets[0], ast.Name):
                v = x.value
                if (isinstance(v, ast.Name) and v.id in top_funcs and v.id not in local_stores and v.id not in params) or \
                        (isinstance(v, ast.Constant) and v.value is None):
                    binds.setdefault(x.targets[0].id, []).append(x)
        for h, assigns in sorted(binds.items()):
            if h in params or h in frozen:
                continue
            targets = set(id(a.targets[0]) for a in assigns)
            funcs = []
            for a in assigns:
                if isinstance(a.value, ast.Name) and a.value.id not in funcs:
                    funcs.append(a.value.id)
            if not funcs or len(funcs) > 4:
                continue
            ok = True
            for x in ast.walk(fn):
                if isinstance(x, ast.Name) and x.id == h:
                    if isinstance(x.ctx, (ast.Store, ast.Del)) and id(x) not in targets:
                        ok = False
                    if id(x) not in own_ids:
                        ok = False          # read in a nested scope
                elif isinstance(x, ast.ExceptHandler) and x.name == h:
                    ok = False
                elif isinstance(x, (ast.Import, ast.ImportFrom)) and any((a.asname or a.name).split('.')[0] == h for a in x.names):
                    ok = False
            if not ok:
                continue

            def is_call_stmt(s):
                v = s.value if isinstance(s, (ast.Assign, ast.Expr, ast.Return)) else None
                return isinstance(v, ast.Call) and isinstance(v.func, ast.Name) and v.func.id == h and \
                    not any(isinstance(z, ast.Name) and z.id == h for a_ in list(v.args) + [k.value for k in v.keywords] for z in ast.walk(a_)) and \
                    not (isinstance(s, ast.Assign) and any(isinstance(z, ast.Name) and z.id == h for t in s.targets for z in ast.walk(t)))

            def rewrite(stmts, non_none):
                out = []
                for s in stmts:
                    if is_call_stmt(s):
                        arms = []
                        for f_ in funcs:
                            s2 = copy.deepcopy(s)
                            s2.value.func = ast.copy_location(ast.Name(id=f_, ctx=ast.Load()), s.value.func)
                            arms.append((f_, s2))
                        tail = [s]
                        if non_none:
                            tail = [arms[-1][1]]
                            arms = arms[:-1]
                        for f_, s2 in reversed(arms):
                            test = ast.Compare(left=ast.Name(id=h, ctx=ast.Load()), ops=[ast.Is()], comparators=[ast.Name(id=f_, ctx=ast.Load())])
                            tail = [ast.copy_location(ast.If(test=ast.copy_location(test, s), body=[s2], orelse=tail), s)]
                        out.extend(tail)
                        total[0] += 1
                        continue
                    if isinstance(s, _SCOPES):
                        out.append(s)
                        continue
                    if isinstance(s, ast.If):
                        t = s.test
                        guard = (isinstance(t, ast.Name) and t.id == h) or \
                            (isinstance(t, ast.Compare) and len(t.ops) == 1 and isinstance(t.ops[0], ast.IsNot) and isinstance(t.left, ast.Name) and
                             t.left.id == h and isinstance(t.comparators[0], ast.Constant) and t.comparators[0].value is None)
                        s.body = rewrite(s.body, (non_none or guard) and h not in _stored_names(s.body))
                        s.orelse = rewrite(s.orelse, non_none and h not in _stored_names(s.orelse))
                        out.append(s)
                        continue
                    keep = non_none and h not in _stored_names([s])
                    for field in ('body', 'orelse', 'finalbody'):
                        sub = getattr(s, field, None)
                        if isinstance(sub, list) and sub and isinstance(sub[0], ast.stmt):
                            setattr(s, field, rewrite(sub, keep))
                    if isinstance(s, ast.Try):
                        for hd in s.handlers:
                            hd.body = rewrite(hd.body, keep)
                    out.append(s)
                return out
            fn.body = rewrite(fn.body, False)
    return total[0]


# ------------------------------------------------------------------------------------------------ E. named tuples
def namedtuple_types(tree):
    """Module-level ``_P = namedtuple('_P', 'a b')`` / ``namedtuple('_P', ['a', 'b'])`` bound once -- or a class deriving
    from just such a call that only adds plain methods: name -> field list."""
    stores = _module_bindings(tree)
    out = {}
    for st in tree.body:
        if isinstance(st, ast.ClassDef):
            # ``class _P(namedtuple('_P', 'a b')): __slots__ = (); <methods>``: construction and field access are the named
            # tuple's own when the body defines no constructor / attribute hook and binds no field name
            if len(st.bases) != 1 or st.keywords or st.decorator_list or not isinstance(st.bases[0], ast.Call):
                continue
            c, name = st.bases[0], st.name
            body_names = set()
            for m in st.body:
                if isinstance(m, (ast.FunctionDef, ast.AsyncFunctionDef, ast.ClassDef)):
                    body_names.add(m.name)
                else:
                    body_names |= _stored_names([m])
            if body_names & {'__new__', '__init__', '__getattribute__', '__getattr__', '__getitem__', '__class_getitem__', '__init_subclass__'}:
                continue
        elif isinstance(st, ast.Assign) and len(st.targets) == 1 and isinstance(st.targets[0], ast.Name) and isinstance(st.value, ast.Call):
            c, name, body_names = st.value, st.targets[0].id, set()
        else:
            continue
        f = c.func
        if not ((isinstance(f, ast.Name) and f.id == 'namedtuple') or
                (isinstance(f, ast.Attribute) and f.attr == 'namedtuple' and isinstance(f.value, ast.Name) and f.value.id == 'collections')):
            continue
        if len(c.args) != 2 or c.keywords or stores.get(name) != 1:
            continue
        spec = c.args[1]
        fields = None
        if isinstance(spec, ast.Constant) and isinstance(spec.value, str):
            fields = spec.value.replace(',', ' ').split()
        elif isinstance(spec, (ast.Tuple, ast.List)) and all(isinstance(e, ast.Constant) and isinstance(e.value, str) for e in spec.elts):
            fields = [e.value for e in spec.elts]
        if fields and all(x.isidentifier() and not x.startswith('_') for x in fields) and len(set(fields)) == len(fields) and \
                not (set(fields) & body_names):
            out[name] = fields
    return out


def project_namedtuples(tree):
    types = namedtuple_types(tree)
    if not types:
        return 0
    n = [0]
    for fn in _functions(tree):
        shadow = set(a.arg for a in fn.args.posonlyargs + fn.args.args + fn.args.kwonlyargs)
        # variables of this function (own scope) all of whose bindings are ``v = _P(...)`` with complete field lists
        binds, other = {}, set()
        nodes = [x for s in fn.body for x in _walk_same_scope(s)]
        for x in nodes:
            if isinstance(x, ast.Assign) and len(x.targets) == 1 and isinstance(x.targets[0], ast.Name) and isinstance(x.value, ast.Call) and \
                    isinstance(x.value.func, ast.Name) and x.value.func.id in types and x.value.func.id not in shadow:
                binds.setdefault(x.targets[0].id, []).append(x)
        assign_targets = set(id(a.targets[0]) for lst in binds.values() for a in lst)
        for x in ast.walk(fn):
            if isinstance(x, ast.Name) and isinstance(x.ctx, (ast.Store, ast.Del)) and id(x) not in assign_targets:
                other.add(x.id)
            elif isinstance(x, ast.arg):
                other.add(x.arg)
            elif isinstance(x, (ast.Global, ast.Nonlocal)):
                other |= set(x.names)
        inner_scopes = [x for x in ast.walk(fn) if isinstance(x, _SCOPES + (ast.GeneratorExp, ast.ListComp, ast.SetComp, ast.DictComp)) and x is not fn]
        for v, assigns in sorted(binds.items()):
            if v in other or v in shadow:
                continue
            tnames = set(a.value.func.id for a in assigns)
            if len(tnames) != 1:
                continue
            fields = types[tnames.pop()]
            plans = []
            for a in assigns:
                c = a.value
                if len(c.args) == 1 and isinstance(c.args[0], ast.Starred) and not c.keywords:
                    # ``_P(*e)``: the fields are the items of ``e`` in order (``v__a, v__b = e``; the two spellings differ
                    # only in the exception type when ``e`` does not have exactly that many items)
                    plans.append('star')
                    continue
                if any(isinstance(z, ast.Starred) for z in c.args) or any(k.arg is None for k in c.keywords):
                    plans = None
                    break
                got = list(fields[:len(c.args)]) + [k.arg for k in c.keywords]
                if sorted(got) != sorted(fields) or len(got) != len(fields):
                    plans = None
                    break
                plans.append(got)
            if not plans:
                continue
            # a projected field is named after the field when the function holds one record only and that name is free in the
            # whole function (the code then reads as if the options had been plain locals), ``<variable>__<field>`` otherwise
            import keyword
            used = set(z.id for z in ast.walk(fn) if isinstance(z, ast.Name)) | set(z.arg for z in ast.walk(fn) if isinstance(z, ast.arg)) | \
                set(nm for z in ast.walk(fn) if isinstance(z, (ast.Global, ast.Nonlocal)) for nm in z.names) | \
                set(z.name for z in ast.walk(fn) if isinstance(z, (ast.FunctionDef, ast.AsyncFunctionDef, ast.ClassDef))) | \
                set((a.asname or a.name).split('.')[0] for z in ast.walk(fn) if isinstance(z, (ast.Import, ast.ImportFrom)) for a in z.names) | \
                set(z.name for z in ast.walk(fn) if isinstance(z, ast.ExceptHandler) and z.name)
            plain = len(binds) == 1      # several records in one function: every field keeps its variable's prefix
            loc = dict((f, f if (plain and f not in used and not keyword.iskeyword(f)) else '%s__%s' % (v, f)) for f in fields)
            # only worth doing when a field of the variable is read by name / index somewhere
            if not any((isinstance(z, ast.Attribute) and z.attr in loc or isinstance(z, ast.Subscript) and isinstance(z.slice, ast.Constant)) and
                       isinstance(z.value, ast.Name) and z.value.id == v for z in ast.walk(fn)):
                continue
            allnames = set(z.id for z in ast.walk(fn) if isinstance(z, ast.Name))
            if any(l in allnames for l in loc.values()):
                continue
            # reads inside nested scopes see the variable late-bound: leave those functions alone
            if any(isinstance(z, ast.Name) and z.id == v for sc in inner_scopes for z in ast.walk(sc)):
                continue

            class Proj(ast.NodeTransformer):
                def visit_Attribute(self, node):
                    self.generic_visit(node)
                    if isinstance(node.value, ast.Name) and node.value.id == v and isinstance(node.ctx, ast.Load) and node.attr in loc:
                        return ast.copy_location(ast.Name(id=loc[node.attr], ctx=ast.Load()), node)
                    return node

                def visit_Subscript(self, node):
                    self.generic_visit(node)
                    if isinstance(node.value, ast.Name) and node.value.id == v and isinstance(node.ctx, ast.Load) and \
                            isinstance(node.slice, ast.Constant) and isinstance(node.slice.value, int) and \
                            not isinstance(node.slice.value, bool) and 0 <= node.slice.value < len(fields):
                        return ast.copy_location(ast.Name(id=loc[fields[node.slice.value]], ctx=ast.Load()), node)
                    return node
            for i, s in enumerate(fn.body):
                fn.body[i] = Proj().visit(s)
            amap = dict((id(a), got) for a, got in zip(assigns, plans))

            def fix(stmts):
                out = []
                for s in stmts:
                    if id(s) in amap and amap[id(s)] == 'star':
                        c = s.value
                        tgt = ast.Tuple(elts=[ast.Name(id=loc[f], ctx=ast.Store()) for f in fields], ctx=ast.Store())
                        out.append(ast.copy_location(ast.Assign(targets=[tgt], value=c.args[0].value), s))
                        c.args = [ast.copy_location(ast.Name(id=loc[f], ctx=ast.Load()), s) for f in fields]
                    elif id(s) in amap:
                        got = amap[id(s)]
                        c = s.value
                        vals = list(c.args) + [k.value for k in c.keywords]
                        for f, e in zip(got, vals):
                            out.append(ast.copy_location(ast.Assign(targets=[ast.Name(id=loc[f], ctx=ast.Store())], value=e), s))
                        c.args = [ast.copy_location(ast.Name(id=loc[f], ctx=ast.Load()), s) for f in fields]
                        c.keywords = []
                    out.append(s)
                return out
            _map_blocks(fn, fix)
            n[0] += 1
    return n[0]


# ------------------------------------------------------------------------------------------------ F. copies
def _ident_const(e):
    return isinstance(e, ast.Constant) and isinstance(e.value, str) and 0 < len(e.value) <= 40 and e.value.isidentifier()


class _CopySubst(ast.NodeTransformer):
    """Replace loads of the names in ``env`` (own scope, evaluated now: lambdas, nested definitions and generator
    expressions are evaluated later and are skipped)."""

    def __init__(self, env):
        self.env = env
        self.n = 0

    def visit_Name(self, node):
        if isinstance(node.ctx, ast.Load) and node.id in self.env:
            self.n += 1
            return ast.copy_location(copy.deepcopy(self.env[node.id]), node)
        return node

    def visit_Lambda(self, node):
        return node

    visit_FunctionDef = visit_AsyncFunctionDef = visit_ClassDef = visit_GeneratorExp = visit_Lambda

    def _comp(self, node):
        # the comprehension's own variables shadow
        shadow = set(t.id for g in node.generators for t in ast.walk(g.target) if isinstance(t, ast.Name))
        if shadow & set(self.env):
            inner = _CopySubst(dict((k, v) for k, v in self.env.items() if k not in shadow and
                                    not (isinstance(v, ast.Name) and v.id in shadow)))
            out = inner.generic_visit(node)
            self.n += inner.n
            return out
        if any(isinstance(v, ast.Name) and v.id in shadow for v in self.env.values()):
            return node
        return self.generic_visit(node)

    visit_ListComp = visit_SetComp = visit_DictComp = _comp


def propagate_copies(tree):
    """``a = b`` (``b`` a plain variable) / ``a = 'name'`` (an identifier-like string constant) followed, in straight-line
    code before either side is re-bound, by reads of ``a``: the reads are replaced by ``b`` / the constant.  The assignment
    itself stays.  Loops and ``try`` statements forget everything they may re-bind before their body is looked at."""
    total = [0]

    def stored_in(s):
        out = _stored_names([s])
        for x in ast.walk(s):
            if isinstance(x, ast.comprehension):
                pass
            elif isinstance(x, (ast.FunctionDef, ast.AsyncFunctionDef, ast.ClassDef)):
                out.add(x.name)
            elif isinstance(x, ast.NamedExpr) and isinstance(x.target, ast.Name):
                out.add(x.target.id)
        return out

    def kill(env, names):
        for k in list(env):
            v = env[k]
            if k in names or (isinstance(v, ast.Name) and v.id in names):
                del env[k]

    def subst_fields(s, env, fields):
        if not env:
            return
        for f in fields:
            v = getattr(s, f, None)
            if isinstance(v, ast.expr):
                tr = _CopySubst(env)
                setattr(s, f, tr.visit(v))
                total[0] += tr.n
            elif isinstance(v, list):
                for i, e in enumerate(v):
                    if isinstance(e, ast.expr):
                        tr = _CopySubst(env)
                        v[i] = tr.visit(e)
                        total[0] += tr.n

    def block(stmts, env, frozen):
        for s in stmts:
            if isinstance(s, (ast.FunctionDef, ast.AsyncFunctionDef, ast.ClassDef)):
                kill(env, {s.name})
                continue
            if isinstance(s, (ast.For, ast.AsyncFor, ast.While)):
                k = stored_in(s)
                if isinstance(s, ast.While):
                    kill(env, k)
                    subst_fields(s, env, ['test'])
                else:
                    subst_fields(s, env, ['iter'])
                    kill(env, k)
                block(s.body, dict(env), frozen)
                block(s.orelse, dict(env), frozen)
                kill(env, k)
                continue
            if isinstance(s, ast.If):
                subst_fields(s, env, ['test'])
                k = stored_in(s)
                block(s.body, dict(env), frozen)
                block(s.orelse, dict(env), frozen)
                kill(env, k)
                continue
            if isinstance(s, ast.Try):
                k = stored_in(s)
                kill(env, k)
                block(s.body, dict(env), frozen)
                for h in s.handlers:
                    block(h.body, dict(env), frozen)
                block(s.orelse, dict(env), frozen)
                block(s.finalbody, dict(env), frozen)
                continue
            if isinstance(s, (ast.With, ast.AsyncWith)):
                k = stored_in(s)
                for it in s.items:
                    subst_fields(it, env, ['context_expr'])
                kill(env, k)
                block(s.body, dict(env), frozen)
                continue
            if hasattr(ast, 'Match') and isinstance(s, ast.Match):
                kill(env, stored_in(s))
                continue
            # simple statement
            if isinstance(s, ast.Assign):
                subst_fields(s, env, ['value'])
                for t in s.targets:
                    if not isinstance(t, ast.Name):
                        tr = _CopySubst(env)
                        tr.visit(t)       # loads inside the target (``d[k] = ..``, ``o.a = ..``)
                        total[0] += tr.n
            elif isinstance(s, ast.AugAssign):
                subst_fields(s, env, ['value'])
                if not isinstance(s.target, ast.Name):
                    tr = _CopySubst(env)
                    tr.visit(s.target)
                    total[0] += tr.n
            elif isinstance(s, ast.AnnAssign):
                subst_fields(s, env, ['value'])
            elif isinstance(s, (ast.Expr, ast.Return)):
                subst_fields(s, env, ['value'])
            elif isinstance(s, ast.Raise):
                subst_fields(s, env, ['exc', 'cause'])
            elif isinstance(s, ast.Assert):
                subst_fields(s, env, ['test', 'msg'])
            elif isinstance(s, ast.Delete):
                pass
            k = stored_in(s)
            kill(env, k)
            if isinstance(s, ast.Assign) and len(s.targets) == 1 and isinstance(s.targets[0], ast.Name):
                x = s.targets[0].id
                v = s.value
                if x not in frozen and ((isinstance(v, ast.Name) and v.id != x and v.id not in frozen) or _ident_const(v)):
                    env[x] = v

    for fn in _functions(tree):
        frozen = set()
        for x in ast.walk(fn):
            if isinstance(x, (ast.Global, ast.Nonlocal)):
                frozen |= set(x.names)
            if isinstance(x, ast.Call) and isinstance(x.func, ast.Name) and x.func.id in ('locals', 'vars', 'eval', 'exec'):
                frozen = None
                break
        if frozen is None:
            continue
        block(fn.body, {}, frozen)
    return total[0]


# ------------------------------------------------------------------------------------------------ G. lazy temporaries
_LAZY_FUNCS = ('reversed', 'iter', 'enumerate', 'zip', 'map', 'filter')


def _lazy_iterable(e):
    """An expression that builds a lazy iterable without running any user code now: ``chain(..)``, ``chain.from_iterable(..)``,
    a generator expression over a stable iterable, ``reversed(v)`` ... -- arguments stable (see _stable_iterable) or lazy
    iterables themselves."""
    if isinstance(e, ast.GeneratorExp):
        g0 = e.generators[0]
        return (_stable_iterable(g0.iter) or _lazy_iterable(g0.iter)) and \
            not _contains([e], (ast.NamedExpr, ast.Await, ast.Yield, ast.YieldFrom), stop=())
    if isinstance(e, ast.Call) and not e.keywords and not any(isinstance(a, ast.Starred) for a in e.args):
        if _is_chain(e.func) or _is_from_iterable(e.func) or (isinstance(e.func, ast.Name) and e.func.id in ('reversed', 'iter')):
            return all(_stable_iterable(a) or _lazy_iterable(a) for a in e.args)
    return False


def forward_lazy_temps(tree):
    """``t = chain(a, b)`` / ``for x in t: ..`` -> ``for x in chain(a, b): ..`` when ``t`` is bound once, read once (as the
    iterable of a later ``for`` of the same block or inside the value of another such temporary), and nothing in between
    re-binds or mutates a variable the expression mentions.  (The iterable is then built later than written; it is lazy
    and its construction runs no user code, so the items produced are the same.)"""
    n = [0]
    for fn in _functions(tree):
        own = [x for s in fn.body for x in _walk_same_scope(s)]
        own_ids = set(id(x) for x in own)
        stores, loads = {}, {}
        for x in ast.walk(fn):
            if isinstance(x, ast.Name):
                (stores if isinstance(x.ctx, (ast.Store, ast.Del)) else loads).setdefault(x.id, []).append(x)
            elif isinstance(x, ast.arg):
                stores.setdefault(x.arg, []).append(x)
            elif isinstance(x, (ast.Global, ast.Nonlocal)):
                for nm in x.names:
                    stores.setdefault(nm, []).extend([x, x])

        def fix(stmts):
            changed = True
            while changed:
                changed = False
                for i, s in enumerate(stmts):
                    if not (isinstance(s, ast.Assign) and len(s.targets) == 1 and isinstance(s.targets[0], ast.Name) and _lazy_iterable(s.value)):
                        continue
                    t = s.targets[0].id
                    if len(stores.get(t, [])) != 1 or len(loads.get(t, [])) != 1 or id(loads[t][0]) not in own_ids:
                        continue
                    use = loads[t][0]
                    roots = _roots(s.value)
                    for j in range(i + 1, len(stmts)):
                        u = stmts[j]
                        host = None
                        if isinstance(u, ast.For) and u.iter is use:
                            host = ('iter', u)
                        elif isinstance(u, ast.Assign) and len(u.targets) == 1 and isinstance(u.targets[0], ast.Name) and \
                                any(x is use for x in ast.walk(u.value)) and _lazy_iterable(u.value):
                            host = ('value', u)
                        if host is not None:
                            if host[0] == 'iter':
                                u.iter = s.value
                            else:
                                class R(ast.NodeTransformer):
                                    def visit_Name(self, node):
                                        return s.value if node is use else node
                                u.value = R().visit(u.value)
                            del stmts[i]
                            loads[t] = []
                            n[0] += 1
                            changed = True
                            break
                        # an intermediate statement: must not touch what the expression reads, nor read t
                        bad = any(x is use for x in ast.walk(u)) or bool(_stored_names([u]) & roots)
                        for x in ast.walk(u):
                            if isinstance(x, ast.Call) and isinstance(x.func, ast.Attribute) and x.func.attr in _MUTATORS and (_roots(x.func.value) & roots):
                                bad = True
                            if isinstance(x, (ast.Subscript, ast.Attribute)) and isinstance(x.ctx, (ast.Store, ast.Del)) and (_roots(x.value) & roots):
                                bad = True
                        if bad:
                            break
                    if changed:
                        break
            return stmts
        _map_blocks(fn, fix)
    return n[0]


# ------------------------------------------------------------------------------------------------ H. one-element lists
def _cell_index(e):
    """``0`` / ``-1`` as a subscript"""
    if isinstance(e, ast.Constant) and type(e.value) is int and e.value in (0, -1):
        return True
    return isinstance(e, ast.UnaryOp) and isinstance(e.op, ast.USub) and isinstance(e.operand, ast.Constant) and \
        type(e.operand.value) is int and e.operand.value == 1


def forward_single_cell(tree):
    """``box = []`` .. ``box.append(v)`` .. ``box[0]``  ->  ``box = []`` .. ``box.append(v)`` .. ``v``   (also ``box[-1]``, and the append
    made through a bound-method temporary ``put = box.append`` .. ``put(v)``).

    Same program when: ``box`` is a plain local bound once, to ``[]``, by a top-level statement of the function; every other
    mention of it (none in a nested scope) is that one append statement, a ``put = box.append`` whose target is a local bound
    once and only ever called as a statement with one argument, or a ``box[0]`` / ``box[-1]`` read -- so nothing else can hold or
    change the list; there is exactly one append site, outside any loop, later than the binding, its argument a plain local
    ``v``; the read sits in a later statement of the very block of the append (so the append ran, once) and no statement from
    the append up to it re-binds ``v``.  The list then holds exactly the object ``v`` names."""
    total = 0
    for fn in _functions(tree):
        parent = {}
        for p in ast.walk(fn):
            for c in ast.iter_child_nodes(p):
                parent[id(c)] = p
        a = fn.args
        params = set(x.arg for x in a.posonlyargs + a.args + a.kwonlyargs) | set(x.arg for x in (a.vararg, a.kwarg) if x is not None)
        declared = set(nm for x in ast.walk(fn) if isinstance(x, (ast.Global, ast.Nonlocal)) for nm in x.names)
        own_ids = set(id(x) for s in fn.body for x in _walk_same_scope(s))
        occ = {}
        for x in ast.walk(fn):
            if isinstance(x, ast.Name):
                occ.setdefault(x.id, []).append(x)
        if any(isinstance(x, ast.Call) and isinstance(x.func, ast.Name) and x.func.id in ('locals', 'vars', 'eval', 'exec') for x in ast.walk(fn)):
            continue

        def plain_local_once(name):
            """bound exactly once in the function's own scope, never mentioned in a nested scope / global / nonlocal"""
            if name in params or name in declared:
                return False
            xs = occ.get(name, [])
            return all(id(x) in own_ids for x in xs) and len([x for x in xs if not isinstance(x.ctx, ast.Load)]) == 1

        def stmt_call_site(name_node):
            """``name_node`` is the callee of ``<callee>(arg)`` standing as a statement -> (statement, arg) else None"""
            c = parent.get(id(name_node))
            if isinstance(c, ast.Call) and c.func is name_node and len(c.args) == 1 and not c.keywords and not isinstance(c.args[0], ast.Starred) \
                    and isinstance(parent.get(id(c)), ast.Expr):
                return parent[id(c)], c.args[0]
            return None
        for k, s0 in enumerate(fn.body):
            if not (isinstance(s0, ast.Assign) and len(s0.targets) == 1 and isinstance(s0.targets[0], ast.Name) and
                    isinstance(s0.value, ast.List) and not s0.value.elts):
                continue
            box = s0.targets[0].id
            if not plain_local_once(box):
                continue
            sites, reads, ok = [], [], True
            for x in occ[box]:
                if x is s0.targets[0]:
                    continue
                p = parent.get(id(x))
                if isinstance(p, ast.Attribute) and p.value is x and p.attr == 'append' and isinstance(p.ctx, ast.Load):
                    site = stmt_call_site(p)
                    gp = parent.get(id(p))
                    if site is not None:
                        sites.append(site)
                    elif isinstance(gp, ast.Assign) and gp.value is p and len(gp.targets) == 1 and isinstance(gp.targets[0], ast.Name) \
                            and plain_local_once(gp.targets[0].id):
                        for y in occ[gp.targets[0].id]:
                            if y is gp.targets[0]:
                                continue
                            site = stmt_call_site(y)
                            if site is None:
                                ok = False
                            else:
                                sites.append(site)
                    else:
                        ok = False
                elif isinstance(p, ast.Subscript) and p.value is x and isinstance(p.ctx, ast.Load) and _cell_index(p.slice):
                    reads.append(p)
                else:
                    ok = False
            if not ok or len(sites) != 1 or not reads:
                continue
            site, arg = sites[0]
            if not isinstance(arg, ast.Name) or arg.id in declared or arg.id == box or \
                    not all(id(x) in own_ids for x in occ.get(arg.id, [])) or \
                    not (arg.id in params or any(not isinstance(x.ctx, ast.Load) for x in occ.get(arg.id, []))):
                continue
            # the append statement: outside loops, later than the binding; its block
            chain_, cur = [], site
            while cur is not fn and cur is not None:
                chain_.append(cur)
                cur = parent.get(id(cur))
            if cur is None or any(isinstance(x, (ast.For, ast.AsyncFor, ast.While)) for x in chain_):
                continue
            top = chain_[-1]
            if not any(top is s for s in fn.body[k + 1:]):
                continue
            holder = parent[id(site)]
            block = None
            for field in ('body', 'orelse', 'finalbody'):
                sub = getattr(holder, field, None)
                if isinstance(sub, list) and any(s is site for s in sub):
                    block = sub
            if block is None:
                continue
            i = [j for j, s in enumerate(block) if s is site][0]
            for r in reads:
                cur = r
                while cur is not None and not any(cur is s for s in block):
                    cur = parent.get(id(cur))
                if cur is None:
                    continue
                j = [m for m, s in enumerate(block) if s is cur][0]
                if j <= i or arg.id in _stored_names(block[i + 1:j + 1]):
                    continue
                rp = parent[id(r)]
                new = ast.copy_location(ast.Name(id=arg.id, ctx=ast.Load()), r)
                for field, val in ast.iter_fields(rp):
                    if val is r:
                        setattr(rp, field, new)
                    elif isinstance(val, list):
                        for m, it in enumerate(val):
                            if it is r:
                                val[m] = new
                parent[id(new)] = rp
                occ[arg.id].append(new)
                own_ids.add(id(new))
                total += 1
    return total


# ------------------------------------------------------------------------------------------------ I. read-only properties
def read_properties(tree, anchors, foreign):
    """``@property`` / ``def p(self): return E``  ..  ``self.p`` inside a method of the class (or of a class of the module deriving from it)
    ->  ``E`` with the getter's ``self`` read as the method's (a derived value is read through its return expression).

    A property is a data descriptor of the class: ``self.p`` runs this getter whenever the class of ``self`` resolves ``p`` to it, i.e.
    when no subclass re-defines the name.  That is established when the module binds the name once (the getter: no setter / deleter, no
    class attribute, no other def) and no other module of the tree mentions it (``foreign``).  The getter must be one ``return E``
    (after an optional docstring) with ``E`` making no scope of its own; the names ``E`` reads besides ``self`` are globals and must not
    be bound by the function the read sits in.  The read must be ``<self>.p`` with ``<self>`` the never re-bound instance parameter of a
    plain method / property getter, and the classes involved must be plain classes of this module all the way up to ``object`` (no
    metaclass, no ``__getattr__`` / ``__getattribute__``, no base we do not see).  Other reads (``other.p``, ``Class.p``) and the definition
    itself stay as they are.  Names the rules mention (anchors) are left alone.  Returns the number of reads replaced."""
    if foreign is None:
        return 0
    classes = dict((st.name, st) for st in tree.body if isinstance(st, ast.ClassDef))
    if not classes or _module_bindings(tree).get('property'):
        return 0

    def derives(name, base, seen=()):
        if name == base:
            return True
        c = classes.get(name)
        if c is None or name in seen:
            return False
        return any(isinstance(b, ast.Name) and derives(b.id, base, seen + (name,)) for b in c.bases)

    def closed(name, seen=()):
        """the class and all its bases are plain classes of this module (or ``object``): no metaclass, no attribute hook inherited from
        a class we do not see"""
        if name == 'object' and name not in classes:
            return True
        c = classes.get(name)
        if c is None or name in seen or c.keywords or c.decorator_list or [x for x in tree.body if isinstance(x, ast.ClassDef) and x.name == name] != [c]:
            return False
        if any(isinstance(m, (ast.FunctionDef, ast.AsyncFunctionDef)) and m.name in ('__getattribute__', '__getattr__') for m in c.body):
            return False
        return all(isinstance(b, ast.Name) and closed(b.id, seen + (name,)) for b in c.bases)
    parent = {}
    for p in ast.walk(tree):
        for c in ast.iter_child_nodes(p):
            parent[id(c)] = p
    done = 0
    for cname, cls in sorted(classes.items()):
        if not closed(cname):
            continue
        for fn in list(cls.body):
            if not (isinstance(fn, ast.FunctionDef) and len(fn.decorator_list) == 1 and isinstance(fn.decorator_list[0], ast.Name)
                    and fn.decorator_list[0].id == 'property'):
                continue
            name = fn.name
            a = fn.args
            if (name.startswith('__') and name.endswith('__')) or name in anchors or foreign(name):
                continue
            if len(a.args) != 1 or a.posonlyargs or a.kwonlyargs or a.vararg or a.kwarg or a.defaults:
                continue
            body = list(fn.body)
            if body and isinstance(body[0], ast.Expr) and isinstance(body[0].value, ast.Constant) and isinstance(body[0].value.value, str):
                body = body[1:]
            if len(body) != 1 or not isinstance(body[0], ast.Return) or body[0].value is None or \
                    _contains([body[0].value], (ast.Lambda, ast.ListComp, ast.SetComp, ast.DictComp, ast.GeneratorExp, ast.NamedExpr, ast.Await,
                                                ast.Yield, ast.YieldFrom), stop=()):
                continue
            expr = body[0].value
            me0 = a.args[0].arg
            if any(isinstance(x, ast.Name) and x.id == me0 and not isinstance(x.ctx, ast.Load) for x in ast.walk(expr)) or \
                    any(isinstance(x, ast.Attribute) and x.attr == name for x in ast.walk(expr)):
                continue
            free = set(x.id for x in ast.walk(expr) if isinstance(x, ast.Name)) - {me0}
            # the name is bound once in the module: this getter
            if any(x is not fn and ((isinstance(x, (ast.FunctionDef, ast.AsyncFunctionDef, ast.ClassDef)) and x.name == name) or
                                    (isinstance(x, ast.Name) and x.id == name) or (isinstance(x, ast.arg) and x.arg == name) or
                                    (isinstance(x, ast.alias) and name in (x.name, x.asname)) or
                                    (isinstance(x, (ast.Global, ast.Nonlocal)) and name in x.names) or
                                    (isinstance(x, ast.Attribute) and x.attr == name and not isinstance(x.ctx, ast.Load)))
                   for x in ast.walk(tree)):
                continue
            for n in [x for x in ast.walk(tree) if isinstance(x, ast.Attribute) and x.attr == name]:
                cur = parent.get(id(n))
                while cur is not None and not isinstance(cur, _SCOPES):
                    cur = parent.get(id(cur))
                holder = parent.get(id(cur)) if cur is not None else None
                if cur is fn or not (isinstance(n.value, ast.Name) and isinstance(cur, ast.FunctionDef) and
                                     isinstance(holder, ast.ClassDef) and classes.get(holder.name) is holder and derives(holder.name, cname) and closed(holder.name) and
                                     all(isinstance(d, ast.Name) and d.id == 'property' for d in cur.decorator_list) and
                                     cur.args.args and not cur.args.posonlyargs and cur.args.args[0].arg == n.value.id):
                    continue
                me = n.value.id
                bound = _stored_names(cur.body) | set(x.arg for y in ast.walk(cur) if isinstance(y, ast.arguments)
                                                      for x in y.posonlyargs + y.args + y.kwonlyargs + [z for z in (y.vararg, y.kwarg) if z]) | \
                    set(y.name for y in ast.walk(cur) if isinstance(y, (ast.FunctionDef, ast.AsyncFunctionDef, ast.ClassDef)) and y is not cur) | \
                    set(nm for y in ast.walk(cur) if isinstance(y, (ast.Global, ast.Nonlocal)) for nm in y.names)
                if me in _stored_names(cur.body) or (free & bound) or \
                        any(isinstance(x, ast.arg) and x.arg == me and x is not cur.args.args[0] for x in ast.walk(cur)):
                    continue
                new = _Subst({me0: ast.Name(id=me, ctx=ast.Load())}, {}).visit(copy.deepcopy(expr)) if me != me0 else copy.deepcopy(expr)
                for x in ast.walk(new):
                    ast.copy_location(x, n)
                p = parent[id(n)]
                for field, val in ast.iter_fields(p):
                    if val is n:
                        setattr(p, field, new)
                    elif isinstance(val, list):
                        for i, it in enumerate(val):
                            if it is n:
                                val[i] = new
                for x in ast.walk(new):
                    for c in ast.iter_child_nodes(x):
                        parent[id(c)] = x
                parent[id(new)] = p
                done += 1
    return done


# ------------------------------------------------------------------------------------------------ J. helpers of a private module
def _abs_import(modname, is_pkg, node):
    if node.level == 0:
        return node.module
    base = modname.split('.') if is_pkg else modname.split('.')[:-1]
    if node.level > 1:
        if node.level - 1 > len(base):
            return None
        base = base[:len(base) - (node.level - 1)]
    if node.module:
        base = base + node.module.split('.')
    return '.'.join(base)


def _import_binding(tree, modname, is_pkg, name):
    """What the *top-level* import statement binding ``name`` in the module binds it to: ('mod', 'a.b') / ('from', 'a.b', 'c'); None when
    the name is not bound by a plain top-level import."""
    for st in tree.body:
        if isinstance(st, ast.Import):
            for al in st.names:
                if al.asname == name or (al.asname is None and al.name == name):
                    return ('mod', al.name), st, al
        elif isinstance(st, ast.ImportFrom):
            for al in st.names:
                if al.name != '*' and (al.asname or al.name) == name:
                    src = _abs_import(modname, is_pkg, st)
                    if src is None:
                        return None
                    return ('from', src, al.name), st, al
    return None


def materialize_imports(tree, modname, is_pkg, load_tree, anchors):
    """``from ._priv import f as _f``  ->  a copy of ``def f`` under the name ``_f`` in place of the import.

    ``_priv`` is a private module (leading underscore) of the analysed tree, ``f`` is bound once there, by an undecorated top-level
    ``def`` that passes the inliner's eligibility test and whose defaults are constants; the local name is private and bound once here
    (the import).  The body must be self-contained: every name it reads that is not its own local is either bound once in ``_priv`` by
    a plain top-level import -- then this module binds it to the same thing (once, by a top-level import) or not at all, in which case
    the import is added here -- or bound in neither module (a builtin).  A function and its copy then compute the same thing from the
    same arguments; which module's globals they read makes no difference.  Names the rules mention (anchors) are left alone.  Returns
    the number of definitions copied."""
    from .normalize import _eligible_def
    if load_tree is None:
        return 0
    binds = _module_bindings(tree)
    done = 0
    for st in list(tree.body):
        if not isinstance(st, ast.ImportFrom):
            continue
        src_name = _abs_import(modname, is_pkg, st)
        leaf = (src_name or '').rpartition('.')[2]
        if not leaf.startswith('_') or leaf.startswith('__') or src_name == modname:
            continue
        got = load_tree(src_name)
        if got is None:
            continue
        src, src_pkg = got
        sb = _module_bindings(src)
        for al in list(st.names):
            local = al.asname or al.name
            if al.name == '*' or not local.startswith('_') or local.startswith('__') or local in anchors or al.name in anchors:
                continue
            if binds.get(local) != 1 or sb.get(al.name) != 1:
                continue
            fn = next((x for x in src.body if isinstance(x, ast.FunctionDef) and x.name == al.name), None)
            if fn is None or fn.decorator_list or _eligible_def(fn, any_name=True) != 'func':
                continue
            a = fn.args
            if not all(isinstance(d, ast.Constant) for d in list(a.defaults) + [d for d in a.kw_defaults if d is not None]):
                continue
            own = set(x.arg for x in ast.walk(fn) if isinstance(x, ast.arg)) | \
                set(x.id for x in ast.walk(fn) if isinstance(x, ast.Name) and not isinstance(x.ctx, ast.Load)) | \
                set(x.name for x in ast.walk(fn) if isinstance(x, ast.ExceptHandler) and x.name)
            free = set(x.id for x in ast.walk(fn) if isinstance(x, ast.Name) and isinstance(x.ctx, ast.Load)) - own
            need, ok = [], True
            for g in sorted(free):
                if not sb.get(g):
                    if binds.get(g):
                        ok = False          # a builtin there, something else here
                    continue
                there = _import_binding(src, src_name, src_pkg, g) if sb.get(g) == 1 else None
                if there is None:
                    ok = False
                    break
                if not binds.get(g):
                    need.append((g, there[0]))
                    continue
                here = _import_binding(tree, modname, is_pkg, g) if binds.get(g) == 1 else None
                if here is None or here[0] != there[0]:
                    ok = False
                    break
            if not ok:
                continue
            new = []
            for g, what in need:
                if what[0] == 'mod':
                    imp = ast.Import(names=[ast.alias(name=what[1], asname=g if g != what[1] else None)])
                else:
                    imp = ast.ImportFrom(module=what[1], names=[ast.alias(name=what[2], asname=g if g != what[2] else None)], level=0)
                ast.copy_location(imp, st)
                for x in ast.walk(imp):
                    ast.copy_location(x, st)
                new.append(imp)
                binds[g] = 1
            d = copy.deepcopy(fn)
            d.name = local
            new.append(d)
            i = tree.body.index(st)
            tree.body[i + 1:i + 1] = new
            st.names.remove(al)
            done += 1
        if not st.names:
            tree.body.remove(st)
    return done
