"""Variants for C06 / C07 / C08: the kinds of rewrite the dispatch rules follow (T), and the judgements that must
survive in the rewritten shapes (B)."""
from .variants import B, T, S, C, R, A, E, ST, CK, STATS, GZ, CC, PF, RS, FL, META, CE

# ---------------------------------------------------------------------------------------------- anchors in /repo
_SLASH = (
    "            if route.is_branch:\n"
    "                norm_path = normalize_path(url_path, route.is_branch)\n"
    "                if norm_path != url_path:\n"
    "                    if route.slash_mode == S_REDIRECT:\n"
    "                        # norm_path is decoded; re-quote it so that '?', '#'\n"
    "                        # and '%' in a segment stay part of the path\n"
    "                        query = request.query_string\n"
    "                        try:\n"
    "                            query = query.decode('utf8')\n"
    "                        except UnicodeDecodeError:\n"
    "                            # arbitrary bytes: keep them, percent-encoded\n"
    "                            query = url_quote(query, safe=_QUERY_SAFE)\n"
    "                        parts = [request.url_root.rstrip('/'), url_quote(norm_path),\n"
    "                                 '?', query]\n"
    "                        return redirect(''.join(parts))  # TODO: error_handler\n"
    "                    elif route.slash_mode == S_STRICT:\n"
    "                        nf_exc = err_handler.not_found_type(request=request,\n"
    "                                                            application=self,\n"
    "                                                            source_route=route)\n"
    "                        dispatch_state.add_exception(nf_exc)\n"
    "                        continue\n")
_QUERY = (
    "                    query = request.query_string\n"
    "                    try:\n"
    "                        query = query.decode('utf8')\n"
    "                    except UnicodeDecodeError:\n"
    "                        query = url_quote(query, safe=_QUERY_SAFE)\n")
_STRICT = (
    "                    nf_exc = err_handler.not_found_type(request=request, application=self, source_route=route)\n"
    "                    dispatch_state.add_exception(nf_exc)\n"
    "                    continue\n")


def _flat(redirect_guard='needs_fix and route.slash_mode == S_REDIRECT', strict_guard='needs_fix and route.slash_mode == S_STRICT',
          strict_body=_STRICT, tail='', location="'%s%s?%s' % (request.url_root.rstrip('/'), url_quote(norm_path), query)", is_branch='True'):
    """the slash handling as guard clauses over a named condition, Location built with one % format"""
    return ("            if route.is_branch:\n"
            "                norm_path = normalize_path(url_path, " + is_branch + ")\n"
            "                needs_fix = norm_path != url_path\n"
            "                if " + redirect_guard + ":\n" + _QUERY +
            "                    target = " + location + "\n"
            "                    return redirect(target)\n"
            "                if " + strict_guard + ":\n" + strict_body + tail)


T('pB_twin_slash_guard_clauses', ['C06', 'C07', 'C08'], (A, _SLASH, _flat()))
B('pB_flat_redirect_canonical_path', ['C07'], 'R07.a', (A, _SLASH, _flat(redirect_guard='route.slash_mode == S_REDIRECT')))
B('pB_flat_strict_still_executes', ['C07'], 'R07.a',
  (A, _SLASH, _flat(strict_body="                    dispatch_state.add_exception(err_handler.not_found_type(request=request, application=self, source_route=route))\n")))
B('pB_flat_rewrite_skipped', ['C07'], 'R07.a', (A, _SLASH, _flat(tail="                if needs_fix:\n                    continue\n")))
B('pB_flat_location_order', ['C07'], 'R07.b',
  (A, _SLASH, _flat(location="'%s?%s%s' % (request.url_root.rstrip('/'), query, url_quote(norm_path))")))
B('pB_flat_location_unquoted', ['C07'], 'R07.b', (A, _SLASH, _flat(location="'%s%s?%s' % (request.url_root.rstrip('/'), norm_path, query)")))
B('pB_flat_normalize_as_leaf', ['C07'], 'R07.a', (A, _SLASH, _flat(is_branch='False')))

# the mode held in a local that is None for a canonical path (conditional expression)
_MODE_LOCAL = (
    "            if route.is_branch:\n"
    "                norm_path = normalize_path(url_path, route.is_branch)\n"
    "                slash_mode = %s\n"
    "                if slash_mode == S_REDIRECT:\n" + _QUERY +
    "                    parts = [request.url_root.rstrip('/'), url_quote(norm_path), '?', query]\n"
    "                    return redirect(''.join(parts))\n"
    "                if slash_mode == S_STRICT:\n" + _STRICT)
T('pB_twin_mode_local_or_none', ['C06', 'C07', 'C08'], (A, _SLASH, _MODE_LOCAL % 'route.slash_mode if norm_path != url_path else None'))
B('pB_mode_local_unconditional', ['C07'], 'R07.a', (A, _SLASH, _MODE_LOCAL % 'route.slash_mode'))
B('pB_mode_local_default_redirect', ['C07'], 'R07.a', (A, _SLASH, _MODE_LOCAL % 'route.slash_mode if norm_path != url_path else S_REDIRECT'))

# canonical path defaulting to the request path, compared outside the is_branch test
_CANON = (
    "            canonical_path = url_path\n"
    "            if route.is_branch:\n"
    "                canonical_path = normalize_path(url_path, is_branch=True)\n"
    "            is_canonical = (canonical_path == url_path)\n"
    "            if not is_canonical and route.slash_mode == S_REDIRECT:\n" + _QUERY.replace('                    ', '                ') +
    "                return redirect(''.join([request.url_root.rstrip('/'), url_quote(canonical_path), '?', query]))\n"
    "            if not is_canonical and route.slash_mode == S_STRICT:\n" + _STRICT.replace('                    ', '                '))
T('pB_twin_canonical_defaults_to_request_path', ['C06', 'C07', 'C08'], (A, _SLASH, _CANON))
B('pB_canonical_default_not_request_path', ['C07'], 'R07.a',
  (A, _SLASH, _CANON.replace("            canonical_path = url_path\n", "            canonical_path = url_path.rstrip('/')\n")))

# ---------------------------------------------------------------------------------------------- the loop and its roles
_LOOP = "        for route in self.routes + [self._null_route]:\n"
T('pB_twin_candidates_local', ['C06', 'C07', 'C08'],
  (A, _LOOP, "        candidates = self.routes + [self._null_route]\n        for route in candidates:\n"))
T('pB_twin_candidates_star', ['C06', 'C07', 'C08'],
  (A, _LOOP, "        candidates = [*self.routes, self._null_route]\n        for route in candidates:\n"))
B('pB_candidates_reordered', ['C06'], 'R06.a',
  (A, _LOOP, "        candidates = self.routes + [self._null_route]\n        candidates.sort(key=lambda r: r.pattern)\n        for route in candidates:\n"))
_MTEST = "            method_allowed = route.match_method(method)\n            if not method_allowed:\n"
T('pB_twin_method_test_inline', ['C06', 'C07', 'C08'], (A, _MTEST, "            if not route.match_method(method):\n"))
B('pB_inline_method_test_inverted', ['C06', 'C07'], {'C06': 'R06.b', 'C07': 'R07.a'}, (A, _MTEST, "            if route.match_method(method):\n"))
B('pB_match_falsy_is_no_match', ['C06'], 'R06.b', (A, "            if path_params is None:\n", "            if not path_params:\n"))
T('pB_twin_request_attrs_separately', ['C06', 'C07'],
  (A, "        url_path, method = request.path, request.method\n", "        url_path = request.path\n        method = request.method\n"))
B('pB_method_from_override_header', ['C06'], 'R06.b',
  (A, "        url_path, method = request.path, request.method\n",
      "        url_path = request.path\n        method = request.headers.get('X-HTTP-Method-Override', request.method)\n"))
_TAIL = ("            if getattr(ret, 'is_breaking', True):\n                break\n            else:\n                dispatch_state.add_exception(ret)\n")
T('pB_twin_nonbreaking_first', ['C06', 'C08'],
  (A, _TAIL, "            if not getattr(ret, 'is_breaking', True):\n                dispatch_state.add_exception(ret)\n                continue\n            break\n"))
B('pB_nonbreaking_first_default_false', ['C06'], 'R06.b',
  (A, _TAIL, "            if not getattr(ret, 'is_breaking', False):\n                dispatch_state.add_exception(ret)\n                continue\n            break\n"))

# ---------------------------------------------------------------------------------------------- handler / renderer shapes (C08)
_HANDLER = ("                ret = exc\n"
            "                if not isinstance(ret, HTTPException):\n"
            "                    uncaught_params = dict(params, _route=route, _error=ret)\n"
            "                    ret = err_handler.uncaught_to_response(**uncaught_params)\n")
T('pB_twin_handler_if_else', ['C06', 'C08'],
  (A, _HANDLER, "                if isinstance(exc, HTTPException):\n                    ret = exc\n                else:\n"
                "                    ret = err_handler.uncaught_to_response(**dict(params, _route=route, _error=exc))\n"))
T('pB_twin_uncaught_params_updated', ['C08'],
  (A, _HANDLER, "                ret = exc\n                if not isinstance(exc, HTTPException):\n                    uncaught_params = dict(params)\n"
                "                    uncaught_params.update(_route=route, _error=exc)\n                    ret = err_handler.uncaught_to_response(**uncaught_params)\n"))
T('pB_twin_uncaught_params_display', ['C08'],
  (A, _HANDLER, "                ret = exc\n                if not isinstance(exc, HTTPException):\n"
                "                    ret = err_handler.uncaught_to_response(**{**params, '_route': route, '_error': exc})\n"))
B('pB_handler_if_else_result_dropped', ['C08'], 'R08.a',
  (A, _HANDLER, "                if isinstance(exc, HTTPException):\n                    ret = exc\n                else:\n"
                "                    err_handler.uncaught_to_response(**dict(params, _route=route, _error=exc))\n"))
B('pB_handler_converts_http_errors_too', ['C08'], 'R08.a',
  (A, _HANDLER, "                if isinstance(exc, HTTPException) and exc.code < 500:\n                    ret = exc\n                else:\n"
                "                    ret = err_handler.uncaught_to_response(**dict(params, _route=route, _error=exc))\n"))
B('pB_uncaught_gets_stale_result', ['C08'], 'R08.a',
  (A, _HANDLER, "                if isinstance(exc, HTTPException):\n                    ret = exc\n                else:\n"
                "                    ret = err_handler.uncaught_to_response(**dict(params, _route=route, _error=ret))\n"))
B('pB_uncaught_params_overridable', ['C08'], 'R08.a',
  (A, _HANDLER, "                ret = exc\n                if not isinstance(exc, HTTPException):\n"
                "                    ret = err_handler.uncaught_to_response(**{'_route': route, '_error': exc, **params})\n"))
_RENDER = ("        if isinstance(ret, HTTPException):\n"
           "            error_params = dict(params, _error=ret)\n"
           "            try:\n"
           "                ret = ret.source_route.execute_error(**error_params)\n"
           "            except Exception:\n"
           "                ret = default_render_error(**error_params)\n"
           "        return ret\n")
_RENDER_RET = ("        if not isinstance(ret, HTTPException):\n"
               "            return ret\n"
               "        http_error = ret\n"
               "        error_params = %s\n"
               "        try:\n"
               "            return http_error.source_route.execute_error(**error_params)\n"
               "        except Exception:\n"
               "            return default_render_error(**%s)\n")
T('pB_twin_render_by_direct_return', ['C06', 'C08'], (A, _RENDER, _RENDER_RET % ('dict(params, _error=http_error)', 'error_params')))
T('pB_twin_render_params_display', ['C08'], (A, _RENDER, _RENDER_RET % ("{**params, '_error': http_error}", 'error_params')))
B('pB_render_fallback_other_params', ['C08'], 'R08.a', (A, _RENDER, _RENDER_RET % ('dict(params, _error=http_error)', 'params')))
B('pB_render_error_is_not_the_result', ['C08'], 'R08.a', (A, _RENDER, _RENDER_RET % ('dict(params, _error=None)', 'error_params')))
B('pB_render_falls_off_the_end', ['C08'], 'R08.a',
  (A, _RENDER, "        if not isinstance(ret, HTTPException):\n            return ret\n        error_params = dict(params, _error=ret)\n        try:\n"
               "            return ret.source_route.execute_error(**error_params)\n        except Exception:\n            default_render_error(**error_params)\n"))
_WSGI = "        except RerouteWSGI as rre:\n            return rre.wsgi_app(environ, start_response)\n"
T('pB_twin_reroute_app_local', ['C08'],
  (A, _WSGI, "        except RerouteWSGI as rre:\n            target_app = rre.wsgi_app\n            return target_app(environ, start_response)\n"))
B('pB_reroute_calls_own_app', ['C08'], 'R08.a',
  (A, _WSGI, "        except RerouteWSGI as rre:\n            target_app = self.wsgi_app if hasattr(self, 'wsgi_app') else self\n            return target_app(environ, start_response)\n"))

# ---------------------------------------------------------------------------------------------- Application.add
_INS = "        for br in bound_routes:\n            self.routes.insert(index, br)\n            index += 1\n"
T('pB_twin_insert_enumerate', ['C06'], (A, _INS, "        for offset, br in enumerate(bound_routes):\n            self.routes.insert(index + offset, br)\n"))
T('pB_twin_insert_enumerate_start', ['C06'], (A, _INS, "        for pos, br in enumerate(bound_routes, index):\n            self.routes.insert(pos, br)\n"))
B('pB_enumerate_without_offset', ['C06'], 'R06.a', (A, _INS, "        for offset, br in enumerate(bound_routes):\n            self.routes.insert(index, br)\n"))
B('pB_enumerate_offset_subtracted', ['C06'], 'R06.a', (A, _INS, "        for offset, br in enumerate(bound_routes):\n            self.routes.insert(index - offset, br)\n"))
_DFLT = "        if index is None:\n            index = len(self.routes)\n"
T('pB_twin_start_index_local', ['C06'],
  (A, _DFLT, "        insert_at = len(self.routes) if index is None else index\n"),
  (A, _INS, "        for br in bound_routes:\n            self.routes.insert(insert_at, br)\n            insert_at += 1\n"))
B('pB_start_index_local_zero', ['C06'], 'R06.a',
  (A, _DFLT, "        insert_at = 0 if index is None else index\n"),
  (A, _INS, "        for br in bound_routes:\n            self.routes.insert(insert_at, br)\n            insert_at += 1\n"))

# ---------------------------------------------------------------------------------------------- route.py: methods
_MM = "        if method and self.methods:\n            if method.upper() not in self.methods:\n                return False\n        return True\n"
T('pB_twin_match_method_guard', ['C06'], (R, _MM, "        if not method or not self.methods:\n            return True\n        return method.upper() in self.methods\n"))
T('pB_twin_match_method_alias', ['C06'],
  (R, _MM, "        allowed = self.methods\n        if not method or not allowed:\n            return True\n        if method.upper() in allowed:\n"
           "            return True\n        return False\n"))
B('pB_match_method_guard_no_upper', ['C06'], 'R06.d', (R, _MM, "        if not method or not self.methods:\n            return True\n        return method in self.methods\n"))
B('pB_match_method_guard_inverted', ['C06'], 'R06.d',
  (R, _MM, "        if not method or not self.methods:\n            return True\n        return method.upper() not in self.methods\n"))
B('pB_match_method_falls_off', ['C06'], 'R06.d',
  (R, _MM, "        if not method or not self.methods:\n            return True\n        if method.upper() not in self.methods:\n            return False\n"))
_RM = ("        self.methods = methods and set([m.upper() for m in methods])\n"
       "        if self.methods:\n"
       "            unknown_methods = list(self.methods - HTTP_METHODS)\n"
       "            if unknown_methods:\n"
       "                raise InvalidMethod('unrecognized HTTP method(s): %r'\n"
       "                                    % unknown_methods)\n"
       "            if 'GET' in self.methods:\n"
       "                self.methods.add('HEAD')\n")
_RM2 = ("        if not methods:\n"
        "            self.methods = methods\n"
        "        else:\n"
        "            normalized = {m.upper() for m in methods}\n"
        "            unknown_methods = list(normalized.difference(HTTP_METHODS))\n"
        "            if unknown_methods:\n"
        "                raise InvalidMethod('unrecognized HTTP method(s): %%r' %% unknown_methods)\n"
        "            if 'GET' in %s:\n"
        "                normalized.add('HEAD')\n"
        "            self.methods = %s\n")
T('pB_twin_methods_normalised_in_local', ['C06'], (R, _RM, _RM2 % ('normalized', 'normalized')))
B('pB_local_head_decided_on_raw_methods', ['C06'], 'R06.d', (R, _RM, _RM2 % ('methods', 'normalized')))
B('pB_local_stores_raw_methods', ['C06'], 'R06.d', (R, _RM, _RM2 % ('normalized', 'set(methods)')))
_HS = ("        if _dispatch_state.exceptions:\n"
       "            return _dispatch_state.exceptions[-1]\n"
       "        elif _dispatch_state.allowed_methods:\n"
       "            MNAType = err_handler.method_not_allowed_type\n"
       "            return MNAType(allowed_methods=_dispatch_state.allowed_methods)\n"
       "        else:\n"
       "            NFType = err_handler.not_found_type\n"
       "            return NFType(dispatch_state=_dispatch_state,\n"
       "                          request=request,\n"
       "                          application=_application)\n")
_HS_EXC = "        parked = _dispatch_state.exceptions\n        if parked:\n            return parked[-1]\n"
_HS_405 = ("        allowed = _dispatch_state.allowed_methods\n        if allowed:\n            mna_type = err_handler.method_not_allowed_type\n"
           "            return mna_type(allowed_methods=allowed)\n")
_HS_404 = ("        nf_type = err_handler.not_found_type\n        return nf_type(dispatch_state=_dispatch_state, request=request, application=_application)\n")
T('pB_twin_sentinel_early_returns', ['C06'], (R, _HS, _HS_EXC + _HS_405 + _HS_404))
B('pB_sentinel_405_before_errors', ['C06'], 'R06.c', (R, _HS, _HS_405 + _HS_EXC + _HS_404))
B('pB_sentinel_first_parked_error', ['C06'], 'R06.c', (R, _HS, _HS_EXC.replace('parked[-1]', 'parked[0]') + _HS_405 + _HS_404))

# ---------------------------------------------------------------------------------------------- errors.py: Allow
_MNA = ("        if self.allowed_methods:\n"
        "            # RFC 7231 6.5.5: a 405 response must carry an Allow header\n"
        "            self.headers['Allow'] = ', '.join(sorted(self.allowed_methods))\n")
T('pB_twin_allow_from_sorted_local', ['C06'],
  (E, _MNA, "        allow_list = sorted(self.allowed_methods)\n        if allow_list:\n            self.headers['Allow'] = ', '.join(allow_list)\n"))
B('pB_allow_from_unrelated_local', ['C06'], 'R06.e',
  (E, _MNA, "        allow_list = sorted(['GET', 'HEAD'])\n        if allow_list:\n            self.headers['Allow'] = ', '.join(allow_list)\n"))
_AM = "        self.allowed_methods = set(allowed_methods or [])\n"
T('pB_twin_allowed_methods_conditional', ['C06'], (E, _AM, "        self.allowed_methods = set(allowed_methods) if allowed_methods else set()\n"))
B('pB_allowed_methods_never_taken', ['C06'], 'R06.e', (E, _AM, "        self.allowed_methods = set(['GET']) if allowed_methods else set()\n"))

# ---------------------------------------------------------------------------------------------- route.py: normalize_path
_NP = ("    ret = [x for x in path.split('/') if x]\n    if not ret:\n        return '/'\n    ret = [''] + ret\n    if is_branch:\n"
       "        ret.append('')\n    return '/'.join(ret)\n")
_NP_STR = ("    segments = list(filter(None, path.split('/')))\n    if not segments:\n        return '/'\n    normalized = %s'/'.join(segments)\n"
           "    if %s:\n        normalized += '/'\n    return normalized\n")
T('pB_twin_normalize_string_form', ['C07'], (R, _NP, _NP_STR % ("'/' + ", 'is_branch')))
T('pB_twin_normalize_conditional_expr', ['C07'],
  (R, _NP, "    segments = [s for s in path.split('/') if s]\n    if not segments:\n        return '/'\n"
           "    return '/' + '/'.join(segments) + ('/' if is_branch else '')\n"))
B('pB_normalize_string_no_leading_slash', ['C07'], 'R07.d', (R, _NP, _NP_STR % ('', 'is_branch')))
B('pB_normalize_string_always_trailing', ['C07'], 'R07.d', (R, _NP, _NP_STR % ("'/' + ", 'segments')))
B('pB_normalize_string_inverted_trailing', ['C07'], 'R07.d', (R, _NP, _NP_STR % ("'/' + ", 'not is_branch')))
B('pB_normalize_keeps_empty_segments', ['C07'], 'R07.d',
  (R, _NP, "    segments = path.strip('/').split('/')\n    if not segments:\n        return '/'\n    normalized = '/' + '/'.join(segments)\n"
           "    if is_branch:\n        normalized += '/'\n    return normalized\n"))
B('pB_normalize_unguarded_empty', ['C07'], 'R07.d',
  (R, _NP, "    segments = list(filter(None, path.split('/')))\n    normalized = '/' + '/'.join(segments)\n    if is_branch:\n"
           "        normalized += '/'\n    return normalized\n"))

# ---------------------------------------------------------------------------------------------- route.py: slash-mode plumbing
_SM = "        self.slash_mode = app.slash_mode if inherit_slashes else route.slash_mode\n"
_SM2 = ("        if inherit_slashes:\n            slash_mode = %s.slash_mode\n        else:\n            slash_mode = %s.slash_mode\n"
        "        self.slash_mode = slash_mode\n")
T('pB_twin_slash_mode_through_local', ['C07'], (R, _SM, _SM2 % ('app', 'route')))
B('pB_slash_mode_local_swapped', ['C07'], 'R07.c', (R, _SM, _SM2 % ('route', 'app')))
B('pB_slash_mode_local_always_app', ['C07'], 'R07.c', (R, _SM, _SM2 % ('app', 'app')))
_NB = "        kw['inherit_slashes'] = False\n        return super(NullRoute, self).bind(*a, **kw)\n"
T('pB_twin_null_bind_dict_copy', ['C07'],
  (R, _NB, "        bind_kwargs = dict(kw, inherit_slashes=False)\n        return super(NullRoute, self).bind(*a, **bind_kwargs)\n"))
T('pB_twin_null_bind_display', ['C07'], (R, _NB, "        return super(NullRoute, self).bind(*a, **{**kw, 'inherit_slashes': False})\n"))
B('pB_null_bind_caller_wins', ['C07'], 'R07.c', (R, _NB, "        return super(NullRoute, self).bind(*a, **{'inherit_slashes': False, **kw})\n"))
B('pB_null_bind_only_default', ['C07'], 'R07.c', (R, _NB, "        kw.setdefault('inherit_slashes', False)\n        return super(NullRoute, self).bind(*a, **kw)\n"))
_CP = ("        self.regex, self.converters = _compile_path_pattern(self.pattern,\n"
       "                                                            self.slash_mode)\n"
       "        self.path_args = self.converters.keys()\n")
T('pB_twin_compile_results_in_locals', ['C07'],
  (R, _CP, "        regex, converters = _compile_path_pattern(self.pattern, self.slash_mode)\n        self.regex = regex\n        self.converters = converters\n"
           "        self.path_args = converters.keys()\n"))
B('pB_compile_results_swapped', ['C07'], 'R07.c',
  (R, _CP, "        regex, converters = _compile_path_pattern(self.pattern, self.slash_mode)\n        self.regex = converters\n        self.converters = regex\n"
           "        self.path_args = regex.keys()\n"))
_BA = ("        kwargs['prefix'] = self.prefix\n        kwargs.setdefault('rebind_render', self.rebind_render)\n"
       "        kwargs.setdefault('inherit_slashes', self.inherit_slashes)\n")
_BA_LOOP = "            bound_rt = rt.bind(app, **kwargs)\n"
T('pB_twin_bind_all_own_mapping', ['C07'],
  (A, _BA, "        bind_kwargs = dict(kwargs, prefix=self.prefix)\n        bind_kwargs.setdefault('rebind_render', self.rebind_render)\n"
           "        bind_kwargs.setdefault('inherit_slashes', self.inherit_slashes)\n"),
  (A, _BA_LOOP, "            bound_rt = rt.bind(app, **bind_kwargs)\n"))
B('pB_bind_all_own_mapping_misnamed_key', ['C07'], 'R07.c',
  (A, _BA, "        bind_kwargs = dict(kwargs, prefix=self.prefix)\n        bind_kwargs.setdefault('rebind_render', self.rebind_render)\n"
           "        bind_kwargs.setdefault('inherit_slash', self.inherit_slashes)\n"),
  (A, _BA_LOOP, "            bound_rt = rt.bind(app, **bind_kwargs)\n"))
B('pB_bind_all_forwards_constant', ['C07'], 'R07.c',
  (A, _BA, "        bind_kwargs = dict(kwargs, prefix=self.prefix)\n        bind_kwargs.setdefault('rebind_render', self.rebind_render)\n"
           "        bind_kwargs.setdefault('inherit_slashes', True)\n"),
  (A, _BA_LOOP, "            bound_rt = rt.bind(app, **bind_kwargs)\n"))
_ADDKW = ("        kwargs.setdefault('rebind_render', getattr(rf, 'rebind_render', True))\n"
          "        kwargs.setdefault('inherit_slashes', getattr(rf, 'inherit_slashes', True))\n")
T('pB_twin_add_flags_in_a_loop', ['C07', 'C06'],
  (A, _ADDKW, "        for flag in ('rebind_render', 'inherit_slashes'):\n            kwargs.setdefault(flag, getattr(rf, flag, True))\n"))
B('pB_add_flags_loop_misnamed', ['C07'], 'R07.c',
  (A, _ADDKW, "        for flag in ('rebind_render', 'inherit_slash'):\n            kwargs.setdefault(flag, getattr(rf, flag, True))\n"))

# ---------------------------------------------------------------------------------------------- further equivalent spellings
T('pB_x_breaking_flag_local', ['C06', 'C08'],
  (A, _TAIL, "            is_breaking = getattr(ret, 'is_breaking', True)\n            if is_breaking:\n                break\n            dispatch_state.add_exception(ret)\n"))
T('pB_x_http_flag_local', ['C06', 'C08'],
  (A, "            if not isinstance(ret, HTTPException):\n                # TODO: verify behavior\n                break\n",
      "            is_error = isinstance(ret, HTTPException)\n            if not is_error:\n                break\n"))
T('pB_x_refused_local', ['C06', 'C07', 'C08'],
  (A, "            method_allowed = route.match_method(method)\n            if not method_allowed:\n",
      "            refused = not route.match_method(method)\n            if refused:\n"))
T('pB_x_canonical_pass', ['C06', 'C07', 'C08'],
  (A, _SLASH, "            if route.is_branch:\n                norm_path = normalize_path(url_path, route.is_branch)\n                if norm_path == url_path:\n                    pass\n"
              "                elif route.slash_mode == S_REDIRECT:\n" + _QUERY +
              "                    return redirect(request.url_root.rstrip('/') + url_quote(norm_path) + '?' + query)\n"
              "                elif route.slash_mode == S_STRICT:\n" + _STRICT))
T('pB_x_mode_first', ['C06', 'C07', 'C08'],
  (A, _SLASH, "            if route.is_branch:\n                norm_path = normalize_path(url_path, route.is_branch)\n                mode = route.slash_mode\n"
              "                if mode == S_REDIRECT and norm_path != url_path:\n" + _QUERY +
              "                    return redirect(f\"{request.url_root.rstrip('/')}{url_quote(norm_path)}?{query}\")\n"
              "                elif mode == S_STRICT and norm_path != url_path:\n" + _STRICT))
T('pB_x_mm_one_expr', ['C06'], (R, _MM, "        return not (method and self.methods) or method.upper() in self.methods\n"))
B('pB_x_mm_one_expr_bad', ['C06'], 'R06.d', (R, _MM, "        return not method or method.upper() in self.methods\n"))
B('pB_x_mm_one_expr_bad2', ['C06'], 'R06.d', (R, _MM, "        return not (method and self.methods) or method in self.methods\n"))
T('pB_x_hs_nested', ['C06'], (R, _HS, "        if not _dispatch_state.exceptions:\n            if _dispatch_state.allowed_methods:\n                return err_handler.method_not_allowed_type(allowed_methods=_dispatch_state.allowed_methods)\n            return err_handler.not_found_type(dispatch_state=_dispatch_state, request=request, application=_application)\n        return _dispatch_state.exceptions[-1]\n"))
T('pB_x_rm_cond_expr', ['C06'], (R, "        self.methods = methods and set([m.upper() for m in methods])\n", "        self.methods = set(m.upper() for m in methods) if methods else methods\n"))

# ---------------------------------------------------------------------------------------------- second pass: recording order (R06.c)
# exceptions[-1] is the most recent error only if add_exception is an unconditional append and nobody else writes the list
_AE = "    def add_exception(self, exception):\n        self.exceptions.append(exception)\n"
_AE_HEAD = "    def add_exception(self, exception):\n"
T('pB2_twin_record_extend_display', ['C06'], (A, _AE, _AE_HEAD + "        self.exceptions.extend([exception])\n"))
T('pB2_twin_record_augmented', ['C06'], (A, _AE, _AE_HEAD + "        self.exceptions += [exception]\n"))
T('pB2_twin_record_through_alias', ['C06'], (A, _AE, _AE_HEAD + "        recorded = self.exceptions\n        recorded.append(exception)\n"))
T('pB2_twin_record_insert_at_len', ['C06'], (A, _AE, _AE_HEAD + "        self.exceptions.insert(len(self.exceptions), exception)\n"))
T('pB2_twin_record_both_branches', ['C06'],
  (A, _AE, _AE_HEAD + "        if getattr(exception, 'is_breaking', True):\n            self.exceptions.append(exception)\n"
                      "        else:\n            self.exceptions.append(exception)\n"))
B('pB2_record_skips_known_instances', ['C06'], 'R06.c',
  (A, _AE, _AE_HEAD + "        if exception not in self.exceptions:\n            self.exceptions.append(exception)\n"))
B('pB2_record_guard_clause_same_code', ['C06'], 'R06.c',
  (A, _AE, _AE_HEAD + "        if any(e.code == exception.code for e in self.exceptions):\n            return\n        self.exceptions.append(exception)\n"))
B('pB2_record_at_front', ['C06'], 'R06.c', (A, _AE, _AE_HEAD + "        self.exceptions.insert(0, exception)\n"))
B('pB2_record_keeps_only_first', ['C06'], 'R06.c',
  (A, _AE, _AE_HEAD + "        self.exceptions.append(exception)\n        del self.exceptions[1:]\n"))
B('pB2_record_then_sorted_by_code', ['C06'], 'R06.c',
  (A, _AE, _AE_HEAD + "        self.exceptions.append(exception)\n        self.exceptions.sort(key=lambda e: e.code or 0)\n"))
B('pB2_record_alias_reordered', ['C06'], 'R06.c',
  (A, _AE, _AE_HEAD + "        recorded = self.exceptions\n        recorded.append(exception)\n        recorded.reverse()\n"))
B('pB2_record_rebound_argument', ['C06'], 'R06.c',
  (A, _AE, _AE_HEAD + "        exception = self.exceptions[0] if self.exceptions else exception\n        self.exceptions.append(exception)\n"))
B('pB2_sentinel_consumes_recorded_errors', ['C06'], 'R06.c',
  (R, "        if _dispatch_state.exceptions:\n            return _dispatch_state.exceptions[-1]\n",
      "        if _dispatch_state.exceptions:\n            _dispatch_state.exceptions.sort(key=lambda e: e.code or 0)\n            return _dispatch_state.exceptions[-1]\n"))
B('pB2_dispatch_rewrites_recorded_errors', ['C06'], 'R06.c',
  (A, "            else:\n                dispatch_state.add_exception(ret)\n",
      "            else:\n                dispatch_state.add_exception(ret)\n                dispatch_state.exceptions.reverse()\n"))

# ---------------------------------------------------------------------------------------------- second pass: the canonicity test (R07.a)
# the test "is this path canonical" compares normalize_path(request path) with the request path in the same representation
_IND4 = lambda text: ''.join('    ' + l for l in text.splitlines(True))


def _slash2(bind='normalize_path(url_path, route.is_branch)', test='norm_path != url_path', piece='url_quote(norm_path)',
            template="'{root}{path}?{query}'"):
    """the nested slash handling with the Location built by a keyword .format"""
    return ("            if route.is_branch:\n"
            "                norm_path = " + bind + "\n"
            "                if " + test + ":\n"
            "                    if route.slash_mode == S_REDIRECT:\n" + _IND4(_QUERY) +
            "                        return redirect(" + template + ".format(root=request.url_root.rstrip('/'), path=" + piece + ", query=query))\n"
            "                    elif route.slash_mode == S_STRICT:\n" + _IND4(_STRICT))


_DISPATCH_DEF = "    def dispatch(self, request):\n        ret = None\n"
_HELPER = ("    def _slash_redirect(self, request, quoted_path):\n"
           "        query = request.query_string\n"
           "        try:\n"
           "            query = query.decode('utf8')\n"
           "        except UnicodeDecodeError:\n"
           "            query = url_quote(query, safe=_QUERY_SAFE)\n"
           "        location = '{root}{path}?{query}'.format(root=request.url_root.rstrip('/'), path=quoted_path, query=query)\n"
           "        return redirect(location)\n\n")


def _slash_helper(bind, arg):
    return ("            if route.is_branch:\n"
            "                norm_path = " + bind + "\n"
            "                is_canonical = (norm_path == url_path)\n"
            "                if not is_canonical and route.slash_mode == S_REDIRECT:\n"
            "                    return self._slash_redirect(request, " + arg + ")\n"
            "                if not is_canonical and route.slash_mode == S_STRICT:\n" + _STRICT)


T('pB2_twin_location_keyword_format', ['C06', 'C07', 'C08'], (A, _SLASH, _slash2()))
T('pB2_twin_location_template_constant', ['C07'], (A, _SLASH, _slash2(template='_LOCATION_TEMPLATE')),
  (A, "def default_render_error(request, _error, **kwargs):\n", "_LOCATION_TEMPLATE = '{root}{path}?{query}'\n\n\ndef default_render_error(request, _error, **kwargs):\n"))
T('pB2_twin_redirect_helper_quoted_at_call', ['C06', 'C07', 'C08'],
  (A, _DISPATCH_DEF, _HELPER + _DISPATCH_DEF), (A, _SLASH, _slash_helper('normalize_path(url_path, is_branch=True)', 'url_quote(norm_path)')))
T('pB2_twin_both_operands_quoted', ['C07'],
  (A, _SLASH, _slash2(bind='url_quote(normalize_path(url_path, route.is_branch))', test='norm_path != url_quote(url_path)', piece='norm_path')))
B('pB2_quote_hoisted_before_canonical_test', ['C07'], 'R07.a',
  (A, _DISPATCH_DEF, _HELPER + _DISPATCH_DEF), (A, _SLASH, _slash_helper('url_quote(normalize_path(url_path, is_branch=True))', 'norm_path')))
B('pB2_canonical_quoted_at_the_test', ['C07'], 'R07.a', (A, _SLASH, _slash2(test='url_quote(norm_path) != url_path')))
B('pB2_only_request_path_quoted', ['C07'], 'R07.a', (A, _SLASH, _slash2(test='norm_path != url_quote(url_path)')))
B('pB2_request_path_stripped_at_the_test', ['C07'], 'R07.a', (A, _SLASH, _slash2(test="norm_path != url_path.rstrip('/')")))
B('pB2_canonical_path_lowercased', ['C07'], 'R07.a', (A, _SLASH, _slash2(bind='normalize_path(url_path, route.is_branch).lower()')))
B('pB2_quoted_with_different_safe_sets', ['C07'], 'R07.a',
  (A, _SLASH, _slash2(bind="url_quote(normalize_path(url_path, route.is_branch), safe='/')", test='norm_path != url_quote(url_path)', piece='norm_path')))
B('pB2_keyword_format_path_unquoted', ['C07'], 'R07.b', (A, _SLASH, _slash2(piece='norm_path')))
B('pB2_keyword_format_query_before_path', ['C07'], 'R07.b', (A, _SLASH, _slash2(template="'{root}{query}?{path}'")))

# ---------------------------------------------------------------------------------------------- second pass: total JSON encoding (R08.e)
# the fallback renderer shares the to_* serialisers with the primary one: the JSON encoder they use must not raise on unknown values
_TJ = ("        encoder = ClasticJSONEncoder(dev_mode=True, indent=indent,\n"
       "                                     sort_keys=sort_keys, ensure_ascii=False,\n"
       "                                     skipkeys=skipkeys)\n"
       "        return encoder.encode(self.to_dict())\n")
_MIME = "DEFAULT_MIME = 'text/plain'\n"
_IMPORTS = "import sys\nimport datetime\n"
_SHARED = ("        if (indent, sort_keys, skipkeys) == (2, True, True):\n"
           "            encoder = _JSON_ENCODER\n"
           "        else:\n"
           "            encoder = ClasticJSONEncoder(dev_mode=True, indent=indent, sort_keys=sort_keys, ensure_ascii=False, skipkeys=skipkeys)\n"
           "        return encoder.encode(self.to_dict())\n")
_DFLT_HOOK = ("        if self.dev_mode:\n"
              "            return repr(obj)\n"
              "        raise TypeError('cannot serialize to JSON: %r' % obj)\n")
T('pB2_twin_json_shared_encoder', ['C08'], (E, _TJ, _SHARED),
  (E, _MIME, _MIME + "_JSON_ENCODER = ClasticJSONEncoder(dev_mode=True, indent=2, sort_keys=True, ensure_ascii=False, skipkeys=True)\n"))
T('pB2_twin_json_shared_encoder_options_mapping', ['C08'], (E, _TJ, _SHARED),
  (E, _MIME, _MIME + "_JSON_OPTIONS = {'dev_mode': True, 'indent': 2, 'sort_keys': True, 'skipkeys': True}\n"
                     "_JSON_ENCODER = ClasticJSONEncoder(ensure_ascii=False, **_JSON_OPTIONS)\n"))
T('pB2_twin_json_local_options_mapping', ['C08'],
  (E, _TJ, "        opts = dict(dev_mode=True, indent=indent, sort_keys=sort_keys, skipkeys=skipkeys)\n        opts['ensure_ascii'] = False\n"
           "        encoder = ClasticJSONEncoder(**opts)\n        return encoder.encode(self.to_dict())\n"))
T('pB2_twin_json_inline_construction', ['C08'],
  (E, _TJ, "        return ClasticJSONEncoder(dev_mode=True, indent=indent, sort_keys=sort_keys, ensure_ascii=False,\n"
           "                                  skipkeys=skipkeys).encode(self.to_dict())\n"))
T('pB2_twin_json_encoder_class_attribute', ['C08'],
  (E, "    def to_json(self, indent=2, sort_keys=True, skipkeys=True):\n" + _TJ,
      "    _json_encoder = ClasticJSONEncoder(dev_mode=True, indent=2, sort_keys=True, ensure_ascii=False, skipkeys=True)\n\n"
      "    def to_json(self):\n        return self._json_encoder.encode(self.to_dict())\n"))
T('pB2_twin_json_stock_encoder_repr_hook', ['C08'], (E, _IMPORTS, _IMPORTS + "import json\n"),
  (E, _TJ, "        return json.dumps(self.to_dict(), default=repr, indent=indent, sort_keys=sort_keys, ensure_ascii=False, skipkeys=skipkeys)\n"))
T('pB2_twin_encoder_hook_guard_inverted', ['C08'],
  (RS, _DFLT_HOOK, "        if not self.dev_mode:\n            raise TypeError('cannot serialize to JSON: %r' % obj)\n        return repr(obj)\n"))
T('pB2_twin_encoder_flag_is_a_parameter', ['C08'],
  (RS, "    def __init__(self, **kw):\n        self.dev_mode = kw.pop('dev_mode', False)\n",
       "    def __init__(self, dev_mode=False, **kw):\n        self.dev_mode = dev_mode\n"))
B('pB2_json_shared_encoder_without_text_fallback', ['C08'], 'R08.e', (E, _TJ, _SHARED),
  (E, _MIME, _MIME + "_JSON_DEFAULTS = {'indent': 2, 'sort_keys': True, 'skipkeys': True}\n"
                     "_JSON_ENCODER = ClasticJSONEncoder(ensure_ascii=False, **_JSON_DEFAULTS)\n"))
B('pB2_json_text_fallback_switched_off', ['C08'], 'R08.e', (E, _TJ, _TJ.replace('dev_mode=True', 'dev_mode=False')))
B('pB2_json_local_options_without_flag', ['C08'], 'R08.e',
  (E, _TJ, "        opts = dict(indent=indent, sort_keys=sort_keys, skipkeys=skipkeys)\n        opts['ensure_ascii'] = False\n"
           "        encoder = ClasticJSONEncoder(**opts)\n        return encoder.encode(self.to_dict())\n"))
B('pB2_json_stock_encoder', ['C08'], 'R08.e', (E, _IMPORTS, _IMPORTS + "import json\n"),
  (E, _TJ, "        encoder = json.JSONEncoder(indent=indent, sort_keys=sort_keys, ensure_ascii=False, skipkeys=skipkeys)\n"
           "        return encoder.encode(self.to_dict())\n"))
B('pB2_json_dumps_without_hook', ['C08'], 'R08.e', (E, _IMPORTS, _IMPORTS + "import json\n"),
  (E, _TJ, "        return json.dumps(self.to_dict(), indent=indent, sort_keys=sort_keys, ensure_ascii=False, skipkeys=skipkeys)\n"))
B('pB2_json_dumps_clastic_encoder_without_flag', ['C08'], 'R08.e', (E, _IMPORTS, _IMPORTS + "import json\n"),
  (E, _TJ, "        return json.dumps(self.to_dict(), cls=ClasticJSONEncoder, indent=indent, sort_keys=sort_keys, ensure_ascii=False)\n"))
B('pB2_json_encoder_class_attribute_without_flag', ['C08'], 'R08.e',
  (E, "    def to_json(self, indent=2, sort_keys=True, skipkeys=True):\n" + _TJ,
      "    _json_encoder = ClasticJSONEncoder(indent=2, sort_keys=True, ensure_ascii=False, skipkeys=True)\n\n"
      "    def to_json(self):\n        return self._json_encoder.encode(self.to_dict())\n"))
B('pB2_encoder_text_fallback_only_for_some_values', ['C08'], 'R08.e',
  (RS, _DFLT_HOOK, "        if self.dev_mode and isinstance(obj, Exception):\n            return repr(obj)\n"
                   "        raise TypeError('cannot serialize to JSON: %r' % obj)\n"))
B('pB2_encoder_flag_read_under_another_key', ['C08'], 'R08.e',
  (RS, "        self.dev_mode = kw.pop('dev_mode', False)\n", "        self.dev_mode = kw.pop('debug', False)\n"))
B('pB2_encoder_hook_delegates_to_stock', ['C08'], 'R08.e',
  (RS, _DFLT_HOOK, "        if self.dev_mode and not isinstance(obj, type):\n            return repr(obj)\n"
                   "        return super(ClasticJSONEncoder, self).default(obj)\n"))

# ---------------------------------------------------------------------------------------------- second pass: the slash decision as a tagged outcome
# (an extracted helper returning ``(outcome, payload)`` pairs, as the loader inlines it: tag and payload are locals set side by side,
# consumed by ``if outcome == TAG`` further down)
_TAGS_ANCHOR = "def cast_to_route_factory(in_arg):\n"
_TAGS = "_SLASHES_OK = 'ok'\n_SLASHES_REDIRECT = 'redirect'\n_SLASHES_NOT_FOUND = 'not_found'\n\n\n" + _TAGS_ANCHOR
_CONSUME = ("            if slash_outcome == _SLASHES_REDIRECT:\n"
            "                return slash_result\n"
            "            if slash_outcome == _SLASHES_NOT_FOUND:\n"
            "                dispatch_state.add_exception(slash_result)\n"
            "                continue\n")


def _tagged(consume=_CONSUME, redirect_tag='_SLASHES_REDIRECT', strict_tag='_SLASHES_NOT_FOUND', canonical_tag='_SLASHES_OK'):
    return ("            slash_outcome, slash_result = _SLASHES_OK, None\n"
            "            if route.is_branch:\n"
            "                norm_path = normalize_path(url_path, route.is_branch)\n"
            "                if norm_path != url_path:\n"
            "                    if route.slash_mode == S_REDIRECT:\n" + _IND4(_QUERY) +
            "                        slash_outcome = " + redirect_tag + "\n"
            "                        slash_result = redirect(request.url_root.rstrip('/') + url_quote(norm_path) + '?' + query)\n"
            "                    elif route.slash_mode == S_STRICT:\n"
            "                        slash_outcome = " + strict_tag + "\n"
            "                        slash_result = err_handler.not_found_type(request=request, application=self, source_route=route)\n"
            "                else:\n"
            "                    slash_outcome = " + canonical_tag + "\n" + consume)


T('pB2_twin_slash_outcome_tags', ['C06', 'C07', 'C08'], (A, _TAGS_ANCHOR, _TAGS), (A, _SLASH, _tagged()))
B('pB2_tagged_redirect_never_returned', ['C07'], 'R07.a', (A, _TAGS_ANCHOR, _TAGS),
  (A, _SLASH, _tagged(consume="            if slash_outcome == _SLASHES_NOT_FOUND:\n                dispatch_state.add_exception(slash_result)\n                continue\n")))
B('pB2_tagged_strict_outcome_ignored', ['C07'], 'R07.a', (A, _TAGS_ANCHOR, _TAGS),
  (A, _SLASH, _tagged(consume="            if slash_outcome == _SLASHES_REDIRECT:\n                return slash_result\n")))
B('pB2_tagged_consumers_swapped', ['C07', 'C08'], {'C07': 'R07.a', 'C08': 'R08.a'}, (A, _TAGS_ANCHOR, _TAGS),
  (A, _SLASH, _tagged(consume=_CONSUME.replace('_SLASHES_REDIRECT', '_X_').replace('_SLASHES_NOT_FOUND', '_SLASHES_REDIRECT').replace('_X_', '_SLASHES_NOT_FOUND'))))
B('pB2_tagged_strict_marked_ok', ['C07'], 'R07.a', (A, _TAGS_ANCHOR, _TAGS), (A, _SLASH, _tagged(strict_tag='_SLASHES_OK')))
B('pB2_tagged_redirect_marked_not_found', ['C07'], 'R07.a', (A, _TAGS_ANCHOR, _TAGS), (A, _SLASH, _tagged(redirect_tag='_SLASHES_NOT_FOUND')))
B('pB2_tagged_tags_collide', ['C07'], 'R07.a',
  (A, _TAGS_ANCHOR, _TAGS.replace("_SLASHES_NOT_FOUND = 'not_found'", "_SLASHES_NOT_FOUND = 'redirect'")), (A, _SLASH, _tagged()))
B('pB2_tagged_redirect_returned_late', ['C07'], 'R07.a', (A, _TAGS_ANCHOR, _TAGS),
  (A, _SLASH, _tagged(consume="            if slash_outcome == _SLASHES_NOT_FOUND:\n                dispatch_state.add_exception(slash_result)\n                continue\n"
                              "            if slash_outcome == _SLASHES_REDIRECT and route.methods:\n                return slash_result\n")))

# ---------------------------------------------------------------------------------------------- second pass: "the correction, or None"
# (a helper returning the canonical path when it differs from the request path, else None -- as the loader inlines it)
def _correction(first="            norm_path = None\n", clear="                if norm_path == url_path:\n                    norm_path = None\n"):
    return (first +
            "            if route.is_branch:\n"
            "                norm_path = normalize_path(url_path, route.is_branch)\n" + clear +
            "            if norm_path is None:\n"
            "                pass\n"
            "            elif route.slash_mode == S_REDIRECT:\n" + _QUERY.replace('                    ', '                ') +
            "                return redirect(''.join([request.url_root.rstrip('/'), url_quote(norm_path), '?', query]))\n"
            "            elif route.slash_mode == S_STRICT:\n" + _STRICT.replace('                    ', '                '))


T('pB2_twin_correction_or_none', ['C06', 'C07', 'C08'], (A, _SLASH, _correction()))
B('pB2_correction_never_cleared', ['C07'], 'R07.a', (A, _SLASH, _correction(clear='')))
B('pB2_correction_cleared_when_it_differs', ['C07'], 'R07.a',
  (A, _SLASH, _correction(clear="                if norm_path != url_path:\n                    norm_path = None\n")))
B('pB2_correction_defaults_to_request_path', ['C07'], 'R07.a', (A, _SLASH, _correction(first="            norm_path = url_path\n")))
# the dispatch state under a second name in the sentinel handler
_HS_ALIAS = ("        state = _dispatch_state\n" + _HS_EXC.replace('_dispatch_state', 'state') + _HS_405.replace('_dispatch_state', 'state') +
             _HS_404)
T('pB2_twin_sentinel_state_alias', ['C06'], (R, _HS, _HS_ALIAS))
B('pB2_sentinel_state_alias_first_error', ['C06'], 'R06.c', (R, _HS, _HS_ALIAS.replace('parked[-1]', 'parked[0]')))
B('pB2_sentinel_state_alias_405_first', ['C06'], 'R06.c',
  (R, _HS, "        state = _dispatch_state\n" + _HS_405.replace('_dispatch_state', 'state') + _HS_EXC.replace('_dispatch_state', 'state') + _HS_404))

# ============================================================================================== fourth pass
# ---------------------------------------------------------------------------------------------- DispatchState starts empty, per instance (R06.c)
_DS_CLS = "class DispatchState(object):\n"
_DS_INIT = "    def __init__(self):\n        self.exceptions = []\n        self.allowed_methods = set()\n        self.attempted_routes = []\n"
_DS_DECO = "@attr.s(eq=False, repr=False)\n" + _DS_CLS


def _ds_fields(exc='attr.ib(factory=list)', am='attr.ib(factory=set)'):
    return "    exceptions = %s\n    allowed_methods = %s\n    attempted_routes = attr.ib(factory=list)\n" % (exc, am)


T('pB4_twin_state_declared_factories', ['C06', 'C07', 'C08'], (A, _DS_CLS, _DS_DECO), (A, _DS_INIT, _ds_fields()))
T('pB4_twin_state_declared_factory_objects', ['C06', 'C07', 'C08'], (A, _DS_CLS, _DS_DECO),
  (A, _DS_INIT, _ds_fields('attr.ib(default=attr.Factory(list))', 'attr.ib(default=attr.Factory(set))')))
T('pB4_twin_state_list_call', ['C06', 'C08'], (A, "        self.exceptions = []\n", "        self.exceptions = list()\n"))
B('pB4_state_declared_shared_list', ['C06'], 'R06.c', (A, _DS_CLS, _DS_DECO), (A, _DS_INIT, _ds_fields(exc='attr.ib(default=[])')))
B('pB4_state_declared_shared_set', ['C06'], 'R06.c', (A, _DS_CLS, _DS_DECO), (A, _DS_INIT, _ds_fields(am='attr.ib(default=set())')))
B('pB4_state_class_level_list', ['C06'], 'R06.c',
  (A, _DS_INIT, "    exceptions = []\n\n    def __init__(self):\n        self.allowed_methods = set()\n        self.attempted_routes = []\n"))
B('pB4_state_parameter_default', ['C06'], 'R06.c',
  (A, _DS_INIT, "    def __init__(self, exceptions=[]):\n        self.exceptions = exceptions\n        self.allowed_methods = set()\n        self.attempted_routes = []\n"))

# ---------------------------------------------------------------------------------------------- the sentinel decision (R06.c, R08.i)
_HS_HEAD = "        err_handler = _application.error_handler\n"
_DS_REPR = "    def __repr__(self):\n        args = (self.__class__.__name__, self.exceptions, self.allowed_methods)\n"
_ST_EXC = "        if self.exceptions:\n            return self.exceptions[-1]\n"
_ST_405 = ("        if self.allowed_methods:\n            mna_type = err_handler.method_not_allowed_type\n"
           "            return mna_type(allowed_methods=self.allowed_methods)\n")
_ST_404 = "        nf_type = err_handler.not_found_type\n        return nf_type(dispatch_state=self, request=request, application=application)\n\n"


def _state_decides(*steps):
    return "    def final_error(self, request, application):\n        err_handler = application.error_handler\n" + ''.join(steps)


_DELEGATE = (R, _HS_HEAD + _HS, "        return _dispatch_state.final_error(request, _application)\n")
T('pB4_twin_sentinel_decided_by_state', ['C06', 'C08'], _DELEGATE, (A, _DS_REPR, _state_decides(_ST_EXC, _ST_405, _ST_404) + _DS_REPR))
B('pB4_state_decides_405_first', ['C06', 'C08'], {'C06': 'R06.c', 'C08': 'R08.i'}, _DELEGATE,
  (A, _DS_REPR, _state_decides(_ST_405, _ST_EXC, _ST_404) + _DS_REPR))
B('pB4_state_decides_first_error', ['C06'], 'R06.c', _DELEGATE,
  (A, _DS_REPR, _state_decides(_ST_EXC.replace('[-1]', '[0]'), _ST_405, _ST_404) + _DS_REPR))
B('pB4_sentinel_405_before_errors', ['C08'], 'R08.i', (R, _HS, _HS_405 + _HS_EXC + _HS_404))
B('pB4_sentinel_errors_only_without_methods', ['C06', 'C08'], {'C06': 'R06.c', 'C08': 'R08.i'},
  (R, _HS, "        parked = _dispatch_state.exceptions\n        if parked and not _dispatch_state.allowed_methods:\n            return parked[-1]\n" + _HS_405 + _HS_404))
B('pB4_sentinel_404_before_errors', ['C06', 'C08'], {'C06': 'R06.c', 'C08': 'R08.i'},
  (R, _HS, "        if not _dispatch_state.allowed_methods:\n            nf_type = err_handler.not_found_type\n"
           "            return nf_type(dispatch_state=_dispatch_state, request=request, application=_application)\n" + _HS_EXC +
           "        mna_type = err_handler.method_not_allowed_type\n        return mna_type(allowed_methods=_dispatch_state.allowed_methods)\n"))
_NULL_INIT = "        super(NullRoute, self).__init__('/<_ignored*>',\n"
_NULL_CLS = "class NullRoute(Route):\n"
T('pB4_twin_null_pattern_constant', ['C06', 'C07'], (R, _NULL_INIT, "        super(NullRoute, self).__init__(_NULL_PATTERN,\n"),
  (R, _NULL_CLS, "_NULL_PATTERN = '/<_ignored*>'\n\n\n" + _NULL_CLS))
B('pB4_null_pattern_constant_one_segment', ['C06'], 'R06.c', (R, _NULL_INIT, "        super(NullRoute, self).__init__(_NULL_PATTERN,\n"),
  (R, _NULL_CLS, "_NULL_PATTERN = '/<_ignored>'\n\n\n" + _NULL_CLS))

# ---------------------------------------------------------------------------------------------- implied methods as a table (R06.d)
_GETHEAD = "            if 'GET' in self.methods:\n                self.methods.add('HEAD')\n"
_HM = "HTTP_METHODS = set(['GET', 'HEAD', 'POST', 'PUT', 'DELETE',\n"
_IMPL_LOOP = "            for listed, implied in _IMPLIED_METHODS:\n                if listed in self.methods:\n                    self.methods.add(implied)\n"
T('pB4_twin_implied_methods_table', ['C06', 'C07'], (R, _GETHEAD, _IMPL_LOOP), (R, _HM, "_IMPLIED_METHODS = (('GET', 'HEAD'),)\n" + _HM))
T('pB4_twin_implied_methods_mapping', ['C06'], (R, _GETHEAD, _IMPL_LOOP.replace('_IMPLIED_METHODS', '_IMPLIED_METHODS.items()')),
  (R, _HM, "_IMPLIED_METHODS = {'GET': 'HEAD'}\n" + _HM))
B('pB4_implied_table_pair_swapped', ['C06'], 'R06.d', (R, _GETHEAD, _IMPL_LOOP), (R, _HM, "_IMPLIED_METHODS = (('HEAD', 'GET'),)\n" + _HM))
B('pB4_implied_table_extra_row', ['C06'], 'R06.d', (R, _GETHEAD, _IMPL_LOOP),
  (R, _HM, "_IMPLIED_METHODS = (('GET', 'HEAD'), ('POST', 'PUT'))\n" + _HM))
B('pB4_implied_table_unconditional', ['C06'], 'R06.d',
  (R, _GETHEAD, "            for listed, implied in _IMPLIED_METHODS:\n                self.methods.add(implied)\n"),
  (R, _HM, "_IMPLIED_METHODS = (('GET', 'HEAD'),)\n" + _HM))
B('pB4_implied_table_read_backwards', ['C06'], 'R06.d',
  (R, _GETHEAD, "            for listed, implied in _IMPLIED_METHODS:\n                if implied in self.methods:\n                    self.methods.add(listed)\n"),
  (R, _HM, "_IMPLIED_METHODS = (('GET', 'HEAD'),)\n" + _HM))

# ---------------------------------------------------------------------------------------------- the end of the loop body as a flag (R06.b)
_TAIL_FULL = ("            if not isinstance(ret, HTTPException):\n                # TODO: verify behavior\n                break\n"
              "            if not getattr(ret, 'source_route', None):\n                ret.source_route = route\n" + _TAIL)


def _flagged(nonhttp='True', breaking='True', record="                    dispatch_state.add_exception(ret)\n", test='if done:'):
    return ("            if not isinstance(ret, HTTPException):\n                done = " + nonhttp + "\n            else:\n"
            "                if not getattr(ret, 'source_route', None):\n                    ret.source_route = route\n"
            "                if getattr(ret, 'is_breaking', True):\n                    done = " + breaking + "\n                else:\n" + record +
            "                    done = False\n            " + test + "\n                break\n")


T('pB4_twin_loop_exit_flag', ['C06', 'C07', 'C08'], (A, _TAIL_FULL, _flagged()))
B('pB4_flag_error_not_recorded', ['C06'], 'R06.b', (A, _TAIL_FULL, _flagged(record='')))
B('pB4_flag_non_http_result_falls_through', ['C06'], 'R06.b', (A, _TAIL_FULL, _flagged(nonhttp='False')))
B('pB4_flag_breaking_error_falls_through', ['C06'], 'R06.b', (A, _TAIL_FULL, _flagged(breaking='False')))
B('pB4_flag_test_inverted', ['C06'], 'R06.b', (A, _TAIL_FULL, _flagged(test='if not done:')))

# ---------------------------------------------------------------------------------------------- normalize_path through itertools.chain (R07.d)
_IMP = "from boltons.iterutils import first\n"


def _np_chain(lead="('',), ", trailer="('',) if is_branch else ()", chain='chain'):
    return ("    segments = [x for x in path.split('/') if x]\n    if not segments:\n        return '/'\n    trailer = " + trailer + "\n"
            "    return '/'.join(" + chain + "(" + lead + "segments, trailer))\n")


T('pB4_twin_normalize_chain', ['C07'], (R, _IMP, "from itertools import chain\n" + _IMP), (R, _NP, _np_chain()))
T('pB4_twin_normalize_itertools_chain', ['C07'], (R, _IMP, "import itertools\n" + _IMP), (R, _NP, _np_chain(chain='itertools.chain')))
B('pB4_normalize_chain_always_trailing', ['C07'], 'R07.d', (R, _IMP, "from itertools import chain\n" + _IMP), (R, _NP, _np_chain(trailer="('',)")))
B('pB4_normalize_chain_no_leading', ['C07'], 'R07.d', (R, _IMP, "from itertools import chain\n" + _IMP), (R, _NP, _np_chain(lead='')))
B('pB4_normalize_chain_trailing_inverted', ['C07'], 'R07.d', (R, _IMP, "from itertools import chain\n" + _IMP),
  (R, _NP, _np_chain(trailer="() if is_branch else ('',)")))
B('pB4_normalize_chain_two_leading', ['C07'], 'R07.d', (R, _IMP, "from itertools import chain\n" + _IMP), (R, _NP, _np_chain(lead="('', ''), ")))

# ---------------------------------------------------------------------------------------------- slash handling looked up in a table of handlers
_CAST = "def cast_to_route_factory(in_arg):\n"


def _handlers(rows="((S_REDIRECT, _slash_redirect), (S_STRICT, _slash_not_found))", hand_out="return redirect(''.join(parts))"):
    return ("def _slash_redirect(app, route, request, norm_path, err_handler, dispatch_state):\n"
            "    query = request.query_string\n    try:\n        query = query.decode('utf8')\n    except UnicodeDecodeError:\n"
            "        query = url_quote(query, safe=_QUERY_SAFE)\n"
            "    parts = [request.url_root.rstrip('/'), url_quote(norm_path), '?', query]\n    " + hand_out + "\n\n\n"
            "def _slash_not_found(app, route, request, norm_path, err_handler, dispatch_state):\n"
            "    nf_exc = err_handler.not_found_type(request=request, application=app, source_route=route)\n"
            "    dispatch_state.add_exception(nf_exc)\n    return None\n\n\n"
            "_SLASH_HANDLERS = " + rows + "\n\n\n"
            "def _get_slash_handler(slash_mode):\n"
            "    return next((handler for mode, handler in _SLASH_HANDLERS if slash_mode == mode), None)\n\n\n" + _CAST)


def _by_table(after="                        continue\n"):
    return ("            if route.is_branch:\n                norm_path = normalize_path(url_path, route.is_branch)\n"
            "                if norm_path != url_path:\n                    handle_slashes = _get_slash_handler(route.slash_mode)\n"
            "                    if handle_slashes is not None:\n"
            "                        slash_resp = handle_slashes(self, route, request, norm_path, err_handler, dispatch_state)\n"
            "                        if slash_resp is not None:\n                            return slash_resp\n" + after)


T('pB4_twin_slash_handler_table', ['C06', 'C07', 'C08'], (A, _CAST, _handlers()), (A, _SLASH, _by_table()))
B('pB4_slash_table_handlers_swapped', ['C07'], 'R07.a',
  (A, _CAST, _handlers(rows="((S_REDIRECT, _slash_not_found), (S_STRICT, _slash_redirect))")), (A, _SLASH, _by_table()))
B('pB4_slash_table_redirect_for_both_modes', ['C07'], 'R07.a',
  (A, _CAST, _handlers(rows="((S_REDIRECT, _slash_redirect), (S_STRICT, _slash_redirect))")), (A, _SLASH, _by_table()))
B('pB4_slash_table_redirect_not_handed_back', ['C07'], 'R07.a', (A, _CAST, _handlers(hand_out="redirect(''.join(parts))")), (A, _SLASH, _by_table()))
B('pB4_slash_table_strict_goes_on_to_execute', ['C07'], 'R07.a', (A, _CAST, _handlers()), (A, _SLASH, _by_table(after='')))

# ---------------------------------------------------------------------------------------------- the candidates from a generator method
_LOOP_HEAD = (_LOOP + "            path_params = route.match_path(url_path)\n            if path_params is None:\n                continue\n"
              "            request.path_params = path_params\n            params = dict(base_params, **path_params)\n")


def _gen(iterable='self.routes + [self._null_route]', guard="            if path_params is None:\n                continue\n",
         params='dict(base_params, **path_params)'):
    return ("    def _iter_path_matches(self, request, url_path, base_params):\n        for route in " + iterable + ":\n"
            "            path_params = route.match_path(url_path)\n" + guard +
            "            request.path_params = path_params\n            yield route, " + params + "\n\n" + _DISPATCH_DEF)


_GEN_LOOP = (A, _LOOP_HEAD, "        for route, params in self._iter_path_matches(request, url_path, base_params):\n")
T('pB4_twin_candidates_generator', ['C06', 'C07', 'C08'], (A, _DISPATCH_DEF, _gen()), _GEN_LOOP)
B('pB4_generator_walks_routes_backwards', ['C06'], 'R06.a', (A, _DISPATCH_DEF, _gen(iterable='reversed(self.routes + [self._null_route])')), _GEN_LOOP)
B('pB4_generator_hands_out_unmatched_routes', ['C06'], 'R06.b',
  (A, _DISPATCH_DEF, _gen(guard='', params='dict(base_params, **(path_params or {}))')), _GEN_LOOP)

# ---------------------------------------------------------------------------------------------- bind options in a named-tuple record (R07.c)
_POPS = ("        prefix = kwargs.pop('prefix', '')\n        rebind_render = kwargs.pop('rebind_render', True)\n"
         "        inherit_slashes = kwargs.pop('inherit_slashes', True)\n        rebind_render_error = kwargs.pop('rebind_render_error', True)\n"
         "        if kwargs:\n            raise TypeError('unexpected keyword args: %r' % kwargs.keys())\n")
_BR_CLS = "class BoundRoute(object):\n"


def _options(inherit="kwargs.pop('inherit_slashes', True)", rebind="kwargs.pop('rebind_render', True)"):
    return ("class _BindOptions(namedtuple('_BindOptions', ['prefix', 'rebind_render', 'inherit_slashes', 'rebind_render_error'])):\n"
            "    __slots__ = ()\n\n    @classmethod\n    def from_kwargs(cls, kwargs):\n"
            "        opts = cls(prefix=kwargs.pop('prefix', ''), rebind_render=" + rebind + ",\n"
            "                   inherit_slashes=" + inherit + ",\n"
            "                   rebind_render_error=kwargs.pop('rebind_render_error', True))\n"
            "        if kwargs:\n            raise TypeError('unexpected keyword args: %r' % kwargs.keys())\n        return opts\n\n\n" + _BR_CLS)


_USE_OPTS = (R, _POPS, "        opts = _BindOptions.from_kwargs(kwargs)\n        prefix, rebind_render = opts.prefix, opts.rebind_render\n"
                       "        inherit_slashes = opts.inherit_slashes\n        rebind_render_error = opts.rebind_render_error\n")
_NT_IMP = (R, _IMP, "from collections import namedtuple\n" + _IMP)
T('pB4_twin_bind_options_record', ['C07'], _NT_IMP, (R, _BR_CLS, _options()), _USE_OPTS)
B('pB4_bind_options_record_default_off', ['C07'], 'R07.c', _NT_IMP, (R, _BR_CLS, _options(inherit="kwargs.pop('inherit_slashes', False)")), _USE_OPTS)
B('pB4_bind_options_record_misnamed_key', ['C07'], 'R07.c', _NT_IMP, (R, _BR_CLS, _options(inherit="kwargs.pop('inherit_slash', True)")), _USE_OPTS)
B('pB4_bind_options_record_fields_crossed', ['C07'], 'R07.c', _NT_IMP,
  (R, _BR_CLS, _options(inherit="kwargs.pop('rebind_render', True)", rebind="kwargs.pop('inherit_slashes', True)")), _USE_OPTS)

# ---------------------------------------------------------------------------------------------- a route's method set is fixed after set-up (R07.e)
_UM = "    def update_methods(self, methods):\n        if methods:\n            self.allowed_methods.update(methods)\n"
_UM_HEAD = "    def update_methods(self, methods):\n"
T('pB4_twin_update_methods_guard_clause', ['C06', 'C07', 'C08'], (A, _UM, _UM_HEAD + "        if not methods:\n            return\n        self.allowed_methods.update(methods)\n"))
T('pB4_twin_update_methods_union_of_copy', ['C07', 'C08'], (A, _UM, _UM_HEAD + "        if methods:\n            self.allowed_methods |= set(methods)\n"))
B('pB4_state_adopts_first_method_set', ['C07'], 'R07.e', (A, "        self.allowed_methods = set()\n", "        self.allowed_methods = frozenset()\n"),
  (A, _UM, _UM_HEAD + "        if not methods:\n            return\n        if self.allowed_methods:\n            self.allowed_methods |= methods\n"
                      "        else:\n            self.allowed_methods = methods\n"))
B('pB4_state_adopts_then_updates', ['C07'], 'R07.e',
  (A, _UM, _UM_HEAD + "        if not methods:\n            return\n        if not self.allowed_methods:\n            self.allowed_methods = methods\n"
                      "        else:\n            self.allowed_methods.update(methods)\n"))
B('pB4_update_methods_edits_what_it_is_handed', ['C07'], 'R07.e',
  (A, _UM, _UM_HEAD + "        if methods:\n            methods.discard('HEAD')\n            self.allowed_methods.update(methods)\n"))
B('pB4_dispatch_widens_the_route_methods', ['C07'], 'R07.e',
  (A, "                dispatch_state.update_methods(route.methods)\n",
      "                seen = route.methods\n                seen.add('OPTIONS')\n                dispatch_state.update_methods(seen)\n"))
B('pB4_match_method_renormalises_in_place', ['C07'], 'R07.e',
  (R, _MM, "        if method and self.methods:\n            self.methods = set(m.upper() for m in self.methods)\n"
           "            if method.upper() not in self.methods:\n                return False\n        return True\n"))

# ---------------------------------------------------------------------------------------------- what a re-raising handler lets out (R08.c)
_RR = "        if self.reraise_uncaught:\n            raise\n"
_RR_IF = "        if self.reraise_uncaught:\n"
_REPL = "    def uncaught_to_response(self, **kwargs):\n        raise\n"
_EH_CLS = "class ErrorHandler(object):\n"


def _reraiser(what='value.with_traceback(tb)'):
    return "def reraise_current(tp, value, tb=None):\n    raise " + what + "\n\n\n" + _EH_CLS


_VIA = (E, _RR, _RR_IF + "            reraise_current(*sys.exc_info())\n")
T('pB4_twin_reraise_the_instance', ['C08'], (E, _RR, _RR_IF + "            raise kwargs['_error']\n"))
T('pB4_twin_reraise_with_traceback', ['C08'], (E, _RR, _RR_IF + "            _, exc_value, exc_tb = sys.exc_info()\n            raise exc_value.with_traceback(exc_tb)\n"))
T('pB4_twin_reraise_helper_hands_on_the_value', ['C08'], (E, _EH_CLS, _reraiser()), _VIA)
B('pB4_reraise_helper_builds_a_new_exception', ['C08'], 'R08.c', (E, _EH_CLS, _reraiser('tp(value).with_traceback(tb)')), _VIA)
B('pB4_reraise_helper_raises_the_type', ['C08'], 'R08.c', (E, _EH_CLS, _reraiser('tp')), _VIA)
B('pB4_reraise_helper_given_the_parts_in_another_order', ['C08'], 'R08.c', (E, _EH_CLS, _reraiser()),
  (E, _RR, _RR_IF + "            tp, value, tb = sys.exc_info()\n            reraise_current(value, tp, tb)\n"))
B('pB4_reraise_wrapped_in_runtime_error', ['C08'], 'R08.c', (E, _RR, _RR_IF + "            raise RuntimeError('uncaught: %r' % (kwargs.get('_error'),))\n"))
B('pB4_reraise_type_rebuilt_from_text', ['C08'], 'R08.c',
  (E, _RR, _RR_IF + "            exc_type, exc_value, exc_tb = sys.exc_info()\n            raise exc_type(str(exc_value))\n"))
B('pB4_repl_handler_wraps_the_error', ['C08'], 'R08.c', (E, _REPL, "    def uncaught_to_response(self, **kwargs):\n        raise RuntimeError(repr(kwargs.get('_error')))\n"))
B('pB4_reraise_helper_called_unconditionally', ['C08'], 'R08.c', (E, _EH_CLS, _reraiser()), (E, _RR, "        reraise_current(*sys.exc_info())\n"))

# ---------------------------------------------------------------------------------------------- match_method asks about the request's own method (R06.d)
_MM_HEAD = "    def match_method(self, method):\n"
T('pB4_twin_match_method_upper_local', ['C06'],
  (R, _MM, "        if method and self.methods:\n            wanted = method.upper()\n            if wanted not in self.methods:\n                return False\n        return True\n"))
B('pB4_match_method_alias_replaces_request_method', ['C06'], 'R06.d',
  (R, _MM, "        if method:\n            method = _METHOD_ALIASES.get(method.upper(), method)\n" + _MM),
  (R, _HM, "_METHOD_ALIASES = {'HEAD': 'GET'}\n" + _HM))
B('pB4_match_method_head_asked_as_get', ['C06'], 'R06.d', (R, _MM, "        if method and method.upper() == 'HEAD':\n            method = 'GET'\n" + _MM))
B('pB4_match_method_truncated_request_method', ['C06'], 'R06.d', (R, _MM, "        method = (method or '').strip()[:4]\n" + _MM))

# ---------------------------------------------------------------------------------------------- the canonical form is taken of the request path (R07.a)
_PARTS = "                        parts = [request.url_root.rstrip('/'), url_quote(norm_path),\n                                 '?', query]\n"


def _again(src, quote='url_quote(location_path)'):
    return ("                        location_path = normalize_path(" + src + ", route.is_branch)\n"
            "                        parts = [request.url_root.rstrip('/'), " + quote + ",\n                                 '?', query]\n")


T('pB4_twin_canonical_path_computed_again', ['C06', 'C07', 'C08'], (A, _PARTS, _again('url_path')))
B('pB4_canonical_form_of_the_raw_target', ['C07'], 'R07.a', (A, _PARTS, _again("request.environ.get('RAW_URI', url_path).partition('?')[0]", 'location_path')))
B('pB4_canonical_form_of_the_quoted_path', ['C07'], 'R07.a', (A, _PARTS, _again('url_quote(url_path)', 'location_path')))
B('pB4_canonical_form_of_the_lowercased_path', ['C07'], 'R07.a', (A, _PARTS, _again('url_path.lower()')))

# ---------------------------------------------------------------------------------------------- optional fields of an error in the serialisers (R08.e)
_EXC_TD = "        ret['exc_info'] = glom(self, T.exc_info.to_dict(), skip_exc=Exception)\n"
T('pB4_twin_exc_info_guarded', ['C08'], (E, _EXC_TD, "        ret['exc_info'] = self.exc_info.to_dict() if self.exc_info is not None else None\n"))
T('pB4_twin_exc_info_guard_statement', ['C08'],
  (E, _EXC_TD, "        ret['exc_info'] = None\n        if self.exc_info:\n            ret['exc_info'] = self.exc_info.to_dict()\n"))
T('pB4_twin_exc_info_attempt', ['C08'],
  (E, _EXC_TD, "        try:\n            ret['exc_info'] = self.exc_info.to_dict()\n        except AttributeError:\n            ret['exc_info'] = None\n"))
B('pB4_exc_info_dereferenced_blindly', ['C08'], 'R08.e', (E, _EXC_TD, "        ret['exc_info'] = self.exc_info.to_dict()\n"))
B('pB4_exc_info_dereferenced_through_a_local', ['C08'], 'R08.e', (E, _EXC_TD, "        info = self.exc_info\n        ret['exc_info'] = info.to_dict()\n"))
B('pB4_exc_info_guard_on_another_field', ['C08'], 'R08.e',
  (E, _EXC_TD, "        ret['exc_info'] = self.exc_info.to_dict() if self.detail is not None else None\n"))
B('pB4_source_route_pattern_in_every_error', ['C08'], 'R08.e',
  (E, "               'error_type': self.error_type}\n        return ret\n", "               'error_type': self.error_type,\n               'route': self.source_route.pattern}\n        return ret\n"))

# ---------------------------------------------------------------------------------------------- the last-resort renderer is self-contained (R08.a)
_DRE = "    best_match = request.accept_mimetypes.best_match(MIME_SUPPORT_MAP)\n    _error.adapt(best_match)\n    return _error\n"
_DRE_APP = ("    _application = kwargs.get('_application')\n    if _application is not None and _application.error_handler is not None:\n")
T('pB4_twin_fallback_tries_the_handler_first', ['C08'],
  (A, _DRE, _DRE_APP + "        try:\n            return _application.error_handler.render_error(request=request, _error=_error)\n"
                       "        except Exception:\n            pass\n" + _DRE))
T('pB4_twin_fallback_named_mimetype', ['C08'],
  (A, _DRE, "    accepted = request.accept_mimetypes\n    mimetype = accepted.best_match(MIME_SUPPORT_MAP)\n    _error.adapt(mimetype)\n    return _error\n"))
B('pB4_fallback_runs_the_applications_handler', ['C08'], 'R08.a',
  (A, _DRE, _DRE_APP + "        return _application.error_handler.render_error(request=request, _error=_error)\n" + _DRE))
B('pB4_fallback_instantiates_the_configured_handler_type', ['C08'], 'R08.a',
  (A, _DRE, "    _application = kwargs.get('_application')\n    if _application is not None:\n        eh_type = _application.default_error_handler_type\n"
            "        if eh_type is not ErrorHandler:\n            return eh_type().render_error(request=request, _error=_error)\n" + _DRE))
B('pB4_fallback_asks_the_route_again', ['C08'], 'R08.a',
  (A, _DRE, "    if getattr(_error, 'source_route', None) is not None and kwargs.get('retry'):\n"
            "        return _error.source_route.execute_error(request=request, _error=_error, **kwargs)\n" + _DRE))
B('pB4_fallback_calls_a_hook_from_the_keywords', ['C08'], 'R08.a',
  (A, _DRE, "    hook = kwargs.get('_on_render_failure')\n    if hook is not None:\n        hook(request, _error)\n" + _DRE))

# ---------------------------------------------------------------------------------------------- converting an uncaught exception of any type (R06.f / R08.a)
_ISE = ("        if self.error_type is None:\n            try:\n                exc_type_name = self.exc_info.exc_type\n"
        "                exc_type = getattr(exceptions, exc_type_name)\n                self.error_type = STDLIB_EXC_URL + exc_type.__name__\n"
        "            except Exception:\n                pass\n")
_ISE_IF = "        if self.error_type is None and self.exc_info is not None:\n"
_RULES_F = {'C06': 'R06.f', 'C08': 'R08.a'}
T('pB4_twin_exc_type_lookup_with_default', ['C06', 'C08'],
  (E, _ISE, _ISE_IF + "            exc_type = getattr(exceptions, self.exc_info.exc_type, None)\n            if exc_type is not None:\n"
                      "                self.error_type = STDLIB_EXC_URL + exc_type.__name__\n"))
T('pB4_twin_exc_type_lookup_narrow_handler', ['C06', 'C08'], (E, _ISE, _ISE.replace('except Exception:', 'except AttributeError:')))
B('pB4_exc_type_lookup_without_a_net', ['C06', 'C08'], _RULES_F,
  (E, _ISE, _ISE_IF + "            exc_type = getattr(exceptions, self.exc_info.exc_type)\n            self.error_type = STDLIB_EXC_URL + exc_type.__name__\n"))
B('pB4_exc_type_lookup_in_the_module_dict', ['C06', 'C08'], _RULES_F,
  (E, _ISE, _ISE_IF + "            exc_type = vars(exceptions)[self.exc_info.exc_type]\n            self.error_type = STDLIB_EXC_URL + exc_type.__name__\n"))
B('pB4_exc_type_lookup_in_the_handler_method', ['C06', 'C08'], _RULES_F,
  (E, "        exc_info = eh.exc_info_type.from_current()\n        return eh.server_error_type(repr(exc_info),\n",
      "        exc_info = eh.exc_info_type.from_current()\n        known = getattr(exceptions, exc_info.exc_type)\n"
      "        return eh.server_error_type(known.__doc__ or repr(exc_info),\n"))

# ---------------------------------------------------------------------------------------------- round 5: flags, fused handlers, fall-through
# the slash nest flattened behind a flag with a False default: two sibling ``if`` blocks after the is_branch test
_Q16 = _QUERY.replace('                    ', '                ')
_S16 = _STRICT.replace('                    ', '                ')


def _flag(default='False', value='norm_path != url_path', redirect_guard='slash_fix_due and route.slash_mode == S_REDIRECT',
          strict_guard='slash_fix_due and route.slash_mode == S_STRICT', strict_body=_S16):
    return ("            slash_fix_due = " + default + "\n"
            "            if route.is_branch:\n"
            "                norm_path = normalize_path(url_path, route.is_branch)\n"
            "                slash_fix_due = " + value + "\n"
            "            if " + redirect_guard + ":\n" + _Q16 +
            "                parts = [request.url_root.rstrip('/'), url_quote(norm_path), '?', query]\n"
            "                return redirect(''.join(parts))\n"
            "            if " + strict_guard + ":\n" + strict_body)


T('pB5_twin_slash_flag_default_false', ['C06', 'C07', 'C08'], (A, _SLASH, _flag()))
T('pB5_twin_slash_flag_nested_guards', ['C06', 'C07', 'C08'],
  (A, _SLASH, _flag(redirect_guard='slash_fix_due', strict_guard='slash_fix_due and route.slash_mode == S_STRICT').replace(
      "            if slash_fix_due:\n" + _Q16, "            if slash_fix_due and not route.slash_mode != S_REDIRECT:\n" + _Q16)))
B('pB5_slash_flag_default_true', ['C07'], 'R07.a', (A, _SLASH, _flag(default='True')))
B('pB5_slash_flag_inverted', ['C07'], 'R07.a', (A, _SLASH, _flag(value='norm_path == url_path')))
B('pB5_slash_flag_compares_other_text', ['C07'], 'R07.a', (A, _SLASH, _flag(value="norm_path != url_path.rstrip('/')")))
B('pB5_slash_flag_strict_without_flag', ['C07'], 'R07.a', (A, _SLASH, _flag(strict_guard='route.slash_mode == S_STRICT')))
B('pB5_slash_flag_redirect_without_flag', ['C07'], 'R07.a', (A, _SLASH, _flag(redirect_guard='route.slash_mode == S_REDIRECT')))
B('pB5_slash_flag_strict_still_executes', ['C07'], 'R07.a',
  (A, _SLASH, _flag(strict_body="                dispatch_state.add_exception(err_handler.not_found_type(request=request, application=self, source_route=route))\n")))
B('pB5_slash_flag_set_again_for_leaves', ['C07'], 'R07.a',
  (A, _SLASH, _flag().replace("            if slash_fix_due and route.slash_mode == S_REDIRECT:\n",
                              "            else:\n                norm_path = url_path + '/'\n                slash_fix_due = route.slash_mode == S_REDIRECT\n"
                              "            if slash_fix_due and route.slash_mode == S_REDIRECT:\n")))

# one handler for everything that first lets a RerouteWSGI out again
_BOTH = ("            except RerouteWSGI:\n                raise\n            except Exception as exc:\n" + _HANDLER)


def _fused(test='isinstance(exc, RerouteWSGI)', again='raise', http='isinstance(exc, HTTPException)'):
    return ("            except Exception as exc:\n"
            "                if " + test + ":\n"
            "                    " + again + "\n"
            "                if " + http + ":\n"
            "                    ret = exc\n"
            "                else:\n"
            "                    uncaught_params = dict(params, _route=route, _error=exc)\n"
            "                    ret = err_handler.uncaught_to_response(**uncaught_params)\n")


T('pB5_twin_fused_handler_reraises_reroute', ['C06', 'C08'], (A, _BOTH, _fused()))
T('pB5_twin_fused_handler_raise_by_name', ['C06', 'C08'], (A, _BOTH, _fused(again='raise exc')))
T('pB5_twin_fused_handler_not_reroute_else', ['C06', 'C08'],
  (A, _BOTH, "            except Exception as exc:\n                if not isinstance(exc, RerouteWSGI):\n                    ret = exc\n"
             "                    if not isinstance(exc, HTTPException):\n                        uncaught_params = dict(params, _route=route, _error=exc)\n"
             "                        ret = err_handler.uncaught_to_response(**uncaught_params)\n                else:\n                    raise\n"))
B('pB5_fused_handler_reroute_only_in_debug', ['C08'], 'R08.a', (A, _BOTH, _fused(test='isinstance(exc, RerouteWSGI) and self.debug')))
B('pB5_fused_handler_tests_other_class', ['C08'], 'R08.a', (A, _BOTH, _fused(test='isinstance(exc, HTTPException)', http='isinstance(exc, RerouteWSGI)')))
B('pB5_fused_handler_raises_a_new_error', ['C08'], 'R08.a', (A, _BOTH, _fused(again='raise RuntimeError(exc)')))
B('pB5_fused_handler_reraises_more', ['C08'], 'R08.a', (A, _BOTH, _fused(test='isinstance(exc, (RerouteWSGI, ValueError))')))
B('pB5_fused_handler_reroute_becomes_result', ['C08'], 'R08.a', (A, _BOTH, _fused(again='ret = exc')))
B('pB5_fused_handler_rebinds_before_test', ['C08'], 'R08.a',
  (A, _BOTH, _fused().replace("            except Exception as exc:\n", "            except Exception as exc:\n                exc = getattr(exc, '__cause__', None) or exc\n")))

# normalize_path: the trailing '' as a list of its own; the empty path as the fall-through
def _np_trailer(trailer="[''] if is_branch else []", lead="['']"):
    return ("    segments = [x for x in path.split('/') if x]\n    if segments:\n        trailer = " + trailer + "\n"
            "        return '/'.join(" + lead + " + segments + trailer)\n    return '/'\n")


T('pB5_twin_normalize_trailer_list', ['C07'], (R, _NP, _np_trailer()))
T('pB5_twin_normalize_trailer_list_statement', ['C07'],
  (R, _NP, "    segments = [x for x in path.split('/') if x]\n    if segments:\n        trailer = []\n        if is_branch:\n            trailer = ['']\n"
           "        return '/'.join([''] + segments + trailer)\n    return '/'\n"))
B('pB5_normalize_trailer_inverted', ['C07'], 'R07.d', (R, _NP, _np_trailer(trailer="[] if is_branch else ['']")))
B('pB5_normalize_trailer_always', ['C07'], 'R07.d', (R, _NP, _np_trailer(trailer="[''] if is_branch else ['']")))
B('pB5_normalize_trailer_no_lead', ['C07'], 'R07.d', (R, _NP, _np_trailer(lead="[]")))
B('pB5_normalize_trailer_shared_and_extended', ['C07'], 'R07.d',
  (R, _NP, "    segments = [x for x in path.split('/') if x]\n    if segments:\n        trailer = []\n        extra = trailer\n        if is_branch:\n            extra += ['']\n"
           "            extra += ['']\n        return '/'.join([''] + segments + trailer)\n    return '/'\n"))
B('pB5_not_reroute_else_http_5xx_converted', ['C08'], 'R08.a',
  (A, _BOTH, "            except Exception as exc:\n                if not isinstance(exc, RerouteWSGI):\n                    ret = exc\n"
             "                    if not isinstance(exc, HTTPException) or exc.code >= 500:\n                        uncaught_params = dict(params, _route=route, _error=exc)\n"
             "                        ret = err_handler.uncaught_to_response(**uncaught_params)\n                else:\n                    raise\n"))
B('pB5_not_reroute_else_result_bound_late', ['C08'], 'R08.a',
  (A, _BOTH, "            except Exception as exc:\n                if not isinstance(exc, RerouteWSGI):\n"
             "                    if not isinstance(exc, HTTPException):\n                        uncaught_params = dict(params, _route=route, _error=exc)\n"
             "                        ret = err_handler.uncaught_to_response(**uncaught_params)\n                    elif exc.code < 500:\n                        ret = exc\n"
             "                else:\n                    raise\n"))

# ---------------------------------------------------------------------------------------------- round f
# R06.g: a conversion failure is "no match" (match_path is called outside dispatch's handler)
_MP = ("        try:\n            for conv_name, conv in self.converters.items():\n                ret[conv_name] = conv(groups[conv_name])\n"
       "        except (KeyError, TypeError, ValueError):\n            return None\n        return ret\n")
T('pBf_twin_match_path_two_handlers', ['C06', 'C08'],
  (R, _MP, "        try:\n            for conv_name, conv in self.converters.items():\n                ret[conv_name] = conv(groups[conv_name])\n"
           "        except KeyError:\n            return None\n        except (TypeError, ValueError):\n            return None\n        return ret\n"))
T('pBf_twin_match_path_lookup_first', ['C06', 'C08'],
  (R, _MP, "        try:\n            texts = [(conv_name, conv, groups[conv_name]) for conv_name, conv in self.converters.items()]\n"
           "            for conv_name, conv, text in texts:\n                ret[conv_name] = conv(text)\n"
           "        except (KeyError, TypeError, ValueError):\n            return None\n        return ret\n"))
B('pBf_match_path_conversion_after_the_try', ['C06'], 'R06.g',
  (R, _MP, "        try:\n            texts = [(conv_name, conv, groups[conv_name]) for conv_name, conv in self.converters.items()]\n"
           "        except KeyError:\n            return None\n        for conv_name, conv, text in texts:\n            ret[conv_name] = conv(text)\n        return ret\n"))
B('pBf_match_path_typeerror_escapes', ['C06'], 'R06.g', (R, _MP, _MP.replace('(KeyError, TypeError, ValueError)', '(KeyError, ValueError)')))
B('pBf_match_path_failure_is_an_empty_match', ['C06'], 'R06.g', (R, _MP, _MP.replace('            return None\n        return ret', '            return {}\n        return ret')))
B('pBf_match_path_handler_reraises_some', ['C06'], 'R06.g',
  (R, _MP, _MP.replace("            return None\n        return ret", "            if self.unbound_route.methods:\n                raise\n            return None\n        return ret")))

# R06.h: the class the generated request core hands back unrendered vs. the class dispatch accepts / HTTPException derives from
_IMP_BR = "from werkzeug.wrappers import BaseResponse\n"
_ENV = "    env = {'endpoint': endpoint, 'render': render, 'BaseResponse': BaseResponse}\n"
_TEST = "    if isinstance(context, BaseResponse):\n"
_SIG = "def _create_request_inner(endpoint, render, all_args,\n                          endpoint_args, render_args):\n"
T('pBf_twin_core_result_class_parameter', ['C06'],
  (C, _SIG, "def _create_request_inner(endpoint, render, all_args,\n                          endpoint_args, render_args, result_base=BaseResponse):\n"),
  (C, _ENV, "    env = {'endpoint': endpoint, 'render': render, 'BaseResponse': result_base}\n"))
T('pBf_twin_core_result_class_renamed_global', ['C06'],
  (C, _TEST, "    if isinstance(context, _finished):\n"), (C, _ENV, "    env = {'endpoint': endpoint, 'render': render, '_finished': BaseResponse}\n"))
T('pBf_twin_core_result_class_tuple', ['C06'], (C, _TEST, "    if isinstance(context, (BaseResponse,)):\n"))
B('pBf_core_result_class_is_the_mixin_class', ['C06'], 'R06.h',
  (C, _IMP_BR, "from werkzeug.wrappers import BaseResponse, Response\n"), (C, _ENV, "    env = {'endpoint': endpoint, 'render': render, 'BaseResponse': Response}\n"))
B('pBf_core_result_class_parameter_default', ['C06'], 'R06.h',
  (C, _IMP_BR, "from werkzeug.wrappers import BaseResponse, Response\n"),
  (C, _SIG, "def _create_request_inner(endpoint, render, all_args,\n                          endpoint_args, render_args, result_base=Response):\n"),
  (C, _ENV, "    env = {'endpoint': endpoint, 'render': render, 'BaseResponse': result_base}\n"))
B('pBf_core_result_class_is_the_error_class', ['C06'], 'R06.h',
  (C, _IMP_BR, "from werkzeug.wrappers import BaseResponse\nfrom ..errors import HTTPException\n"),
  (C, _ENV, "    env = {'endpoint': endpoint, 'render': render, 'BaseResponse': HTTPException}\n"))
B('pBf_dispatch_accepts_only_the_mixin_class', ['C06'], 'R06.h',
  (A, "                if not isinstance(ret, BaseResponse):\n", "                if not isinstance(ret, Response):\n"))

# R07.c: what add() enters under inherit_slashes lies below the caller's keywords
_ADDKW_IS = "        kwargs.setdefault('inherit_slashes', getattr(rf, 'inherit_slashes', True))\n"
T('pBf_twin_add_inherit_slashes_if_absent', ['C07'],
  (A, _ADDKW_IS, "        if 'inherit_slashes' not in kwargs:\n            kwargs['inherit_slashes'] = getattr(rf, 'inherit_slashes', True)\n"))
B('pBf_add_inherit_slashes_falsy_is_unset', ['C07'], 'R07.c',
  (A, _ADDKW_IS, "        if not kwargs.get('inherit_slashes'):\n            kwargs['inherit_slashes'] = getattr(rf, 'inherit_slashes', True)\n"))
B('pBf_add_inherit_slashes_forced', ['C07'], 'R07.c', (A, _ADDKW_IS, "        kwargs['inherit_slashes'] = getattr(rf, 'inherit_slashes', True)\n"))
B('pBf_add_inherit_slashes_factory_over_caller', ['C07'], 'R07.c',
  (A, _ADDKW_IS, "        kwargs = dict(kwargs, inherit_slashes=getattr(rf, 'inherit_slashes', kwargs.get('inherit_slashes', True)))\n"))
B('pBf_add_inherit_slashes_default_off', ['C07'], 'R07.c', (A, _ADDKW_IS, "        kwargs.setdefault('inherit_slashes', getattr(rf, 'inherit_slashes', False))\n"))

# R08.j: stores on the request object before dispatch is entered
_RID = ("        try:\n            # some request objects might not be amenable to assignment\n            request.request_id = next(_REQ_ID_ITER)\n"
        "        except Exception:\n            pass\n        else:\n            request.request_guid = int2hexguid(request.request_id)\n")
T('pBf_twin_request_ids_in_one_try', ['C08'],
  (A, _RID, "        try:\n            request.request_id = next(_REQ_ID_ITER)\n            request.request_guid = int2hexguid(request.request_id)\n"
            "        except Exception:\n            pass\n"))
T('pBf_twin_request_guid_in_a_try_of_its_own', ['C08'],
  (A, _RID, "        try:\n            request.request_id = next(_REQ_ID_ITER)\n        except Exception:\n            pass\n        else:\n"
            "            try:\n                request.request_guid = int2hexguid(request.request_id)\n            except Exception:\n                pass\n"))
B('pBf_request_guid_after_the_try', ['C08'], 'R08.j',
  (A, _RID, "        rid = next(_REQ_ID_ITER)\n        try:\n            request.request_id = rid\n        except Exception:\n            pass\n"
            "        request.request_guid = int2hexguid(rid)\n"))
B('pBf_request_tagged_before_the_try', ['C08'], 'R08.j', (A, _RID, "        request.application = self\n" + _RID))
B('pBf_request_id_handler_reraises', ['C08'], 'R08.j', (A, _RID, _RID.replace("            pass\n        else:", "            if self.debug:\n                raise\n        else:")))
B('pBf_request_guid_setattr_in_finally', ['C08'], 'R08.j',
  (A, _RID, "        rid = next(_REQ_ID_ITER)\n        try:\n            request.request_id = rid\n        except Exception:\n            pass\n        finally:\n"
            "            setattr(request, 'request_guid', int2hexguid(rid))\n"))
B('pBf_request_id_handler_narrowed', ['C08'], 'R08.j', (A, _RID, _RID.replace('except Exception:', 'except AttributeError:')))

# R08.k: the keywords handed to the handler's *_type slots vs. the constructors of the classes a slot can hold
_HE_INIT = ("        content_type = kwargs.pop('content_type', None)\n")
_REJECT = "        if kwargs:\n            raise TypeError('unexpected keyword arguments: %r' % sorted(kwargs))\n"
T('pBf_twin_error_keywords_popped_by_the_base', ['C08'],
  (E, _HE_INIT, _HE_INIT + "        for unused in ('request', 'application', 'dispatch_state', 'hide_internal_frames'):\n            kwargs.pop(unused, None)\n"))
T('pBf_twin_not_found_pops_its_context', ['C08'],
  (E, "        self.dispatch_state = kwargs.get('dispatch_state', None)\n", "        self.dispatch_state = kwargs.pop('dispatch_state', None)\n"))
B('pBf_error_base_rejects_leftover_keywords', ['C08'], 'R08.k', (E, _HE_INIT, _HE_INIT + _REJECT))
B('pBf_error_base_without_keyword_mapping', ['C08'], 'R08.k',
  (E, "    def __init__(self, *args, **kwargs):\n        self.dispatch_state = kwargs.get('dispatch_state', None)\n        super(NotFound, self).__init__(*args, **kwargs)\n",
      "    def __init__(self, detail=None, dispatch_state=None, source_route=None):\n        self.dispatch_state = dispatch_state\n"
      "        super(NotFound, self).__init__(detail, source_route=source_route)\n"))
B('pBf_server_error_rejects_what_it_does_not_know', ['C08'], 'R08.k',
  (E, "        self.exc_info = kwargs.pop('exc_info', None)\n        super(InternalServerError, self).__init__(detail, **kwargs)\n",
      "        self.exc_info = kwargs.pop('exc_info', None)\n        source_route = kwargs.pop('source_route', None)\n        if kwargs:\n"
      "            raise TypeError('unexpected keyword arguments: %r' % sorted(kwargs))\n        super(InternalServerError, self).__init__(detail, source_route=source_route)\n"))
B('pBf_null_route_passes_a_new_keyword_to_405', ['C08'], 'R08.k',
  (R, "            return MNAType(allowed_methods=_dispatch_state.allowed_methods)\n",
      "            return MNAType(allowed_methods=_dispatch_state.allowed_methods, request=request)\n"),
  (E, "    def __init__(self, allowed_methods=None, *args, **kwargs):\n", "    def __init__(self, allowed_methods=None, detail=None):\n        args, kwargs = (detail,), {}\n"))
# (the same through a helper that hands its own ** parameter on: the keys are what its callers pass)
_UTR1 = ("        eh = _application.error_handler\n        exc_info = eh.exc_info_type.from_current()\n"
         "        return eh.server_error_type(repr(exc_info),\n                                    exc_info=exc_info,\n"
         "                                    source_route=_route)\n")
_UTR1_NEW = ("        return self._convert_current(_application, _route)\n\n    @staticmethod\n"
             "    def _convert_current(_application, _route, **more):\n        eh = _application.error_handler\n"
             "        exc_info = eh.exc_info_type.from_current()\n        make = eh.server_error_type\n"
             "        return make(repr(exc_info), exc_info=exc_info, source_route=_route, **more)\n")
_UTR2 = ("        eh = _application.error_handler\n        exc_info = eh.exc_info_type.from_current()\n        SEType = eh.server_error_type\n"
         "        return SEType(repr(exc_info),\n                      exc_info=exc_info,\n                      source_route=_route,\n"
         "                      request=kwargs.get('request'),\n                      hide_internal_frames=self.hide_internal_frames)\n")
_UTR2_NEW = ("        return self._convert_current(_application, _route, request=kwargs.get('request'),\n"
             "                                     hide_internal_frames=self.hide_internal_frames)\n")
T('pBf_twin_server_error_through_helper_with_extras', ['C08'], (E, _UTR1, _UTR1_NEW), (E, _UTR2, _UTR2_NEW))
B('pBf_helper_extras_meet_a_rejecting_base', ['C08'], 'R08.k', (E, _UTR1, _UTR1_NEW), (E, _UTR2, _UTR2_NEW), (E, _HE_INIT, _HE_INIT + _REJECT))

# ---- round g -------------------------------------------------------------------------------------------------------------
# R08.a / R08.b for every call that runs a route: the null route run by name instead of through the loop
_G_LOOP = "        for route in self.routes + [self._null_route]:\n"
_G_TAIL = "            else:\n                dispatch_state.add_exception(ret)\n"
_G_EXEC = "                ret = route.execute(**params)\n"
_G_TEST = ("                if not isinstance(ret, BaseResponse):\n                    msg = 'expected Response, received %r' % type(ret)\n"
           "                    raise TypeError(msg)\n")
T('pBg_twin_null_route_run_by_name_in_the_region', ['C08'],
  (A, _G_EXEC, "                if route is self._null_route:\n                    ret = self._null_route.execute(**params)\n"
               "                else:\n                    ret = route.execute(**params)\n"))
B('pBg_null_route_run_in_the_loop_else', ['C08'], 'R08.a',
  (A, _G_LOOP, "        for route in self.routes:\n"),
  (A, _G_TAIL, _G_TAIL + "        else:\n            params = base_params\n            ret = self._null_route.execute(**params)\n"))
B('pBg_null_route_run_when_nothing_answered', ['C08'], 'R08.a',
  (A, _G_LOOP, "        params = base_params\n        for route in self.routes:\n"),
  (A, _G_TAIL, _G_TAIL + "        if ret is None:\n            nr = self._null_route\n            ret = nr.execute(**base_params)\n"))
B('pBg_null_route_result_after_the_response_test', ['C08'], 'R08.b',
  (A, _G_TEST, _G_TEST + "                if route.is_branch and ret.status_code == 404:\n                    ret = self._null_route.execute(**params)\n"))
B('pBg_null_route_result_returned_untested', ['C08'], 'R08.b',
  (A, _G_EXEC, "                if route is self._null_route:\n                    return self._null_route.execute(**params)\n" + _G_EXEC))

# R06.d: "no methods" is the wildcard match_method reads -- the binding keeps it, the null route declares none
_G_BM = "        self.methods = route.methods\n"
_G_NR = "                                        slash_mode=S_REWRITE)\n"
T('pBg_twin_bound_methods_through_a_local', ['C06'], (R, _G_BM, "        declared = route.methods\n        self.methods = declared\n"))
T('pBg_twin_bound_methods_or_none', ['C06'], (R, _G_BM, "        self.methods = route.methods or None\n"))
T('pBg_twin_bound_methods_copied_when_declared', ['C06'],
  (R, _G_BM, "        if route.methods:\n            self.methods = set(route.methods)\n        else:\n            self.methods = route.methods\n"))
T('pBg_twin_null_route_says_no_methods', ['C06'], (R, _G_NR, "                                        slash_mode=S_REWRITE, methods=None)\n"))
B('pBg_bound_methods_or_all_known', ['C06'], 'R06.d', (R, _G_BM, "        self.methods = route.methods or set(HTTP_METHODS)\n"))
B('pBg_bound_methods_set_of_declared_or_known', ['C06'], 'R06.d', (R, _G_BM, "        self.methods = set(route.methods or HTTP_METHODS)\n"))
B('pBg_bound_methods_default_then_overwritten', ['C06'], 'R06.d',
  (R, _G_BM, "        self.methods = frozenset(HTTP_METHODS)\n        if route.methods:\n            self.methods = route.methods\n"))
B('pBg_null_route_declares_the_known_methods', ['C06'], 'R06.d', (R, _G_NR, "                                        slash_mode=S_REWRITE, methods=HTTP_METHODS)\n"))


# ---------------------------------------------------------------------------------------------- round x (seventh pass)
# the Location assembled by a public helper that takes the request (two bindings of the query under try / except, ``+``),
# the nest flattened, ``route.is_branch`` read once into a local
_X_QS = "_QUERY_SAFE = \":/?#[]@!$&'()*+,;=%\"\n"


def _x_helper(path="url_quote(canonical)", fallback="url_quote(raw, safe=_QUERY_SAFE)"):
    return (_X_QS + "\n\ndef slash_location(request, canonical):\n"
            "    raw = request.query_string\n"
            "    try:\n"
            "        query = raw.decode('utf8')\n"
            "    except UnicodeDecodeError:\n"
            "        query = " + fallback + "\n"
            "    return request.url_root.rstrip('/') + " + path + " + '?' + query\n")


def _x_slash(alias="route.is_branch"):
    return ("            is_branch = " + alias + "\n"
            "            norm_path = url_path\n"
            "            if is_branch:\n"
            "                norm_path = normalize_path(url_path, is_branch)\n"
            "            if norm_path != url_path:\n"
            "                if route.slash_mode == S_REDIRECT:\n"
            "                    return redirect(slash_location(request, norm_path))\n"
            "                if route.slash_mode == S_STRICT:\n" + _STRICT)


T('pBx_twin_location_helper_branch_flag_local', ['C06', 'C07'], (A, _X_QS, _x_helper()), (A, _SLASH, _x_slash()))
B('pBx_location_helper_path_unquoted', ['C07'], 'R07.b', (A, _X_QS, _x_helper(path="canonical")), (A, _SLASH, _x_slash()))
B('pBx_location_helper_query_requoted', ['C07'], 'R07.b', (A, _X_QS, _x_helper(fallback="url_quote(raw)")), (A, _SLASH, _x_slash()))
B('pBx_branch_flag_local_is_something_else', ['C07'], 'R07.a', (A, _X_QS, _x_helper()), (A, _SLASH, _x_slash(alias="bool(route.pattern)")))
