"""E7 -- queries on regex ASTs (``re._parser``) of folded pattern constants.

* character queries: can any atom of the pattern consume a given character?
* width: (min, max) length of the language
* structure: anchors / back-references / quantifier of a named group
* language inclusion / equality between two constants by NFA -> DFA product over the alphabet
  partition induced by both patterns (exact for the pattern subset used here: literals, sets,
  ranges, categories \\d \\w \\s, any, branches, groups, greedy/lazy repeats; anchors and
  back-references are rejected as unmodelled).
"""
import re
import re._constants as C
import re._parser as P

from .core import AnalysisError

MAXREPEAT = C.MAXREPEAT


def parse(pattern, flags=0):
    try:
        return P.parse(pattern, flags)
    except re.error as e:
        raise AnalysisError('regex constant does not parse: %r (%s)' % (pattern, e))


def _cat_match(cat, ch):
    if cat == C.CATEGORY_DIGIT:
        return ch.isdigit()
    if cat == C.CATEGORY_NOT_DIGIT:
        return not ch.isdigit()
    if cat == C.CATEGORY_SPACE:
        return ch.isspace()
    if cat == C.CATEGORY_NOT_SPACE:
        return not ch.isspace()
    if cat == C.CATEGORY_WORD:
        return ch.isalnum() or ch == '_'
    if cat == C.CATEGORY_NOT_WORD:
        return not (ch.isalnum() or ch == '_')
    raise AnalysisError('unmodelled regex category %r' % (cat,))


def atom_matches(op, av, ch):
    """Does a single-character atom match character ch?"""
    o = ord(ch)
    if op == C.LITERAL:
        return av == o
    if op == C.NOT_LITERAL:
        return av != o
    if op == C.ANY:
        return ch != '\n'
    if op == C.IN:
        neg = False
        hit = False
        for iop, iav in av:
            if iop == C.NEGATE:
                neg = True
            elif iop == C.LITERAL:
                hit = hit or iav == o
            elif iop == C.RANGE:
                hit = hit or iav[0] <= o <= iav[1]
            elif iop == C.CATEGORY:
                hit = hit or _cat_match(iav, ch)
            else:
                raise AnalysisError('unmodelled set item %r' % (iop,))
        return hit != neg
    if op == C.CATEGORY:
        return _cat_match(av, ch)
    return None


def walk(sub):
    """Yield (op, av) for every node of a parsed pattern."""
    for op, av in sub:
        yield op, av
        if op in (C.MAX_REPEAT, C.MIN_REPEAT, C.POSSESSIVE_REPEAT):
            for x in walk(av[2]):
                yield x
        elif op == C.SUBPATTERN:
            for x in walk(av[3]):
                yield x
        elif op == C.BRANCH:
            for alt in av[1]:
                for x in walk(alt):
                    yield x
        elif op in (C.ASSERT, C.ASSERT_NOT):
            for x in walk(av[1]):
                yield x
        elif op == C.ATOMIC_GROUP:
            for x in walk(av):
                yield x


def can_consume(pattern, ch):
    for op, av in walk(parse(pattern)):
        r = atom_matches(op, av, ch)
        if r:
            return True
    return False


def width(pattern):
    return parse(pattern).getwidth()


def has_anchor_or_backref(pattern):
    for op, av in walk(parse(pattern)):
        if op in (C.AT, C.GROUPREF, C.GROUPREF_EXISTS, C.ASSERT, C.ASSERT_NOT):
            return True
    return False


def group_quantifier(pattern, group_name):
    """(min, max) repetition applied *inside* named group ``group_name`` to its single sub-group, i.e. for
    ``(?P<n>(X)Q)`` the quantifier Q; (1, 1) when there is none."""
    p = parse(pattern)
    gid = p.state.groupdict.get(group_name)
    if gid is None:
        raise AnalysisError('group %s not found in %r' % (group_name, pattern))
    for op, av in walk(p):
        if op == C.SUBPATTERN and av[0] == gid:
            body = list(av[3])
            if len(body) == 1:
                bop, bav = body[0]
                if bop in (C.MAX_REPEAT, C.MIN_REPEAT):
                    return bav[0], bav[1], ('greedy' if bop == C.MAX_REPEAT else 'lazy')
            # a plain sequence (non-capturing groups are flattened by the parser): no quantifier on the whole
            return 1, 1, 'none'
    raise AnalysisError('group %s not found' % group_name)


# ---- automata -------------------------------------------------------------------------------

class NFA(object):
    def __init__(self):
        self.n = 0
        self.eps = {}
        self.trans = {}   # state -> list of (pred(atom), target)

    def new(self):
        s = self.n
        self.n += 1
        self.eps[s] = []
        self.trans[s] = []
        return s


def _build(nfa, sub, start):
    """Thompson construction; returns the end state."""
    cur = start
    for op, av in sub:
        if op in (C.LITERAL, C.NOT_LITERAL, C.ANY, C.IN, C.CATEGORY):
            nxt = nfa.new()
            nfa.trans[cur].append(((op, av), nxt))
            cur = nxt
        elif op == C.SUBPATTERN:
            cur = _build(nfa, av[3], cur)
        elif op == C.BRANCH:
            end = nfa.new()
            for alt in av[1]:
                s = nfa.new()
                nfa.eps[cur].append(s)
                e = _build(nfa, alt, s)
                nfa.eps[e].append(end)
            cur = end
        elif op in (C.MAX_REPEAT, C.MIN_REPEAT):
            lo, hi, body = av
            for _ in range(lo):
                cur = _build(nfa, body, cur)
            if hi == MAXREPEAT:
                s = nfa.new()
                nfa.eps[cur].append(s)
                e = _build(nfa, body, s)
                nfa.eps[e].append(s)
                cur = s
            else:
                end = nfa.new()
                nfa.eps[cur].append(end)
                for _ in range(hi - lo):
                    cur = _build(nfa, body, cur)
                    nfa.eps[cur].append(end)
                cur = end
        else:
            raise AnalysisError('regex construct %r is outside the modelled subset for automata' % (op,))
    return cur


def _tree(p):
    """a pattern text or an already parsed (sub-)pattern"""
    return parse(p) if isinstance(p, str) else p


def group_tree(pattern, group_name):
    """The parsed body of the named group ``group_name`` of ``pattern`` (usable wherever a pattern is)."""
    p = parse(pattern)
    gid = p.state.groupdict.get(group_name)
    if gid is None:
        raise AnalysisError('group %s not found in %r' % (group_name, pattern))
    for op, av in walk(p):
        if op == C.SUBPATTERN and av[0] == gid:
            return av[3]
    raise AnalysisError('group %s not found' % group_name)


def to_nfa(pattern):
    nfa = NFA()
    s = nfa.new()
    e = _build(nfa, _tree(pattern), s)
    return nfa, s, e


def _closure(nfa, states):
    seen = set(states)
    todo = list(states)
    while todo:
        s = todo.pop()
        for t in nfa.eps[s]:
            if t not in seen:
                seen.add(t)
                todo.append(t)
    return frozenset(seen)


def alphabet_for(*patterns):
    """Representative characters: one per class of the partition induced by all atoms."""
    cands = set('/ .+-eEaZ_0959\t\n%?#:;=&~') | {'é', 'x'}
    for p in patterns:
        for op, av in walk(_tree(p)):
            if op in (C.LITERAL, C.NOT_LITERAL):
                cands.add(chr(av))
            elif op == C.IN:
                for iop, iav in av:
                    if iop == C.LITERAL:
                        cands.add(chr(iav))
                    elif iop == C.RANGE:
                        for o in (iav[0], iav[1], iav[0] - 1 if iav[0] > 0 else iav[0], iav[1] + 1):
                            cands.add(chr(o))
    # reduce to one representative per signature
    atoms = []
    for p in patterns:
        for op, av in walk(_tree(p)):
            if op in (C.LITERAL, C.NOT_LITERAL, C.ANY, C.IN, C.CATEGORY):
                atoms.append((op, av))
    reps = {}
    for ch in sorted(cands):
        sig = tuple(bool(atom_matches(op, av, ch)) for op, av in atoms)
        reps.setdefault(sig, ch)
    return sorted(reps.values())


def included(a, b):
    """L(a) subset of L(b) (full-match languages).  Returns (True, None) or (False, witness string)."""
    alpha = alphabet_for(a, b)
    na, sa, ea = to_nfa(a)
    nb, sb, eb = to_nfa(b)
    start = (_closure(na, [sa]), _closure(nb, [sb]))
    seen = {start: ''}
    todo = [start]
    while todo:
        st = todo.pop(0)
        A, B = st
        w = seen[st]
        if ea in A and eb not in B:
            return False, w
        for ch in alpha:
            A2 = set()
            for s in A:
                for (op, av), t in na.trans[s]:
                    if atom_matches(op, av, ch):
                        A2.add(t)
            if not A2:
                continue
            B2 = set()
            for s in B:
                for (op, av), t in nb.trans[s]:
                    if atom_matches(op, av, ch):
                        B2.add(t)
            nxt = (_closure(na, A2), _closure(nb, B2))
            if nxt not in seen:
                seen[nxt] = w + ch
                todo.append(nxt)
                if len(seen) > 20000:
                    raise AnalysisError('automata product too large')
    return True, None
