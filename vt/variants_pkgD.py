"""Variants of package D (C09): distilled refactoring shapes the rules were taught to follow (T) and breaking changes
written in those shapes (B) -- the generalised recognisers must still judge."""
from .variants import B, T, S, C, R, A, E, ST, CK, STATS, GZ, CC, PF, RS, FL, META, CE

# ------------------------------------------------------------------ anchors in clastic/errors.py
_ESC_LOOP = ("        ret = {}\n"
             "        for k, v in self.to_dict().items():\n"
             "            if v is None:\n"
             "                ret[k] = ''\n"
             "                continue\n"
             "            try:\n"
             "                ret[k] = html_escape(v, True)\n"
             "            except Exception as e:\n"
             "                ret[k] = html_escape(repr(v), True)\n"
             "        return ret\n")
_AFTER_DEFAULT_MIME = "DEFAULT_MIME = 'text/plain'\n"
_FIELD_HELPER = ("\n\ndef _markup_safe(value):\n"
                 "    if value is None:\n"
                 "        return ''\n"
                 "    try:\n"
                 "        return html_escape(value, True)\n"
                 "    except Exception:\n"
                 "        return html_escape(repr(value), True)\n")
_ADAPT_LOOKUP = ("        try:\n"
                 "            fmt_name = MIME_SUPPORT_MAP[mimetype]\n"
                 "        except KeyError:\n"
                 "            fmt_name, mimetype = 'text', 'text/plain'\n")
_ADAPT_HEADER = "        self.headers['Content-Type'] = get_content_type(mimetype, self.charset)\n"
_INIT_SUPER = ("        headers = kwargs.pop('headers', None)\n"
               "        mimetype = kwargs.pop('mimetype', DEFAULT_MIME)\n"
               "        content_type = kwargs.pop('content_type', None)\n"
               "        body = self._encode(self.to_text())\n"
               "        super(HTTPException, self).__init__(response=body,\n"
               "                                            status=self.code,\n"
               "                                            headers=headers,\n"
               "                                            mimetype=DEFAULT_MIME,\n"
               "                                            content_type=content_type)\n")
_RENDER_ERROR = ("        best_match = request.accept_mimetypes.best_match(MIME_SUPPORT_MAP)\n"
                 "        _error.adapt(best_match)\n"
                 "        return _error\n\n    def uncaught_to_response")
_DEFAULT_RENDER = ("    best_match = request.accept_mimetypes.best_match(MIME_SUPPORT_MAP)\n"
                   "    _error.adapt(best_match)\n")
_NEGOTIATE = ("\n\ndef pick_error_mimetype(request, supported):\n"
              "    accepted = request.accept_mimetypes\n"
              "    return accepted.best_match(supported)\n")
_XML_BODY = ("        params = self.to_escaped_dict()\n"
             "        ret = ('<http_error>'\n"
             "               '<code>{code}</code>'\n"
             "               '<message>{message}</message>'\n"
             "               '<detail>{detail}</detail>'\n"
             "               '<error_type>{error_type}</error_type>'\n"
             "               '</http_error>').format(**params)\n"
             "        return ret\n")
_XML_CONST = ("\n_XML_SHAPE = ('<http_error>'\n"
              "              '<code>{code}</code>'\n"
              "              '<message>{message}</message>'\n"
              "              '<detail>{detail}</detail>'\n"
              "              '<error_type>{error_type}</error_type>'\n"
              "              '</http_error>')\n"
              "_PAGE_HEAD = ('<!doctype html><html>',\n"
              "              '<head><title>{code} - {message}</title></head>',\n"
              "              '<body><h1>{message}</h1>')\n"
              "_DETAIL_PARA = '<p>{detail}</p>'\n")
_HTML_HEAD = ("        lines = ['<!doctype html><html>',\n"
              "                 '<head><title>{code} - {message}</title></head>',\n"
              "                 '<body><h1>{message}</h1>']\n")
_HTML_TAIL = "        return '\\n'.join(lines).format(**params)\n"
_REGISTER = ("    CONTEXTUAL_ENV.register_source('500.html', HTML_500_TMPL)\n"
             "    CONTEXTUAL_ENV.register_source('404.html', HTML_404_TMPL)\n")
_REGISTER_LOOP = ("    pages = [('500.html', HTML_500_TMPL),\n"
                  "             ('404.html', HTML_404_TMPL)]\n"
                  "    for page_name, page_source in pages:\n"
                  "        CONTEXTUAL_ENV.register_source(page_name, page_source)\n")
_FILL_OLD = ("HTML_500_TMPL = HTML_500_TMPL.replace('__STYLE_SCRIPT_STUFF__',\n"
             "                                      STYLE_SCRIPT_STUFF)\n"
             "HTML_404_TMPL = HTML_404_TMPL.replace('__STYLE_SCRIPT_STUFF__',\n"
             "                                      STYLE_SCRIPT_STUFF)\n")
_FILL_NEW = ("_MARK = '__STYLE_SCRIPT_STUFF__'\n\n\n"
             "def _with_style(page):\n"
             "    return page.replace(_MARK, STYLE_SCRIPT_STUFF)\n\n\n"
             "HTML_500_TMPL = _with_style(HTML_500_TMPL)\n"
             "HTML_404_TMPL = _with_style(HTML_404_TMPL)\n")

_COMP = ("        return {field: _markup_safe(value)\n"
         "                for field, value in self.to_dict().items()}\n")

# ------------------------------------------------------------------ twins: shapes that are now followed
T('d_t_escaped_comp_helper', ['C09', 'C08'], (E, _AFTER_DEFAULT_MIME, _AFTER_DEFAULT_MIME + _FIELD_HELPER), (E, _ESC_LOOP, _COMP))
T('d_t_escaped_dict_of_pairs', ['C09', 'C08'], (E, _AFTER_DEFAULT_MIME, _AFTER_DEFAULT_MIME + _FIELD_HELPER),
  (E, _ESC_LOOP, "        fields = self.to_dict()\n        escaped = dict((k, _markup_safe(v)) for k, v in fields.items())\n        return escaped\n"))
T('d_t_escaped_loop_named_text', ['C09', 'C08'],
  (E, "                ret[k] = html_escape(repr(v), True)", "                as_text = repr(v)\n                ret[k] = html_escape(as_text, quote=True)"))
T('d_t_templates_module_consts', ['C09', 'C08'], (E, _AFTER_DEFAULT_MIME, _AFTER_DEFAULT_MIME + _XML_CONST),
  (E, _XML_BODY, "        return _XML_SHAPE.format(**self.to_escaped_dict())\n"),
  (E, _HTML_HEAD, "        lines = list(_PAGE_HEAD)\n"),
  (E, "            lines.append('<p>{detail}</p>')", "            lines.append(_DETAIL_PARA)"),
  (E, _HTML_TAIL, "        page = '\\n'.join(lines)\n        return page.format(**params)\n"))
T('d_t_adapt_membership', ['C09'],
  (E, _ADAPT_LOOKUP, "        if mimetype in MIME_SUPPORT_MAP:\n            fmt_name = MIME_SUPPORT_MAP[mimetype]\n        else:\n"
                     "            fmt_name, mimetype = 'text', 'text/plain'\n"))
T('d_t_adapt_not_in_first', ['C09'],
  (E, _ADAPT_LOOKUP, "        if mimetype not in MIME_SUPPORT_MAP:\n            fmt_name = 'text'\n            mimetype = 'text/plain'\n        else:\n"
                     "            fmt_name = MIME_SUPPORT_MAP[mimetype]\n"))
T('d_t_adapt_get_none', ['C09'],
  (E, _ADAPT_LOOKUP, "        fmt_name = MIME_SUPPORT_MAP.get(mimetype)\n        if fmt_name is None:\n            fmt_name, mimetype = 'text', 'text/plain'\n"))
T('d_t_adapt_named_header_keywords', ['C09'],
  (E, _ADAPT_HEADER, "        content_type = get_content_type(mimetype=mimetype, charset=self.charset)\n        self.headers['Content-Type'] = content_type\n"),
  (E, "        _method = getattr(self, 'to_' + fmt_name)\n        self.data = self._encode(_method())\n",
      "        serialiser_name = 'to_%s' % fmt_name\n        self.data = self._encode(getattr(self, serialiser_name)())\n"))
T('d_t_init_splatted_kwargs', ['C09'],
  (E, _INIT_SUPER, "        extra = {'headers': kwargs.pop('headers', None)}\n"
                   "        mimetype = kwargs.pop('mimetype', DEFAULT_MIME)\n"
                   "        extra['content_type'] = kwargs.pop('content_type', None)\n"
                   "        body = self.to_text()\n"
                   "        status = self.code\n"
                   "        super(HTTPException, self).__init__(response=body, status=status, mimetype=DEFAULT_MIME, **extra)\n"))
T('d_t_init_positional_base_call', ['C09'],
  (E, "        super(HTTPException, self).__init__(response=body,\n"
      "                                            status=self.code,\n"
      "                                            headers=headers,\n"
      "                                            mimetype=DEFAULT_MIME,\n"
      "                                            content_type=content_type)\n",
      "        BaseResponse.__init__(self, body, self.code, headers, DEFAULT_MIME, content_type)\n"))
T('d_t_negotiate_helper', ['C09'], (E, _AFTER_DEFAULT_MIME, _AFTER_DEFAULT_MIME + _NEGOTIATE),
  (E, _RENDER_ERROR, "        _error.adapt(pick_error_mimetype(request, MIME_SUPPORT_MAP))\n        return _error\n\n    def uncaught_to_response"),
  (A, "                     ContextualErrorHandler)", "                     ContextualErrorHandler,\n                     pick_error_mimetype)"),
  (A, _DEFAULT_RENDER, "    wanted = pick_error_mimetype(request=request, supported=MIME_SUPPORT_MAP)\n    _error.adapt(wanted)\n"))
T('d_t_register_loop_and_fill_helper', ['C09'], (CE, _REGISTER, _REGISTER_LOOP), (CE, _FILL_OLD, _FILL_NEW))
T('d_t_register_loop_module_table', ['C09'], (CE, _REGISTER, "    for page_name, page_source in _PAGES.items():\n        CONTEXTUAL_ENV.register_source(name=page_name, source=page_source)\n"),
  (CE, "\n_register_templates()\n", "\n_PAGES = {'500.html': HTML_500_TMPL, '404.html': HTML_404_TMPL}\n_register_templates()\n"))
T('d_t_to_json_named_dict', ['C09'],
  (E, "        return encoder.encode(self.to_dict())", "        fields = self.to_dict()\n        return encoder.encode(fields)"))
T('d_t_render_inline_ctx', ['C09'],
  (E, "        render_ctx = self.to_dict()\n        return CONTEXTUAL_ENV.render('500.html', render_ctx)", "        return CONTEXTUAL_ENV.render('500.html', self.to_dict())"))

# ------------------------------------------------------------------ breaking changes written in the new shapes
B('d_b_comp_helper_raw_path', ['C09'], 'R09.c',
  (E, _AFTER_DEFAULT_MIME, _AFTER_DEFAULT_MIME + _FIELD_HELPER.replace("    try:\n", "    if isinstance(value, int):\n        return value\n    try:\n")),
  (E, _ESC_LOOP, _COMP))
B('d_b_comp_helper_falls_off', ['C09'], 'R09.c',
  (E, _AFTER_DEFAULT_MIME, _AFTER_DEFAULT_MIME + "\n\ndef _markup_safe(value):\n    if value is not None:\n        try:\n"
      "            return html_escape(value, True)\n        except Exception:\n            return html_escape(repr(value), True)\n"),
  (E, _ESC_LOOP, _COMP))
B('d_b_comp_filter_skips_fields', ['C09'], 'R09.c', (E, _AFTER_DEFAULT_MIME, _AFTER_DEFAULT_MIME + _FIELD_HELPER),
  (E, _ESC_LOOP, "        return {field: _markup_safe(value)\n                for field, value in self.to_dict().items() if value}\n"))
B('d_b_comp_helper_no_quote', ['C09'], 'R09.c',
  (E, _AFTER_DEFAULT_MIME, _AFTER_DEFAULT_MIME + _FIELD_HELPER.replace("html_escape(value, True)", "html_escape(value)")), (E, _ESC_LOOP, _COMP))
B('d_b_comp_helper_unguarded', ['C09', 'C08'], {'C09': 'R09.c', 'C08': 'R08.e'},
  (E, _AFTER_DEFAULT_MIME, _AFTER_DEFAULT_MIME + "\n\ndef _markup_safe(value):\n    if value is None:\n        return ''\n    return html_escape(value, True)\n"),
  (E, _ESC_LOOP, _COMP))
B('d_b_escaped_map_modified', ['C09'], 'R09.c',
  (E, "    def to_html(self):\n        params = self.to_escaped_dict()\n", "    def to_html(self):\n        params = self.to_escaped_dict()\n        params['detail'] = self.detail\n"))
B('d_b_module_template_injected', ['C09', 'C08'], {'C09': 'R09.c', 'C08': 'R08.e'}, (E, _AFTER_DEFAULT_MIME, _AFTER_DEFAULT_MIME + _XML_CONST),
  (E, _HTML_HEAD, "        lines = list(_PAGE_HEAD)\n"),
  (E, "            lines.append('<p>{detail}</p>')", "            lines.append(_DETAIL_PARA.replace('{detail}', params['detail']))"))
B('d_b_member_fallback_fmt_only', ['C09'], 'R09.b',
  (E, _ADAPT_LOOKUP, "        if mimetype in MIME_SUPPORT_MAP:\n            fmt_name = MIME_SUPPORT_MAP[mimetype]\n        else:\n            fmt_name = 'text'\n"))
B('d_b_member_fallback_wrong_pair', ['C09'], 'R09.b',
  (E, _ADAPT_LOOKUP, "        if mimetype in MIME_SUPPORT_MAP:\n            fmt_name = MIME_SUPPORT_MAP[mimetype]\n        else:\n"
                     "            fmt_name, mimetype = 'text', 'text/html'\n"))
B('d_b_member_test_other_table', ['C09'], 'R09.b',
  (E, _ADAPT_LOOKUP, "        if mimetype in ERROR_CODE_MAP:\n            fmt_name = MIME_SUPPORT_MAP[mimetype]\n        else:\n"
                     "            fmt_name, mimetype = 'text', 'text/plain'\n"))
B('d_b_get_default_keeps_mimetype', ['C09'], 'R09.b',
  (E, _ADAPT_LOOKUP, "        fmt_name = MIME_SUPPORT_MAP.get(mimetype, 'text')\n"))
B('d_b_mimetype_rebound_before_header', ['C09'], 'R09.b',
  (E, _ADAPT_HEADER, "        mimetype = DEFAULT_MIME\n" + _ADAPT_HEADER))
B('d_b_header_from_default_mime', ['C09'], 'R09.b',
  (E, _ADAPT_HEADER, "        content_type = get_content_type(DEFAULT_MIME, self.charset)\n        self.headers['Content-Type'] = content_type\n"))
B('d_b_negotiate_helper_fixed_list', ['C09'], 'R09.b',
  (E, _AFTER_DEFAULT_MIME, _AFTER_DEFAULT_MIME + _NEGOTIATE.replace("best_match(supported)", "best_match(['text/html', 'text/plain'])")),
  (E, _RENDER_ERROR, "        _error.adapt(pick_error_mimetype(request, MIME_SUPPORT_MAP))\n        return _error\n\n    def uncaught_to_response"))
B('d_b_negotiate_helper_other_table_arg', ['C09'], 'R09.b', (E, _AFTER_DEFAULT_MIME, _AFTER_DEFAULT_MIME + _NEGOTIATE),
  (E, _RENDER_ERROR, "        _error.adapt(pick_error_mimetype(request, ['text/html']))\n        return _error\n\n    def uncaught_to_response"))
B('d_b_named_body_is_html', ['C09'], 'R09.a',
  (E, _INIT_SUPER, "        extra = {'headers': kwargs.pop('headers', None)}\n"
                   "        mimetype = kwargs.pop('mimetype', DEFAULT_MIME)\n"
                   "        extra['content_type'] = kwargs.pop('content_type', None)\n"
                   "        body = self.to_html()\n"
                   "        super(HTTPException, self).__init__(response=body, status=self.code, mimetype=DEFAULT_MIME, **extra)\n"))
B('d_b_splatted_status_class_code', ['C09'], 'R09.a',
  (E, _INIT_SUPER, "        extra = {'headers': kwargs.pop('headers', None), 'status': type(self).code}\n"
                   "        mimetype = kwargs.pop('mimetype', DEFAULT_MIME)\n"
                   "        extra['content_type'] = kwargs.pop('content_type', None)\n"
                   "        super(HTTPException, self).__init__(response=self.to_text(), mimetype=DEFAULT_MIME, **extra)\n"))
B('d_b_register_loop_misses_404', ['C09'], 'R09.d',
  (CE, _REGISTER, "    pages = [('500.html', HTML_500_TMPL)]\n    for page_name, page_source in pages:\n        CONTEXTUAL_ENV.register_source(page_name, page_source)\n"))
B('d_b_register_never_run', ['C09'], 'R09.d', (CE, "\n_register_templates()\n", "\n"))
B('d_b_fill_helper_raw_reference', ['C09'], 'R09.d', (CE, _FILL_OLD, _FILL_NEW.replace("STYLE_SCRIPT_STUFF)\n\n\nHTML_500", "STYLE_SCRIPT_STUFF + '{exc_value|s}')\n\n\nHTML_500")))
B('d_b_to_json_other_dict', ['C09'], 'R09.e',
  (E, "        return encoder.encode(self.to_dict())", "        fields = {'code': self.code}\n        return encoder.encode(fields)"))

# ------------------------------------------------------------------ more shapes
_ISE_TO_DICT = ("        ret = super(InternalServerError, self).to_dict()\n"
                "        ret['exc_info'] = glom(self, T.exc_info.to_dict(), skip_exc=Exception)\n"
                "        return ret\n")
_STATIC_HELPER = ("    @staticmethod\n"
                  "    def _safe_text(value):\n"
                  "        if value is None:\n"
                  "            return ''\n"
                  "        try:\n"
                  "            escaped = html_escape(value, True)\n"
                  "        except Exception:\n"
                  "            escaped = html_escape(repr(value), True)\n"
                  "        return escaped\n\n")
T('d_t_escaped_comp_static_helper', ['C09', 'C08'],
  (E, "    def to_escaped_dict(self):\n" + _ESC_LOOP,
      _STATIC_HELPER + "    def to_escaped_dict(self):\n        return {k: self._safe_text(v) for k, v in self.to_dict().items()}\n"))
T('d_t_to_dict_merge_return', ['C09'],
  (E, _ISE_TO_DICT, "        return dict(super(InternalServerError, self).to_dict(),\n"
                    "                    exc_info=glom(self, T.exc_info.to_dict(), skip_exc=Exception))\n"))
B('d_b_to_dict_merge_replaces_code', ['C09'], 'R09.e',
  (E, _ISE_TO_DICT, "        return dict(super(InternalServerError, self).to_dict(), code=500,\n"
                    "                    exc_info=glom(self, T.exc_info.to_dict(), skip_exc=Exception))\n"))
B('d_b_static_helper_raw_fallback', ['C09'], 'R09.c',
  (E, "    def to_escaped_dict(self):\n" + _ESC_LOOP,
      _STATIC_HELPER.replace("escaped = html_escape(repr(value), True)", "escaped = repr(value)") +
      "    def to_escaped_dict(self):\n        return {k: self._safe_text(v) for k, v in self.to_dict().items()}\n"))
T('d_t_html_head_lines_method', ['C09', 'C08'],
  (E, "    def to_html(self):\n        params = self.to_escaped_dict()\n" + _HTML_HEAD,
      "    def _head_lines(self):\n        return ['<!doctype html><html>',\n                '<head><title>{code} - {message}</title></head>',\n"
      "                '<body><h1>{message}</h1>']\n\n    def to_html(self):\n        params = self.to_escaped_dict()\n        lines = self._head_lines()\n"))
T('d_t_adapt_get_falsy', ['C09'],
  (E, _ADAPT_LOOKUP, "        fmt_name = MIME_SUPPORT_MAP.get(mimetype)\n        if not fmt_name:\n            fmt_name, mimetype = 'text', DEFAULT_MIME\n"))
T('d_t_negotiate_over_key_list', ['C09'],
  (E, _RENDER_ERROR, "        best_match = request.accept_mimetypes.best_match(list(MIME_SUPPORT_MAP.keys()))\n        _error.adapt(mimetype=best_match)\n"
                     "        return _error\n\n    def uncaught_to_response"))
T('d_t_escaped_loop_ifexp_method', ['C09', 'C08'],
  (E, "    def to_escaped_dict(self):\n" + _ESC_LOOP,
      "    def _esc(self, v):\n        try:\n            return html_escape(v, True)\n        except Exception:\n            return html_escape(repr(v), True)\n\n"
      "    def to_escaped_dict(self):\n        ret = {}\n        for k, v in self.to_dict().items():\n            ret[k] = '' if v is None else self._esc(v)\n        return ret\n"))
T('d_t_adapt_key_normalised_first', ['C09'],
  (E, _ADAPT_LOOKUP, "        if mimetype not in MIME_SUPPORT_MAP:\n            mimetype = 'text/plain'\n        fmt_name = MIME_SUPPORT_MAP[mimetype]\n"))
B('d_b_adapt_key_normalised_only_falsy', ['C09'], 'R09.b',
  (E, _ADAPT_LOOKUP, "        if not mimetype:\n            mimetype = 'text/plain'\n        fmt_name = MIME_SUPPORT_MAP[mimetype]\n"))
B('d_b_adapt_key_normalised_to_html', ['C09'], 'R09.b',
  (E, _ADAPT_LOOKUP, "        if mimetype not in MIME_SUPPORT_MAP:\n            mimetype = 'text/html'\n        fmt_name = MIME_SUPPORT_MAP[mimetype]\n"))

# ------------------------------------------------------------------ def-use order inside HTTPException.__init__ (R09.a)
# the status is the instance code only when the read of self.code that produces it happens after the override; the
# renderings made in the constructor must come after the writes of the fields they show
_INIT_HEAD = "    def __init__(self, detail=None, **kwargs):\n        self.detail = detail or self.detail\n"
_INIT_DEF = "    def __init__(self, detail=None, **kwargs):\n"
_INIT_DETAIL = "        self.detail = detail or self.detail\n"
_INIT_MESSAGE = "        self.message = kwargs.pop('message', self.message)\n"
_INIT_CODE = "        self.code = kwargs.pop('code', self.code)\n"
_INIT_ADAPT = "        if mimetype != DEFAULT_MIME:\n            self.adapt(mimetype)\n        return\n"
_SUPER_EXTRA = ("        mimetype = kwargs.pop('mimetype', DEFAULT_MIME)\n"
                "        extra['content_type'] = kwargs.pop('content_type', None)\n"
                "        super(HTTPException, self).__init__(response=self.to_text(), mimetype=DEFAULT_MIME, **extra)\n")
B('d2_b_status_dict_before_override', ['C09'], 'R09.a',
  (E, _INIT_HEAD, _INIT_DEF + "        extra = {'status': self.code, 'headers': kwargs.pop('headers', None)}\n" + _INIT_DETAIL),
  (E, _INIT_SUPER, _SUPER_EXTRA))
B('d2_b_status_local_before_override', ['C09'], 'R09.a',
  (E, _INIT_HEAD, _INIT_DEF + "        status = self.code\n" + _INIT_DETAIL),
  (E, "                                            status=self.code,\n", "                                            status=status,\n"))
B('d2_b_status_update_before_override', ['C09'], 'R09.a',
  (E, _INIT_HEAD, _INIT_DEF + "        extra = {}\n        extra.update(status=self.code)\n" + _INIT_DETAIL),
  (E, _INIT_SUPER, "        extra['headers'] = kwargs.pop('headers', None)\n" + _SUPER_EXTRA))
B('d2_b_status_local_chain_before_override', ['C09'], 'R09.a',
  (E, _INIT_CODE, "        class_code = self.code\n" + _INIT_CODE + "        status = class_code\n"),
  (E, "                                            status=self.code,\n", "                                            status=status,\n"))
B('d2_b_override_after_base_init', ['C09'], 'R09.a',
  (E, _INIT_CODE, ""),
  (E, _INIT_ADAPT, _INIT_CODE + _INIT_ADAPT))
B('d2_b_code_written_twice', ['C09'], 'R09.a',
  (E, _INIT_SUPER, "        if not self.is_breaking:\n            self.code = type(self).code\n" + _INIT_SUPER))
B('d2_b_body_rendered_before_fields', ['C09'], 'R09.a',
  (E, "        body = self._encode(self.to_text())\n        super(HTTPException", "        super(HTTPException"),
  (E, _INIT_HEAD, _INIT_DEF + "        body = self._encode(self.to_text())\n" + _INIT_DETAIL))
B('d2_b_detail_set_after_adapt', ['C09'], 'R09.a',
  (E, _INIT_HEAD, _INIT_DEF),
  (E, _INIT_ADAPT, "        if mimetype != DEFAULT_MIME:\n            self.adapt(mimetype)\n" + _INIT_DETAIL))
B('d2_b_message_set_after_default_body', ['C09'], 'R09.a',
  (E, _INIT_MESSAGE, ""),
  (E, _INIT_ADAPT, _INIT_MESSAGE + _INIT_ADAPT))
T('d2_t_status_dict_after_override', ['C09'],
  (E, _INIT_SUPER, "        extra = dict(status=self.code, headers=kwargs.pop('headers', None))\n" + _SUPER_EXTRA))
T('d2_t_status_local_after_override', ['C09'],
  (E, _INIT_CODE, _INIT_CODE + "        status = self.code\n"),
  (E, "                                            status=self.code,\n", "                                            status=status,\n"))
T('d2_t_code_local_shared', ['C09'],
  (E, _INIT_CODE, "        code = kwargs.pop('code', self.code)\n        self.code = code\n"),
  (E, "                                            status=self.code,\n", "                                            status=code,\n"))
T('d2_t_detail_set_conditionally', ['C09'],
  (E, _INIT_DETAIL, "        if detail:\n            self.detail = detail\n"))
T('d2_t_body_local_after_fields', ['C09'],
  (E, _INIT_SUPER, _INIT_SUPER.replace("body", "plain_text")))

# ------------------------------------------------------------------ third pass: generated templates, pair lookups, delegated negotiation
# a template folded from literals and module constants is a constant template; the lookup of the (format, mimetype) pair
# may be one parallel assignment; a renderer may hand its error to one function (of another module) that negotiates,
# adapts and returns it
_XML_FIELDS_CONST = "\n_XML_FIELDS = ('code', 'message', 'detail', 'error_type')\n"
_XML_GENERATED = ("        params = self.to_escaped_dict()\n"
                  "        elements = ['<{0}>{{{0}}}</{0}>'.format(name) for name in _XML_FIELDS]\n"
                  "        template = '<http_error>' + ''.join(elements) + '</http_error>'\n"
                  "        return template.format(**params)\n")
_SHARED_ADAPT = ("\n\ndef _adapt_to_accept(request, error, supported_mimetypes):\n"
                 "    accepted = request.accept_mimetypes\n"
                 "    best_match = accepted.best_match(supported_mimetypes)\n"
                 "    error.adapt(best_match)\n"
                 "    return error\n")
_IMPORT_OLD = "                     ContextualErrorHandler)"
_IMPORT_NEW = "                     ContextualErrorHandler,\n                     _adapt_to_accept)"
_RENDER_DELEGATES = "        return _adapt_to_accept(request, _error, MIME_SUPPORT_MAP)\n\n    def uncaught_to_response"
_DEFAULT_RENDER_FULL = _DEFAULT_RENDER + "    return _error\n"
T('d3_t_xml_template_generated', ['C09', 'C08'], (E, _AFTER_DEFAULT_MIME, _AFTER_DEFAULT_MIME + _XML_FIELDS_CONST), (E, _XML_BODY, _XML_GENERATED))
T('d3_t_xml_template_generated_local_table', ['C09', 'C08'],
  (E, _XML_BODY, "        params = self.to_escaped_dict()\n"
                 "        fields = ('code', 'message', 'detail', 'error_type')\n"
                 "        inner = ''.join('<%s>{%s}</%s>' % (name, name, name) for name in fields)\n"
                 "        return ('<http_error>%s</http_error>' % inner).format(**params)\n"))
T('d3_t_adapt_pair_lookup', ['C09'],
  (E, _ADAPT_LOOKUP, "        try:\n            fmt_name, mimetype = MIME_SUPPORT_MAP[mimetype], mimetype\n        except KeyError:\n"
                     "            fmt_name, mimetype = 'text', 'text/plain'\n"))
T('d3_t_adapt_pair_helper', ['C09'], (E, _AFTER_DEFAULT_MIME, _AFTER_DEFAULT_MIME +
                                      "\n\ndef _format_pair(mimetype):\n    try:\n        return MIME_SUPPORT_MAP[mimetype], mimetype\n"
                                      "    except KeyError:\n        return 'text', 'text/plain'\n"),
  (E, _ADAPT_LOOKUP, "        fmt_name, mimetype = _format_pair(mimetype)\n"))
T('d3_t_render_delegates_cross_module', ['C09', 'C08'], (E, _AFTER_DEFAULT_MIME, _AFTER_DEFAULT_MIME + _SHARED_ADAPT),
  (E, _RENDER_ERROR, _RENDER_DELEGATES), (A, _IMPORT_OLD, _IMPORT_NEW),
  (A, _DEFAULT_RENDER_FULL, "    return _adapt_to_accept(request, _error, MIME_SUPPORT_MAP)\n"))
T('d3_t_render_delegates_named_result', ['C09'], (E, _AFTER_DEFAULT_MIME, _AFTER_DEFAULT_MIME + _SHARED_ADAPT), (A, _IMPORT_OLD, _IMPORT_NEW),
  (A, _DEFAULT_RENDER_FULL, "    table = MIME_SUPPORT_MAP\n    adapted = _adapt_to_accept(request=request, error=_error, supported_mimetypes=table)\n"
                            "    return adapted\n"))
T('d3_t_render_delegates_returns_own', ['C09'], (E, _AFTER_DEFAULT_MIME, _AFTER_DEFAULT_MIME + _SHARED_ADAPT), (A, _IMPORT_OLD, _IMPORT_NEW),
  (A, _DEFAULT_RENDER_FULL, "    _adapt_to_accept(request, _error, MIME_SUPPORT_MAP)\n    return _error\n"))
B('d3_b_xml_generated_template_with_data', ['C09', 'C08'], {'C09': 'R09.c', 'C08': 'R08.e'},
  (E, _AFTER_DEFAULT_MIME, _AFTER_DEFAULT_MIME + _XML_FIELDS_CONST),
  (E, _XML_BODY, _XML_GENERATED.replace("'<{0}>{{{0}}}</{0}>'.format(name)", "'<{0}>{1}</{0}>'.format(name, params[name])")))
B('d3_b_xml_generated_raw_fields', ['C09'], 'R09.c', (E, _AFTER_DEFAULT_MIME, _AFTER_DEFAULT_MIME + _XML_FIELDS_CONST),
  (E, _XML_BODY, "        elements = ['<{0}>{1}</{0}>'.format(name, getattr(self, name)) for name in _XML_FIELDS]\n"
                 "        return '<http_error>' + ''.join(elements) + '</http_error>'\n"))
B('d3_b_xml_template_from_field_names_of_instance', ['C09', 'C08'], {'C09': 'R09.c', 'C08': 'R08.e'},
  (E, _XML_BODY, _XML_GENERATED.replace("for name in _XML_FIELDS", "for name in self.to_dict()")))
B('d3_b_xml_generated_table_is_parameter', ['C09', 'C08'], {'C09': 'R09.c', 'C08': 'R08.e'},
  (E, _AFTER_DEFAULT_MIME, _AFTER_DEFAULT_MIME + _XML_FIELDS_CONST),
  (E, "    def to_xml(self):\n", "    def to_xml(self, _XML_FIELDS=None):\n        _XML_FIELDS = _XML_FIELDS or [self.message]\n"),
  (E, _XML_BODY, _XML_GENERATED))
B('d3_b_adapt_pair_lookup_other_mimetype', ['C09'], 'R09.b',
  (E, _ADAPT_LOOKUP, "        try:\n            fmt_name, mimetype = MIME_SUPPORT_MAP[mimetype], DEFAULT_MIME\n        except KeyError:\n"
                     "            fmt_name, mimetype = 'text', 'text/plain'\n"))
B('d3_b_delegate_other_table', ['C09'], 'R09.b', (E, _AFTER_DEFAULT_MIME, _AFTER_DEFAULT_MIME + _SHARED_ADAPT), (A, _IMPORT_OLD, _IMPORT_NEW),
  (A, _DEFAULT_RENDER_FULL, "    return _adapt_to_accept(request, _error, ['text/html', 'text/plain'])\n"))
B('d3_b_delegate_ignores_table', ['C09'], 'R09.b',
  (E, _AFTER_DEFAULT_MIME, _AFTER_DEFAULT_MIME + _SHARED_ADAPT.replace("best_match(supported_mimetypes)", "best_match(ERROR_CODE_MAP)")),
  (A, _IMPORT_OLD, _IMPORT_NEW), (A, _DEFAULT_RENDER_FULL, "    return _adapt_to_accept(request, _error, MIME_SUPPORT_MAP)\n"))
B('d3_b_delegate_skips_adapt', ['C09'], 'R09.b',
  (E, _AFTER_DEFAULT_MIME, _AFTER_DEFAULT_MIME + _SHARED_ADAPT.replace("    error.adapt(best_match)\n", "    if best_match:\n        error.adapt(best_match)\n")),
  (E, _RENDER_ERROR, _RENDER_DELEGATES), (A, _IMPORT_OLD, _IMPORT_NEW),
  (A, _DEFAULT_RENDER_FULL, "    return _adapt_to_accept(request, _error, MIME_SUPPORT_MAP)\n"))
B('d3_b_delegate_returns_nothing', ['C09'], 'R09.b',
  (E, _AFTER_DEFAULT_MIME, _AFTER_DEFAULT_MIME + _SHARED_ADAPT.replace("    return error\n", "")), (A, _IMPORT_OLD, _IMPORT_NEW),
  (A, _DEFAULT_RENDER_FULL, "    return _adapt_to_accept(request, _error, MIME_SUPPORT_MAP)\n"))
B('d3_b_delegate_call_conditional', ['C09'], 'R09.b', (E, _AFTER_DEFAULT_MIME, _AFTER_DEFAULT_MIME + _SHARED_ADAPT), (A, _IMPORT_OLD, _IMPORT_NEW),
  (A, _DEFAULT_RENDER_FULL, "    if kwargs:\n        _adapt_to_accept(request, _error, MIME_SUPPORT_MAP)\n    return _error\n"))

# ------------------------------------------------------------------ fourth pass: a serialiser inherited from a mixin, registration driven by an argument
# the to_html / to_xml a class of the family *resolves to* is analysed (also when it lives in a mixin outside the family,
# the template name being a class attribute read per inheriting class); the (name, source) table of the registering function
# may be the argument of its module-level call
_CISE_HEAD = "class ContextualInternalServerError(InternalServerError):\n"
_CNF_HEAD = "class ContextualNotFound(NotFound):\n"
_TOHTML_500 = "    def to_html(self, *a, **kw):\n        render_ctx = self.to_dict()\n        return CONTEXTUAL_ENV.render('500.html', render_ctx)\n"
_TOHTML_404 = "    def to_html(self, *a, **kw):\n        render_ctx = self.to_dict()\n        return CONTEXTUAL_ENV.render('404.html', render_ctx)\n"
_PAGE_MIXIN = ("class _DebugPage(object):\n    _page = None\n\n    def to_html(self, *a, **kw):\n        render_ctx = self.to_dict()\n"
               "        return CONTEXTUAL_ENV.render(self._page, render_ctx)\n\n\n")
_CISE_MIXED = "class ContextualInternalServerError(_DebugPage, InternalServerError):\n"
_CNF_MIXED = "class ContextualNotFound(_DebugPage, NotFound):\n"
_REG_DEF = "def _register_templates():\n" + _REGISTER
_REG_DEF_ARG = ("def _register_templates(named_pages):\n    for page_name, page_source in named_pages:\n"
                "        CONTEXTUAL_ENV.register_source(page_name, page_source)\n")
_REG_CALL = "\n_register_templates()\n"
_REG_CALL_ARG = "\n_register_templates([('500.html', HTML_500_TMPL),\n                     ('404.html', HTML_404_TMPL)])\n"
_MIXIN_EDITS = ((E, _CISE_HEAD, _PAGE_MIXIN + _CISE_MIXED), (E, _CNF_HEAD, _CNF_MIXED),
                (E, _TOHTML_500, "    _page = '500.html'\n"), (E, _TOHTML_404, "    _page = '404.html'\n"))
T('d4_t_debug_page_mixin', ['C09', 'C08'], *_MIXIN_EDITS)
T('d4_t_register_table_argument', ['C09'], (CE, _REG_DEF, _REG_DEF_ARG), (CE, _REG_CALL, _REG_CALL_ARG))
T('d4_t_register_pair_arguments', ['C09'],
  (CE, _REG_DEF, "def _register_page(page_name, page_source):\n    CONTEXTUAL_ENV.register_source(page_name, page_source)\n"),
  (CE, _REG_CALL, "\n_register_page('500.html', HTML_500_TMPL)\n_register_page('404.html', page_source=HTML_404_TMPL)\n"))
T('d4_t_mixin_and_table_argument', ['C09'], *(_MIXIN_EDITS + ((CE, _REG_DEF, _REG_DEF_ARG), (CE, _REG_CALL, _REG_CALL_ARG))))
B('d4_b_mixin_page_not_registered', ['C09'], 'R09.d',
  *(_MIXIN_EDITS[:3] + ((E, _TOHTML_404, "    _page = '404_debug.html'\n"),)))
B('d4_b_mixin_interpolates_raw_fields', ['C09'], 'R09.c',
  (E, _CISE_HEAD, _PAGE_MIXIN.replace("        return CONTEXTUAL_ENV.render(self._page, render_ctx)\n",
                                      "        return '<h1>%s</h1><p>%s</p>' % (render_ctx['message'], render_ctx['detail'])\n") + _CISE_MIXED),
  *_MIXIN_EDITS[1:])
B('d4_b_mixin_xml_raw_detail', ['C09'], 'R09.c',
  (E, _CISE_HEAD, _PAGE_MIXIN + "class _RawXML(object):\n    def to_xml(self):\n        return '<http_error><detail>{0}</detail></http_error>'.format(self.detail)\n\n\n"
      "class ContextualInternalServerError(_RawXML, _DebugPage, InternalServerError):\n"), *_MIXIN_EDITS[1:])
B('d4_b_table_argument_misses_404', ['C09'], 'R09.d', (CE, _REG_DEF, _REG_DEF_ARG),
  (CE, _REG_CALL, "\n_register_templates([('500.html', HTML_500_TMPL)])\n"))
B('d4_b_table_argument_raw_filter_row', ['C09'], 'R09.d', (CE, _REG_DEF, _REG_DEF_ARG),
  (CE, _REG_CALL, "\n_register_templates([('500.html', HTML_500_TMPL),\n"
                  "                     ('404.html', HTML_404_TMPL.replace('<td>{request.path}</td>', '<td>{request.path|s}</td>'))])\n"))
B('d4_b_pair_arguments_crossed_name', ['C09'], 'R09.d',
  (CE, _REG_DEF, "def _register_page(page_name, page_source):\n    CONTEXTUAL_ENV.register_source(page_name, page_source)\n"),
  (CE, _REG_CALL, "\n_register_page('500.html', HTML_500_TMPL)\n_register_page('500.html', HTML_404_TMPL)\n"))

# ------------------------------------------------------------------ fifth pass: clauses that were not decided yet
# R09.b: what the negotiation answers when nothing is acceptable; the charset of the header is the body's; the format table is
# never modified at run time; an adapt() / render_error() of a subclass is held to the same rules.  R09.c: a to_escaped_dict() of a
# subclass.  R09.a: the handler's error-type slots carry the status of their situation; constructors of error types hand what they
# are given (code / message / detail / error_type ...) on to the next constructor
_RENDER_BM = "        best_match = request.accept_mimetypes.best_match(MIME_SUPPORT_MAP)\n        _error.adapt(best_match)\n        return _error\n"
_ISE_TO_DICT_DEF = "    def to_dict(self):\n        ret = super(InternalServerError, self).to_dict()\n"
_CEH_SLOT = "    not_found_type = ContextualNotFound\n"
_NF_SUPER = "        super(NotFound, self).__init__(*args, **kwargs)\n"
_ISE_SUPER = "        super(InternalServerError, self).__init__(detail, **kwargs)\n"
_ISE_POP = "        self.exc_info = kwargs.pop('exc_info', None)\n"
_MNA_SUPER = "        super(MethodNotAllowed, self).__init__(*args, **kwargs)\n"
_CNF_SUPER = "        super(ContextualNotFound, self).__init__(*a, **kw)\n"

T('d5_t_negotiation_default_plain_text', ['C09'], (E, _RENDER_BM, _RENDER_BM.replace("best_match(MIME_SUPPORT_MAP)", "best_match(MIME_SUPPORT_MAP, default=DEFAULT_MIME)")))
T('d5_t_negotiation_default_none', ['C09'], (A, "best_match(MIME_SUPPORT_MAP)", "best_match(MIME_SUPPORT_MAP, None)"))
T('d5_t_header_charset_keyword', ['C09'], (E, _ADAPT_HEADER, "        self.headers['Content-Type'] = get_content_type(mimetype=mimetype, charset=self.charset)\n"))
T('d5_t_adapt_override_defers', ['C09'],
  (E, _ISE_TO_DICT_DEF, "    def adapt(self, mimetype=None):\n        super(InternalServerError, self).adapt(mimetype)\n\n" + _ISE_TO_DICT_DEF))
T('d5_t_subclass_init_python3_super', ['C09'], (E, _NF_SUPER, "        super().__init__(*args, **kwargs)\n"),
  (E, _ISE_SUPER, "        super().__init__(detail=detail, **kwargs)\n"))
T('d5_t_subclass_init_base_named', ['C09'], (E, _MNA_SUPER, "        BadRequest.__init__(self, *args, **kwargs)\n"))
T('d5_t_handler_slots_of_subclass_handler', ['C09'],
  (E, "class _REPLDebuggedApplication(DebuggedApplication):", "class QuietErrorHandler(ErrorHandler):\n    not_found_type = Gone\n    not_found_type = NotFound\n    server_error_type = ContextualInternalServerError\n\n\n"
      "class _REPLDebuggedApplication(DebuggedApplication):"))
T('d5_t_render_error_override_negotiates', ['C09'],
  (E, _CEH_SLOT, _CEH_SLOT + "\n    def render_error(self, request, _error):\n        wanted = request.accept_mimetypes.best_match(list(MIME_SUPPORT_MAP))\n"
                            "        _error.adapt(wanted)\n        return _error\n"))

B('d5_b_negotiation_default_html', ['C09'], 'R09.b', (E, _RENDER_BM, _RENDER_BM.replace("best_match(MIME_SUPPORT_MAP)", "best_match(MIME_SUPPORT_MAP, default='text/html')")))
B('d5_b_negotiation_default_html_positional', ['C09'], 'R09.b', (A, "best_match(MIME_SUPPORT_MAP)", "best_match(MIME_SUPPORT_MAP, 'text/html')"))
B('d5_b_negotiation_default_unknown_type', ['C09'], 'R09.b', (A, "best_match(MIME_SUPPORT_MAP)", "best_match(MIME_SUPPORT_MAP, default='text/*')"))
B('d5_b_header_charset_literal', ['C09'], 'R09.b', (E, _ADAPT_HEADER, "        self.headers['Content-Type'] = get_content_type(mimetype, 'latin-1')\n"))
B('d5_b_header_charset_of_class', ['C09'], 'R09.b', (E, _ADAPT_HEADER, "        self.headers['Content-Type'] = get_content_type(mimetype, charset=BaseResponse.charset)\n"))
B('d5_b_table_caches_unknown_types', ['C09'], 'R09.b',
  (E, _ADAPT_LOOKUP, "        try:\n            fmt_name = MIME_SUPPORT_MAP[mimetype]\n        except KeyError:\n"
                     "            MIME_SUPPORT_MAP[mimetype] = 'text'\n            fmt_name, mimetype = 'text', 'text/plain'\n"))
B('d5_b_table_setdefault_lookup', ['C09'], 'R09.b',
  (E, _ADAPT_LOOKUP, "        fmt_name = MIME_SUPPORT_MAP.setdefault(mimetype, 'text')\n        if fmt_name == 'text':\n            mimetype = 'text/plain'\n"))
B('d5_b_table_pruned_by_application', ['C09'], 'R09.b',
  (A, "    best_match = request.accept_mimetypes.best_match(MIME_SUPPORT_MAP)\n", "    MIME_SUPPORT_MAP.pop('application/xml', None)\n    best_match = request.accept_mimetypes.best_match(MIME_SUPPORT_MAP)\n"))
B('d5_b_adapt_override_body_only', ['C09'], 'R09.b',
  (E, _ISE_TO_DICT_DEF, "    def adapt(self, mimetype=None):\n        self.data = self.to_html()\n\n" + _ISE_TO_DICT_DEF))
B('d5_b_adapt_override_defers_with_fixed_type', ['C09'], 'R09.b',
  (E, _ISE_TO_DICT_DEF, "    def adapt(self, mimetype=None):\n        super(InternalServerError, self).adapt('text/html')\n\n" + _ISE_TO_DICT_DEF))
B('d5_b_adapt_override_own_pairing_wrong', ['C09'], 'R09.b',
  (E, _ISE_TO_DICT_DEF, "    def adapt(self, mimetype=None):\n        try:\n            fmt_name = MIME_SUPPORT_MAP[mimetype]\n        except KeyError:\n"
                        "            fmt_name = 'text'\n        self.data = getattr(self, 'to_' + fmt_name)()\n"
                        "        self.headers['Content-Type'] = get_content_type(mimetype, self.charset)\n\n" + _ISE_TO_DICT_DEF))
B('d5_b_render_error_override_fixed_format', ['C09'], 'R09.b',
  (E, _CEH_SLOT, _CEH_SLOT + "\n    def render_error(self, request, _error):\n        _error.adapt('text/html')\n        return _error\n"))
B('d5_b_render_error_override_skips_adapt', ['C09'], 'R09.b',
  (E, _CEH_SLOT, _CEH_SLOT + "\n    def render_error(self, request, _error):\n        if request.accept_mimetypes:\n"
                            "            _error.adapt(request.accept_mimetypes.best_match(MIME_SUPPORT_MAP))\n        return _error\n"))
B('d5_b_escaped_dict_override_raw', ['C09'], 'R09.c',
  (E, _ISE_TO_DICT_DEF, "    def to_escaped_dict(self):\n        return dict((k, str(v)) for k, v in self.to_dict().items())\n\n" + _ISE_TO_DICT_DEF))
B('d5_b_escaped_dict_override_skips_exc_info', ['C09'], 'R09.c',
  (E, _ISE_TO_DICT_DEF, "    def to_escaped_dict(self):\n        ret = super(InternalServerError, self).to_escaped_dict()\n        ret['exc_info'] = repr(self.exc_info)\n"
                        "        return ret\n\n" + _ISE_TO_DICT_DEF))
B('d5_b_debug_handler_404_slot_is_500', ['C09'], 'R09.a', (E, _CEH_SLOT, "    not_found_type = ContextualInternalServerError\n"))
B('d5_b_handler_404_slot_is_bad_request', ['C09'], 'R09.a', (E, "    # 404\n    not_found_type = NotFound\n", "    # 404\n    not_found_type = BadRequest\n"))
B('d5_b_handler_500_slot_is_bad_gateway', ['C09'], 'R09.a', (E, "    server_error_type = InternalServerError\n", "    server_error_type = BadGateway\n"))
B('d5_b_handler_slot_not_an_error_type', ['C09'], 'R09.a', (E, "    method_not_allowed_type = MethodNotAllowed\n", "    method_not_allowed_type = ErrorHandler\n"))
B('d5_b_not_found_init_drops_kwargs', ['C09'], 'R09.a', (E, _NF_SUPER, "        super(NotFound, self).__init__(*args)\n"))
B('d5_b_server_error_init_drops_kwargs', ['C09'], 'R09.a', (E, _ISE_SUPER, "        super(InternalServerError, self).__init__(detail)\n"))
B('d5_b_server_error_init_takes_the_code', ['C09'], 'R09.a', (E, _ISE_POP, _ISE_POP + "        kwargs.pop('code', None)\n"))
B('d5_b_server_error_init_drops_detail', ['C09'], 'R09.a', (E, _ISE_SUPER, "        super(InternalServerError, self).__init__(**kwargs)\n"))
B('d5_b_method_not_allowed_init_fixed_message', ['C09'], 'R09.a', (E, _MNA_SUPER, "        super(MethodNotAllowed, self).__init__(*args, message=self.message, **kwargs)\n"))
B('d5_b_method_not_allowed_init_drops_args', ['C09'], 'R09.a', (E, _MNA_SUPER, "        super(MethodNotAllowed, self).__init__(**kwargs)\n"))
B('d5_b_debug_not_found_init_conditional_super', ['C09'], 'R09.a',
  (E, _CNF_SUPER, "        if self.request is not None:\n            super(ContextualNotFound, self).__init__(*a, **kw)\n"))
B('d5_b_debug_not_found_init_overwrites_code', ['C09'], 'R09.a', (E, _CNF_SUPER, "        kw['code'] = 404\n" + _CNF_SUPER))
T('d5_t_escaped_dict_override_extends', ['C09', 'C08'],
  (E, _ISE_TO_DICT_DEF, "    def to_escaped_dict(self):\n        ret = super(InternalServerError, self).to_escaped_dict()\n"
                        "        ret['exc_summary'] = html_escape(repr(self.exc_info), True)\n        return ret\n\n" + _ISE_TO_DICT_DEF))

# ------------------------------------------------------------------ sixth pass: what answers an uncaught exception, class-level defaults, attribute position
_UNCAUGHT_BASE = "        return eh.server_error_type(repr(exc_info),\n"
_UNCAUGHT_CTX = "        SEType = eh.server_error_type\n"
_HREF = "'<a target=\"_blank\" href=\"{error_type}\">'"
_MNA_DETAIL = "            self.detail = '%s Allowed methods: %r' % (self.detail,\n                                                      method_list)\n"
T('d6_t_uncaught_helper_with_extra_kwargs', ['C09', 'C08'],
  (E, "        eh = _application.error_handler\n        exc_info = eh.exc_info_type.from_current()\n        return eh.server_error_type(repr(exc_info),\n"
      "                                    exc_info=exc_info,\n                                    source_route=_route)\n",
      "        return self._wrap_current(_application, _route)\n\n    @staticmethod\n    def _wrap_current(_application, _route, **extra):\n"
      "        eh = _application.error_handler\n        exc_info = eh.exc_info_type.from_current()\n        error_type = eh.server_error_type\n"
      "        return error_type(repr(exc_info), exc_info=exc_info, source_route=_route, **extra)\n"))
T('d6_t_href_single_quoted', ['C09', 'C08'], (E, _HREF, "'<a target=\"_blank\" href=\\'{error_type}\\'>'"))
T('d6_t_mna_detail_named_first', ['C09'],
  (E, _MNA_DETAIL, "            with_methods = '%s Allowed methods: %r' % (self.detail, method_list)\n            self.detail = with_methods\n"))
B('d6_b_uncaught_answers_with_404_slot', ['C09'], 'R09.a', (E, _UNCAUGHT_BASE, "        return eh.not_found_type(repr(exc_info),\n"))
B('d6_b_debug_uncaught_fixed_class', ['C09'], 'R09.a', (E, _UNCAUGHT_CTX, "        SEType = ContextualNotFound\n"))
B('d6_b_uncaught_helper_returns_nothing', ['C09'], 'R09.a',
  (E, "        return eh.server_error_type(repr(exc_info),\n                                    exc_info=exc_info,\n                                    source_route=_route)\n",
      "        response = eh.server_error_type(repr(exc_info),\n                                        exc_info=exc_info,\n                                        source_route=_route)\n"))
B('d6_b_href_unquoted', ['C09'], 'R09.c', (E, _HREF, "'<a target=\"_blank\" href={error_type}>'"))
B('d6_b_xml_attribute_unquoted', ['C09'], 'R09.c',
  (E, "               '<error_type>{error_type}</error_type>'\n", "               '<error_type href={error_type}>{error_type}</error_type>'\n"))
B('d6_b_generated_xml_attribute_unquoted', ['C09'], 'R09.c', (E, _AFTER_DEFAULT_MIME, _AFTER_DEFAULT_MIME + _XML_FIELDS_CONST),
  (E, _XML_BODY, _XML_GENERATED.replace("'<{0}>{{{0}}}</{0}>'.format(name)", "'<field name={{{0}}}>{{{0}}}</field>'.format(name)")))
B('d6_b_allowed_methods_detail_on_the_class', ['C09'], 'R09.a', (E, _MNA_DETAIL, _MNA_DETAIL.replace("            self.detail = ", "            type(self).detail = ")))
B('d6_b_given_code_stored_on_the_class', ['C09'], 'R09.a', (E, _INIT_CODE, "        self.code = self.__class__.code = kwargs.pop('code', self.code)\n"))
B('d6_b_message_default_patched_on_the_class', ['C09'], 'R09.a', (E, _INIT_MESSAGE, _INIT_MESSAGE + "        HTTPException.message = self.message\n"))
B('d6_b_xml_closing_tag_typo', ['C09'], 'R09.c', (E, "               '<detail>{detail}</detail>'\n", "               '<detail>{detail}<detail>'\n"))
B('d6_b_xml_root_not_closed', ['C09'], 'R09.c', (E, "               '</http_error>').format(**params)\n", "               '<http_error>').format(**params)\n"))
B('d6_b_xml_module_template_two_roots', ['C09'], 'R09.c', (E, _AFTER_DEFAULT_MIME, _AFTER_DEFAULT_MIME + _XML_CONST.replace("              '</http_error>')\n", "              '</http_error><debug/>')\n")),
  (E, _XML_BODY, "        return _XML_SHAPE.format(**self.to_escaped_dict())\n"))
B('d6_b_xml_generated_elements_unclosed', ['C09'], 'R09.c', (E, _AFTER_DEFAULT_MIME, _AFTER_DEFAULT_MIME + _XML_FIELDS_CONST),
  (E, _XML_BODY, _XML_GENERATED.replace("'<{0}>{{{0}}}</{0}>'.format(name)", "'<{0}>{{{0}}}<{0}/>'.format(name)")))
T('d6_t_server_error_init_pops_detail_and_hands_it_on', ['C09'],
  (E, "    def __init__(self, detail=None, **kwargs):\n        self.exc_info = kwargs.pop('exc_info', None)\n        super(InternalServerError, self).__init__(detail, **kwargs)\n",
      "    def __init__(self, *args, **kwargs):\n        self.exc_info = kwargs.pop('exc_info', None)\n        message = kwargs.pop('message', self.message)\n"
      "        super(InternalServerError, self).__init__(*args, message=message, **kwargs)\n"))
B('d6_b_server_error_init_pops_message_and_keeps_it', ['C09'], 'R09.a',
  (E, "    def __init__(self, detail=None, **kwargs):\n        self.exc_info = kwargs.pop('exc_info', None)\n        super(InternalServerError, self).__init__(detail, **kwargs)\n",
      "    def __init__(self, *args, **kwargs):\n        self.exc_info = kwargs.pop('exc_info', None)\n        message = kwargs.pop('message', self.message)\n"
      "        super(InternalServerError, self).__init__(*args, **kwargs)\n"))

# ------------------------------------------------------------------ seventh pass: a constructor does not overwrite what the next one stored
_ISE_GUARD = "        if self.error_type is None:\n            try:\n                exc_type_name = self.exc_info.exc_type\n                exc_type = getattr(exceptions, exc_type_name)\n"
_ISE_TAIL = "                self.error_type = STDLIB_EXC_URL + exc_type.__name__\n            except Exception:\n                pass\n"
T('d7_t_error_type_filled_when_falsy', ['C09'], (E, "        if self.error_type is None:\n            try:\n", "        if not self.error_type:\n            try:\n"))
T('d7_t_error_type_early_return_when_given', ['C09'],
  (E, _ISE_GUARD + _ISE_TAIL, "        if self.error_type is not None:\n            return\n        try:\n            exc_type_name = self.exc_info.exc_type\n"
                              "            exc_type = getattr(exceptions, exc_type_name)\n            self.error_type = STDLIB_EXC_URL + exc_type.__name__\n"
                              "        except Exception:\n            pass\n"))
B('d7_b_error_type_always_derived', ['C09'], 'R09.a',
  (E, _ISE_GUARD + _ISE_TAIL, "        try:\n            exc_type_name = self.exc_info.exc_type\n            exc_type = getattr(exceptions, exc_type_name)\n"
                              "            self.error_type = STDLIB_EXC_URL + exc_type.__name__\n        except Exception:\n            pass\n"))
B('d7_b_error_type_guard_inverted', ['C09'], 'R09.a', (E, "        if self.error_type is None:\n            try:\n", "        if self.error_type is not None:\n            try:\n"))
B('d7_b_server_error_forces_its_code', ['C09'], 'R09.a', (E, _ISE_SUPER, _ISE_SUPER + "        self.code = type(self).code\n"))
B('d7_b_debug_not_found_resets_message', ['C09'], 'R09.a', (E, _CNF_SUPER, _CNF_SUPER + "        self.message = 'Not found'\n"))
B('d7_b_method_not_allowed_detail_after_super', ['C09'], 'R09.a',
  (E, "            self.detail = '%s Allowed methods: %r' % (self.detail,\n                                                      method_list)\n        super(MethodNotAllowed, self).__init__(*args, **kwargs)\n",
      "        super(MethodNotAllowed, self).__init__(*args, **kwargs)\n        if self.allowed_methods:\n            self.detail = 'Allowed methods: %r' % (method_list,)\n"))

# ------------------------------------------------------------------ eighth pass: the lookup of adapt() with a default no format can be
# (a private marker object, a constant outside the table); a body encoded in place (``if not isinstance(t, bytes): t = t.encode(..)``)
_ENC_BODY = "        if isinstance(text, bytes):\n            return text\n        return text.encode(self.charset, 'backslashreplace')\n"
_ENC_IN_PLACE = "        if not isinstance(text, bytes):\n            text = text.encode(self.charset, 'backslashreplace')\n        return text\n"
_MARKER = _AFTER_DEFAULT_MIME + "_NO_FORMAT = object()\n"
_MARKER_LOOKUP = "        fmt_name = MIME_SUPPORT_MAP.get(mimetype, _NO_FORMAT)\n        if fmt_name is _NO_FORMAT:\n            fmt_name, mimetype = 'text', 'text/plain'\n"
_ADAPT_BODY = "        self.data = self._encode(_method())\n"
_INIT_BODY = "        body = self._encode(self.to_text())\n"
T('d8_t_adapt_lookup_with_marker_default', ['C09', 'C08'], (E, _AFTER_DEFAULT_MIME, _MARKER), (E, _ADAPT_LOOKUP, _MARKER_LOOKUP))
T('d8_t_adapt_marker_told_by_equality_found_first', ['C09'], (E, _AFTER_DEFAULT_MIME, _MARKER),
  (E, _ADAPT_LOOKUP, "        fmt_name = MIME_SUPPORT_MAP.get(mimetype, _NO_FORMAT)\n        if fmt_name != _NO_FORMAT:\n            pass\n        else:\n"
                     "            fmt_name, mimetype = 'text', 'text/plain'\n"))
T('d8_t_adapt_lookup_with_empty_default', ['C09'],
  (E, _ADAPT_LOOKUP, "        fmt_name = MIME_SUPPORT_MAP.get(mimetype, '')\n        if not fmt_name:\n            fmt_name, mimetype = 'text', 'text/plain'\n"))
T('d8_t_adapt_lookup_with_empty_default_compared', ['C09'],
  (E, _ADAPT_LOOKUP, "        fmt_name = MIME_SUPPORT_MAP.get(mimetype, '')\n        if fmt_name == '':\n            fmt_name, mimetype = 'text', 'text/plain'\n"))
T('d8_t_body_encoded_in_place', ['C09', 'C08'], (E, _ENC_BODY, _ENC_IN_PLACE))
T('d8_t_body_encoded_in_place_bytes_arm_idle', ['C09'],
  (E, _ENC_BODY, "        if isinstance(text, bytes):\n            pass\n        else:\n            text = text.encode(self.charset, 'backslashreplace')\n        return text\n"))
T('d8_t_marker_default_and_body_encoded_in_place', ['C09'], (E, _AFTER_DEFAULT_MIME, _MARKER), (E, _ADAPT_LOOKUP, _MARKER_LOOKUP), (E, _ENC_BODY, _ENC_IN_PLACE))
B('d8_b_marker_test_inverted', ['C09'], 'R09.b', (E, _AFTER_DEFAULT_MIME, _MARKER),
  (E, _ADAPT_LOOKUP, _MARKER_LOOKUP.replace("fmt_name is _NO_FORMAT", "fmt_name is not _NO_FORMAT")))
B('d8_b_marker_fallback_keeps_mimetype', ['C09'], 'R09.b', (E, _AFTER_DEFAULT_MIME, _MARKER),
  (E, _ADAPT_LOOKUP, _MARKER_LOOKUP.replace("fmt_name, mimetype = 'text', 'text/plain'", "fmt_name = 'text'")))
B('d8_b_marker_fallback_mismatched_pair', ['C09'], 'R09.b', (E, _AFTER_DEFAULT_MIME, _MARKER),
  (E, _ADAPT_LOOKUP, _MARKER_LOOKUP.replace("'text', 'text/plain'", "'text', 'text/html'")))
B('d8_b_marker_is_a_format_of_the_table', ['C09'], 'R09.b', (E, _AFTER_DEFAULT_MIME, _AFTER_DEFAULT_MIME + "_NO_FORMAT = 'text'\n"),
  (E, _ADAPT_LOOKUP, _MARKER_LOOKUP.replace("fmt_name is _NO_FORMAT", "fmt_name == _NO_FORMAT")))
B('d8_b_other_marker_tested', ['C09'], 'R09.b', (E, _AFTER_DEFAULT_MIME, _MARKER + "_NO_TYPE = object()\n"),
  (E, _ADAPT_LOOKUP, _MARKER_LOOKUP.replace("fmt_name is _NO_FORMAT", "fmt_name is _NO_TYPE")))
B('d8_b_marker_rebound_by_a_function', ['C09'], 'R09.b',
  (E, _AFTER_DEFAULT_MIME, _MARKER + "\n\ndef _reset_marker(value):\n    global _NO_FORMAT\n    _NO_FORMAT = value\n\n"), (E, _ADAPT_LOOKUP, _MARKER_LOOKUP))
B('d8_b_empty_default_tested_for_none', ['C09'], 'R09.b',
  (E, _ADAPT_LOOKUP, "        fmt_name = MIME_SUPPORT_MAP.get(mimetype, '')\n        if fmt_name is None:\n            fmt_name, mimetype = 'text', 'text/plain'\n"))
B('d8_b_format_default_tested_by_truth', ['C09'], 'R09.b',
  (E, _ADAPT_LOOKUP, "        fmt_name = MIME_SUPPORT_MAP.get(mimetype, 'text')\n        if not fmt_name:\n            fmt_name, mimetype = 'text', 'text/plain'\n"))
B('d8_b_in_place_adapt_body_is_plain_text', ['C09'], 'R09.b', (E, _ENC_BODY, _ENC_IN_PLACE), (E, _ADAPT_BODY, "        self.data = self._encode(self.to_text())\n"))
B('d8_b_in_place_default_body_is_markup', ['C09'], 'R09.a', (E, _ENC_BODY, _ENC_IN_PLACE), (E, _INIT_BODY, "        body = self._encode(self.to_html())\n"))
B('d8_b_in_place_encodes_another_text', ['C09'], 'R09.b',
  (E, _ENC_BODY, "        if not isinstance(text, bytes):\n            text = self.message.encode(self.charset, 'backslashreplace')\n        return text\n"))
B('d8_b_in_place_body_rebound_after_encoding', ['C09'], 'R09.b',
  (E, _ENC_BODY, _ENC_IN_PLACE), (E, _ADAPT_BODY, "        body = self._encode(_method())\n        body = self._encode(self.to_text())\n        self.data = body\n"))

# ------------------------------------------------------------------ ninth pass: the way an error takes to a negotiating renderer --
# execute_error() hands back only what the route's render_error returned (anything else is an exception), and the application answers
# any exception from it with default_render_error()
_EXEC_GUARD = "        if not callable(self.render_error):\n            raise TypeError('render_error not set or not callable')\n"
_EXEC_RET = "        return inject(self.render_error, injectables)\n"
_DISPATCH_ERR = ("            try:\n                ret = ret.source_route.execute_error(**error_params)\n            except Exception:\n"
                 "                ret = default_render_error(**error_params)\n")
_DISPATCH_ERR_TAIL = "        if isinstance(ret, HTTPException):\n            error_params = dict(params, _error=ret)\n" + _DISPATCH_ERR + "        return ret\n"
_DISPATCH_EARLY = ("        if not isinstance(ret, HTTPException):\n            return ret\n        error_params = dict(params, _error=ret)\n"
                   "        try:\n            return ret.source_route.execute_error(**error_params)\n        except Exception:\n"
                   "            return default_render_error(**error_params)\n")
T('d9_t_exec_error_renderer_named_first', ['C09', 'C08'],
  (R, _EXEC_GUARD, "        render_error = self.render_error\n        if not callable(render_error):\n            raise TypeError('render_error not set or not callable')\n"),
  (R, _EXEC_RET, "        return inject(render_error, injectables)\n"))
T('d9_t_exec_error_result_named', ['C09'], (R, _EXEC_RET, "        response = inject(self.render_error, injectables)\n        return response\n"))
T('d9_t_exec_error_guard_after_injectables', ['C09'], (R, _EXEC_GUARD, ""),
  (R, _EXEC_RET, "        if callable(self.render_error):\n            return inject(self.render_error, injectables)\n        raise TypeError('render_error not set or not callable')\n"))
T('d9_t_dispatch_error_rendered_by_early_returns', ['C09', 'C08'], (A, _DISPATCH_ERR_TAIL, _DISPATCH_EARLY))
T('d9_t_dispatch_fallback_handler_names_exception', ['C09'], (A, _DISPATCH_ERR, _DISPATCH_ERR.replace("except Exception:", "except Exception as render_exc:")))
T('d9_t_dispatch_error_rendered_in_helper', ['C09'],
  (A, _DISPATCH_ERR_TAIL, "        if isinstance(ret, HTTPException):\n            ret = self._render_error_response(ret, params)\n        return ret\n\n"
                          "    @staticmethod\n    def _render_error_response(http_error, params):\n        error_params = dict(params, _error=http_error)\n"
                          "        try:\n            return http_error.source_route.execute_error(**error_params)\n        except Exception:\n"
                          "            return default_render_error(**error_params)\n"))
T('d9_t_exec_error_result_named_in_two_arms', ['C09'],
  (R, _EXEC_RET, "        if kwargs:\n            response = inject(self.render_error, dict(injectables))\n        else:\n"
                 "            response = inject(self.render_error, injectables)\n        return response\n"))
B('d9_b_exec_error_one_arm_hands_back_error', ['C09'], 'R09.b',
  (R, _EXEC_RET, "        if kwargs:\n            response = inject(self.render_error, dict(injectables))\n        else:\n"
                 "            response = _error\n        return response\n"))
B('d9_b_exec_error_hands_back_error_without_renderer', ['C09'], 'R09.b', (R, _EXEC_GUARD, "        if not callable(self.render_error):\n            return _error\n"))
B('d9_b_exec_error_hands_back_nonbreaking_errors', ['C09'], 'R09.b',
  (R, _EXEC_GUARD, _EXEC_GUARD + "        if not getattr(_error, 'is_breaking', True):\n            return _error\n"))
B('d9_b_exec_error_returns_nothing_without_renderer', ['C09'], 'R09.b', (R, _EXEC_GUARD, "        if not callable(self.render_error):\n            return\n"))
B('d9_b_exec_error_falls_off_without_renderer', ['C09'], 'R09.b', (R, _EXEC_GUARD, ""),
  (R, _EXEC_RET, "        if callable(self.render_error):\n            return inject(self.render_error, injectables)\n"))
B('d9_b_exec_error_swallows_renderer_failure', ['C09'], 'R09.b',
  (R, _EXEC_RET, "        try:\n            return inject(self.render_error, injectables)\n        except Exception:\n            return _error\n"))
B('d9_b_exec_error_named_result_replaced', ['C09'], 'R09.b',
  (R, _EXEC_RET, "        response = inject(self.render_error, injectables)\n        if response is None:\n            response = _error\n        return response\n"))
B('d9_b_dispatch_fallback_for_type_errors_only', ['C09'], 'R09.b', (A, _DISPATCH_ERR, _DISPATCH_ERR.replace("except Exception:", "except TypeError:")))
B('d9_b_dispatch_fallback_only_when_debug', ['C09'], 'R09.b',
  (A, _DISPATCH_ERR, _DISPATCH_ERR.replace("                ret = default_render_error(**error_params)\n",
                                           "                if getattr(self, 'debug', False):\n                    ret = default_render_error(**error_params)\n")))
B('d9_b_dispatch_no_fallback', ['C09'], 'R09.b', (A, _DISPATCH_ERR, "            ret = ret.source_route.execute_error(**error_params)\n"))
B('d9_b_dispatch_fallback_hands_error_on', ['C09'], 'R09.b',
  (A, _DISPATCH_ERR, _DISPATCH_ERR.replace("                ret = default_render_error(**error_params)\n", "                ret = error_params['_error']\n")))
B('d9_b_dispatch_fallback_result_dropped', ['C09'], 'R09.b',
  (A, _DISPATCH_ERR, _DISPATCH_ERR.replace("                ret = default_render_error(**error_params)\n", "                default_render_error(**error_params)\n")))
B('d9_b_dispatch_rendered_response_replaced', ['C09'], 'R09.b', (A, _DISPATCH_ERR, _DISPATCH_ERR + "            ret = error_params['_error']\n"))
B('d9_b_dispatch_early_returns_narrow_handler', ['C09'], 'R09.b', (A, _DISPATCH_ERR_TAIL, _DISPATCH_EARLY.replace("except Exception:", "except (TypeError, ValueError):")))
B('d9_b_dispatch_early_returns_fallback_only_when_debug', ['C09'], 'R09.b',
  (A, _DISPATCH_ERR_TAIL, _DISPATCH_EARLY.replace("            return default_render_error(**error_params)\n",
                                                  "            if getattr(self, 'debug', False):\n                return default_render_error(**error_params)\n"
                                                  "            return ret\n")))

# ------------------------------------------------------------------ round g: base / override agreement on the keys of to_dict()
# (R09.e: a key an override deletes / reads by subscript / pops without default from super().to_dict() is stored by the base on every path)
_ISE_STORE = "        ret['exc_info'] = glom(self, T.exc_info.to_dict(), skip_exc=Exception)\n"
_CISE_DEL = "        del ret['exc_info']\n"
_ISE_COND = ("        exc_info = glom(self, T.exc_info.to_dict(), skip_exc=Exception)\n"
             "        if exc_info is not None:\n            ret['exc_info'] = exc_info\n")
B('g9_b_base_stores_key_conditionally_override_deletes', ['C09'], 'R09.e', (E, _ISE_STORE, _ISE_COND))
B('g9_b_base_early_return_before_store', ['C09'], 'R09.e',
  (E, _ISE_STORE, "        if getattr(self, 'exc_info', None) is None:\n            return ret\n" + _ISE_STORE))
B('g9_b_base_drops_key_override_deletes', ['C09'], 'R09.e', (E, _ISE_STORE, ""))
B('g9_b_base_conditional_override_pops_without_default', ['C09'], 'R09.e', (E, _ISE_STORE, _ISE_COND), (E, _CISE_DEL, "        ret.pop('exc_info')\n"))
B('g9_b_base_conditional_override_reads_by_subscript', ['C09'], 'R09.e',
  (E, _ISE_STORE, _ISE_COND), (E, _CISE_DEL, "        summary = ret['exc_info']\n        ret['exc_summary'] = summary\n"))
B('g9_b_base_merge_conditional_override_deletes', ['C09'], 'R09.e',
  (E, _ISE_TO_DICT, "        ret = super(InternalServerError, self).to_dict()\n"
                    "        exc_info = glom(self, T.exc_info.to_dict(), skip_exc=Exception)\n"
                    "        if exc_info is None:\n            return ret\n"
                    "        return dict(ret, exc_info=exc_info)\n"))
B('g9_b_base_pops_own_key_again', ['C09'], 'R09.e',
  (E, _ISE_STORE, _ISE_STORE + "        if ret['exc_info'] is None:\n            ret.pop('exc_info')\n"))
T('g9_t_base_conditional_override_pops_with_default', ['C09'], (E, _ISE_STORE, _ISE_COND), (E, _CISE_DEL, "        ret.pop('exc_info', None)\n"))
T('g9_t_base_conditional_override_deletes_under_membership', ['C09'],
  (E, _ISE_STORE, _ISE_COND), (E, _CISE_DEL, "        if 'exc_info' in ret:\n            del ret['exc_info']\n"))
T('g9_t_base_conditional_override_deletes_in_try', ['C09'],
  (E, _ISE_STORE, _ISE_COND), (E, _CISE_DEL, "        try:\n            del ret['exc_info']\n        except KeyError:\n            pass\n"))
T('g9_t_base_merge_override_deletes', ['C09'],
  (E, _ISE_TO_DICT, "        return dict(super(InternalServerError, self).to_dict(),\n"
                    "                    exc_info=glom(self, T.exc_info.to_dict(), skip_exc=Exception))\n"))
T('g9_t_base_display_merge_override_pops', ['C09'],
  (E, _ISE_TO_DICT, "        return {**super(InternalServerError, self).to_dict(),\n"
                    "                'exc_info': glom(self, T.exc_info.to_dict(), skip_exc=Exception)}\n"),
  (E, _CISE_DEL, "        ret.pop('exc_info')\n"))
T('g9_t_base_store_in_both_arms', ['C09'],
  (E, _ISE_STORE, "        if getattr(self, 'exc_info', None) is None:\n            ret['exc_info'] = None\n        else:\n    " + _ISE_STORE))
T('g9_t_base_update_keyword_override_deletes', ['C09'],
  (E, _ISE_STORE, "        ret.update(exc_info=glom(self, T.exc_info.to_dict(), skip_exc=Exception))\n"))

# ------------------------------------------------------------------ round g: no error leaves dispatch unrendered (R09.b), whichever way the loop ends
_LOOP_TAIL = ("            if not isinstance(ret, HTTPException):\n                # TODO: verify behavior\n                break\n"
              "            if not getattr(ret, 'source_route', None):\n                ret.source_route = route\n"
              "            if getattr(ret, 'is_breaking', True):\n                break\n            else:\n"
              "                dispatch_state.add_exception(ret)\n\n")
_RENDER_IN_LOOP = ("                error_params = dict(params, _error=ret)\n                try:\n"
                   "                    return ret.source_route.execute_error(**error_params)\n                except Exception:\n"
                   "                    return default_render_error(**error_params)\n")
_LOOP_TAIL_RENDERS_BREAKING = ("            if not isinstance(ret, HTTPException):\n                return ret\n"
                               "            if not getattr(ret, 'source_route', None):\n                ret.source_route = route\n"
                               "            if getattr(ret, 'is_breaking', True):\n" + _RENDER_IN_LOOP +
                               "            dispatch_state.add_exception(ret)\n\n")
B('g9_b_dispatch_renders_breaking_errors_only_in_loop', ['C09'], 'R09.b',
  (A, _LOOP_TAIL + _DISPATCH_ERR_TAIL, _LOOP_TAIL_RENDERS_BREAKING + "        return ret\n"))
B('g9_b_dispatch_tail_renders_breaking_errors_only', ['C09'], 'R09.b',
  (A, "        if isinstance(ret, HTTPException):\n            error_params", "        if isinstance(ret, HTTPException) and getattr(ret, 'is_breaking', True):\n            error_params"))
B('g9_b_dispatch_tail_hands_client_errors_back', ['C09'], 'R09.b',
  (A, "        if isinstance(ret, HTTPException):\n            error_params",
      "        if isinstance(ret, HTTPException):\n            if not getattr(ret, 'is_breaking', True):\n                return ret\n            error_params"))
B('g9_b_dispatch_loop_returns_error_of_branch_route', ['C09'], 'R09.b',
  (A, "            if getattr(ret, 'is_breaking', True):\n                break\n",
      "            if route.is_branch and self.debug:\n                return ret\n            if getattr(ret, 'is_breaking', True):\n                break\n"))
B('g9_b_dispatch_error_rebound_after_the_test', ['C09'], 'R09.b',
  (A, _DISPATCH_ERR_TAIL, _DISPATCH_EARLY.replace("            return ret\n", "            if dispatch_state.exceptions:\n"
                                                  "                ret = dispatch_state.exceptions[-1]\n            return ret\n", 1)))
T('g9_t_dispatch_breaking_rendered_in_loop_rest_after_it', ['C09'],
  (A, _LOOP_TAIL + _DISPATCH_ERR_TAIL, _LOOP_TAIL_RENDERS_BREAKING + _DISPATCH_ERR_TAIL))
T('g9_t_dispatch_error_test_named', ['C09'],
  (A, "        if isinstance(ret, HTTPException):\n            error_params", "        is_error = isinstance(ret, HTTPException)\n        if is_error:\n            error_params"))
T('g9_t_dispatch_tail_inverted', ['C09'],
  (A, _DISPATCH_ERR_TAIL, "        if not isinstance(ret, HTTPException):\n            pass\n        else:\n            error_params = dict(params, _error=ret)\n" + _DISPATCH_ERR + "        return ret\n"))
T('g9_t_dispatch_tail_tuple_of_classes', ['C09'],
  (A, "        if isinstance(ret, HTTPException):\n            error_params", "        if isinstance(ret, (HTTPException,)):\n            error_params"))


# ------------------------------------------------------------------ round x: the format table / the markup in a new private module
_FMT = 'clastic/_fmt_tables.py'
_FMT2 = 'clastic/_fmt_tables2.py'
_TABLE_SRC = ("MIME_SUPPORT_MAP = {'text/html': 'html',\n                    'application/json': 'json',\n"
              "                    'text/plain': 'text',\n                    'application/xml': 'xml'}\nDEFAULT_MIME = 'text/plain'\n")
_ERR_IMPORT_ANCHOR = "from ._contextual_errors import CONTEXTUAL_ENV\n"
_APP_TABLE_IMPORT = "from .errors import (HTTPException,\n                     MIME_SUPPORT_MAP,\n"
_APP_TABLE_MOVED = "from ._fmt_tables import MIME_SUPPORT_MAP\nfrom .errors import (HTTPException,\n"
_TABLE_MOVED = ((_FMT, '__NEW__', _TABLE_SRC), (E, _TABLE_SRC, ''),
                (E, _ERR_IMPORT_ANCHOR, _ERR_IMPORT_ANCHOR + "from ._fmt_tables import MIME_SUPPORT_MAP, DEFAULT_MIME\n"))
T('x9_t_table_in_new_module_imported_back', ['C09'], *_TABLE_MOVED)
T('x9_t_table_in_new_module_application_imports_it_there', ['C09'], *(_TABLE_MOVED + ((A, _APP_TABLE_IMPORT, _APP_TABLE_MOVED),)))
B('x9_b_table_in_new_module_application_has_another', ['C09'], 'R09.b',
  *(_TABLE_MOVED + ((_FMT2, '__NEW__', _TABLE_SRC.replace("                    'application/xml': 'xml'}", "                    'application/xml': 'text'}")),
                    (A, _APP_TABLE_IMPORT, _APP_TABLE_MOVED.replace('_fmt_tables', '_fmt_tables2')))))
B('x9_b_table_in_new_module_modified_there', ['C09'], 'R09.b',
  (_FMT, '__NEW__', _TABLE_SRC + "\n\ndef support(mime, fmt):\n    MIME_SUPPORT_MAP[mime] = fmt\n"), *_TABLE_MOVED[1:])
_TO_XML = ("        params = self.to_escaped_dict()\n        ret = ('<http_error>'\n               '<code>{code}</code>'\n"
           "               '<message>{message}</message>'\n               '<detail>{detail}</detail>'\n"
           "               '<error_type>{error_type}</error_type>'\n               '</http_error>').format(**params)\n        return ret\n")
_XML_MOD = ("XML_SKELETON = ('<http_error>'\n                '<code>{code}</code>'\n                '<message>{message}</message>'\n"
            "                '<detail>{detail}</detail>'\n                '<error_type>{error_type}</error_type>'\n                '</http_error>')\n"
            "\n\ndef fill_xml(fields):\n    return XML_SKELETON.format(**fields)\n")
_XML_IMPORTED = (E, _ERR_IMPORT_ANCHOR, _ERR_IMPORT_ANCHOR + "from ._fmt_tables import fill_xml\n")
T('x9_t_to_xml_hands_escaped_mapping_to_function_of_new_module', ['C09'],
  (_FMT, '__NEW__', _XML_MOD), _XML_IMPORTED, (E, _TO_XML, "        return fill_xml(self.to_escaped_dict())\n"))
T('x9_t_to_xml_names_mapping_then_hands_it_on', ['C09'],
  (_FMT, '__NEW__', _XML_MOD), _XML_IMPORTED, (E, _TO_XML, "        fields = self.to_escaped_dict()\n        return fill_xml(fields)\n"))
B('x9_b_to_xml_function_of_new_module_unescapes_a_field', ['C09'], 'R09.c',
  (_FMT, '__NEW__', _XML_MOD.replace("format(**fields)", "format(**dict(fields, detail=fields['detail'].replace('&lt;', '<')))")),
  _XML_IMPORTED, (E, _TO_XML, "        return fill_xml(self.to_escaped_dict())\n"))
B('x9_b_to_xml_function_of_new_module_unquoted_attribute', ['C09'], 'R09.c',
  (_FMT, '__NEW__', _XML_MOD.replace("'<error_type>{error_type}</error_type>'", "'<error_type ref={error_type}></error_type>'")),
  _XML_IMPORTED, (E, _TO_XML, "        return fill_xml(self.to_escaped_dict())\n"))
B('x9_b_to_xml_hands_raw_dict_to_function_of_new_module', ['C09'], 'R09.c',
  (_FMT, '__NEW__', _XML_MOD), _XML_IMPORTED, (E, _TO_XML, "        return fill_xml(self.to_dict())\n"))
