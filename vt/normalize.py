"""Front-end normalisation of the analysed modules (applied by the loader to every module of the tree).

The rules in vt/props recognise constructs by role, but a role is easier to find when equivalent spellings of
the same program have one shape.  Three behaviour-preserving rewrites are applied to the *parsed tree* (the
source on disk is never touched; node positions are kept, so reports still point at real lines):

  1. sugar canonicalisation (``Canon``): ``getattr(x, 'a')`` -> ``x.a``; ``not a == b`` -> ``a != b``;
     ``f(a, *PAIR)`` -> ``f(a, 'x', 'y')`` for a module-level, never re-bound ``PAIR = ('x', 'y')``;
     ``dict([(k, v) for ..])`` -> ``{k: v for ..}``; ``if c: t = a / else: t = b`` -> ``t = a if c else b``;
     ``while 1`` -> ``while True``;
  2. inlining of *private, non-anchor* helpers (``inline_helpers``): a call of a module-level ``_helper(..)`` or of
     ``self._helper(..)`` whose definition is a plain function (no generator, no recursion, no nested
     definitions) is replaced by the helper's statements, parameters substituted, early returns turned into
     structured control flow.  "Non-anchor" = the helper's name is not mentioned by any rule of the checker
     (the set of identifiers occurring as string literals in vt/*.py and vt/props/*.py): functions the rules
     name keep their identity; functions a refactoring introduced are dissolved into their callers;
  3. keyword -> positional arguments for calls whose callee resolves to a function of the analysed tree
     (``kw_to_pos``, needs the other modules' signatures and is therefore run by the loader after indexing);
  4. local closures used as plain helpers (``def reg(a, b): ...`` at the top of a function body, only ever called,
     after its definition, from the function's own scope) are inlined like private helpers (``Inliner._local_helpers``);
  6. ``for t in self._gen(a): BODY`` over a private generator that is one loop ending in its only ``yield`` becomes that
     loop with ``t = <yielded>; BODY`` in place of the yield (``Inliner._expand_for``);
  5. loops over a short literal tuple / list of *variables* (``for src in (self.resources, overrides): d.update(src)``)
     are unrolled (``Unroll``); loops over constants (slot-name tables) keep their shape.

  7. helpers imported *by name* from a private module of the package (``from ._priv import helper``) are expanded like the
     module's own private helpers when every free name of their body means the same in both modules (``collect_imported_helpers``).

Anything the inliner cannot restructure soundly (returns inside nested loops, ``finally`` with a pending
continuation, ...) is left as the call it was: normalisation never guesses.
"""
import ast
import copy
import os
import re

_IDENT = re.compile(r'^[A-Za-z_][A-Za-z0-9_]*$')


class CannotInline(Exception):
    pass


# ---------------------------------------------------------------------------------------------- anchors
_ANCHORS = None


def anchor_names():
    """Identifiers the checker's own rules mention as string literals (function / class / method names)."""
    global _ANCHORS
    if _ANCHORS is not None:
        return _ANCHORS
    here = os.path.dirname(os.path.abspath(__file__))
    names = set()
    # (the variant corpora -- variants.py and the per-package variants_<pkg>.py -- are test data, not rules)
    files = [os.path.join(here, f) for f in os.listdir(here) if f.endswith('.py') and f != 'normalize.py' and not f.startswith('variants')]
    pd = os.path.join(here, 'props')
    files += [os.path.join(pd, f) for f in os.listdir(pd) if f.endswith('.py')]
    for p in files:
        try:
            with open(p) as f:
                tree = ast.parse(f.read())
        except (IOError, SyntaxError):
            continue
        for n in ast.walk(tree):
            if isinstance(n, ast.Constant) and isinstance(n.value, str) and len(n.value) < 80:
                for part in re.split(r'[^A-Za-z0-9_]+', n.value):
                    if part and _IDENT.match(part):
                        names.add(part)
    _ANCHORS = names
    return names


# ---------------------------------------------------------------------------------------------- sugar
_NEG = {ast.Eq: ast.NotEq, ast.NotEq: ast.Eq, ast.Lt: ast.GtE, ast.GtE: ast.Lt, ast.Gt: ast.LtE, ast.LtE: ast.Gt,
        ast.In: ast.NotIn, ast.NotIn: ast.In, ast.Is: ast.IsNot, ast.IsNot: ast.Is}


def module_const_tuples(tree):
    """Module-level names bound exactly once in the whole module -- by a top-level ``NAME = (<constants>)`` -- and
    never re-bound, augmented, deleted, declared global or shadowed by a parameter / local of any function:
    name -> the tuple display.  ``f(*NAME)`` then passes exactly these constants, in order."""
    stores = {}
    for n in ast.walk(tree):
        if isinstance(n, ast.Name) and isinstance(n.ctx, (ast.Store, ast.Del)):
            stores[n.id] = stores.get(n.id, 0) + 1
        elif isinstance(n, ast.arg):
            stores[n.arg] = stores.get(n.arg, 0) + 2
        elif isinstance(n, (ast.FunctionDef, ast.AsyncFunctionDef, ast.ClassDef)):
            stores[n.name] = stores.get(n.name, 0) + 2
        elif isinstance(n, (ast.Global, ast.Nonlocal)):
            for x in n.names:
                stores[x] = stores.get(x, 0) + 2
        elif isinstance(n, ast.alias):
            nm = (n.asname or n.name).split('.')[0]
            stores[nm] = stores.get(nm, 0) + 2
        elif isinstance(n, ast.ExceptHandler) and n.name:
            stores[n.name] = stores.get(n.name, 0) + 2
    out = {}
    for st in tree.body:
        if isinstance(st, ast.Assign) and len(st.targets) == 1 and isinstance(st.targets[0], ast.Name) and \
                isinstance(st.value, ast.Tuple) and st.value.elts and \
                all(isinstance(e, ast.Constant) and isinstance(e.value, (str, int, float, bool, type(None))) for e in st.value.elts) and \
                stores.get(st.targets[0].id) == 1:
            out[st.targets[0].id] = st.value
    return out


class Canon(ast.NodeTransformer):
    def __init__(self, const_tuples=None):
        self.const_tuples = const_tuples or {}

    def visit_Call(self, node):
        self.generic_visit(node)
        f = node.func
        # ``f(a, *PAIR)`` with PAIR a module-level tuple of constants  ->  ``f(a, 'x', 'y')``
        if self.const_tuples and any(isinstance(a, ast.Starred) and isinstance(a.value, ast.Name) and a.value.id in self.const_tuples
                                     for a in node.args):
            args = []
            for a in node.args:
                if isinstance(a, ast.Starred) and isinstance(a.value, ast.Name) and a.value.id in self.const_tuples:
                    args.extend(ast.copy_location(ast.Constant(value=e.value), a) for e in self.const_tuples[a.value.id].elts)
                else:
                    args.append(a)
            node.args = args
        if isinstance(f, ast.Name) and f.id == 'getattr' and len(node.args) == 2 and not node.keywords and \
                isinstance(node.args[1], ast.Constant) and isinstance(node.args[1].value, str) and _IDENT.match(node.args[1].value):
            return ast.copy_location(ast.Attribute(value=node.args[0], attr=node.args[1].value, ctx=ast.Load()), node)
        if isinstance(f, ast.Name) and f.id == 'dict' and len(node.args) == 1 and not node.keywords and \
                isinstance(node.args[0], (ast.ListComp, ast.GeneratorExp)):
            comp = node.args[0]
            if isinstance(comp.elt, ast.Tuple) and len(comp.elt.elts) == 2:
                return ast.copy_location(ast.DictComp(key=comp.elt.elts[0], value=comp.elt.elts[1], generators=comp.generators), node)
        return node

    def visit_Subscript(self, node):
        self.generic_visit(node)
        # ``{'a': 'x', 'b': 'y'}['b']`` -> ``'y'`` (a constant table indexed by a constant: appears when a class-level
        # table is substituted for ``self.TABLE`` in a dissolved helper)
        d = node.value
        if isinstance(node.ctx, ast.Load) and isinstance(d, ast.Dict) and isinstance(node.slice, ast.Constant) and d.keys and \
                all(isinstance(k, ast.Constant) for k in d.keys) and all(isinstance(v, ast.Constant) for v in d.values):
            hits = [v for k, v in zip(d.keys, d.values) if type(k.value) is type(node.slice.value) and k.value == node.slice.value]
            if len(hits) == 1 and len(set((type(k.value), k.value) for k in d.keys)) == len(d.keys):
                return ast.copy_location(ast.Constant(value=hits[0].value), node)
        return node

    def visit_UnaryOp(self, node):
        self.generic_visit(node)
        if isinstance(node.op, ast.Not) and isinstance(node.operand, ast.Compare) and len(node.operand.ops) == 1:
            op = node.operand.ops[0]
            # ordering comparisons are not negated (not (a >= b) differs from a < b for NaN / partial orders)
            if type(op) in (ast.Eq, ast.NotEq, ast.In, ast.NotIn, ast.Is, ast.IsNot):
                return ast.copy_location(ast.Compare(left=node.operand.left, ops=[_NEG[type(op)]()],
                                                     comparators=node.operand.comparators), node)
        return node

    def visit_While(self, node):
        self.generic_visit(node)
        if isinstance(node.test, ast.Constant) and node.test.value == 1 and node.test.value is not True:
            node.test = ast.copy_location(ast.Constant(value=True), node.test)
        return node

    # ``t = a if c else b``  ->  ``if c: t = a / else: t = b`` (and the same for ``return``): path conditions are
    # then visible to the CFG-based rules whichever spelling the source uses
    def visit_Assign(self, node):
        self.generic_visit(node)
        if isinstance(node.value, ast.IfExp) and len(node.targets) == 1 and isinstance(node.targets[0], (ast.Name, ast.Attribute)):
            v = node.value
            a = ast.copy_location(ast.Assign(targets=[copy.deepcopy(node.targets[0])], value=v.body), node)
            b = ast.copy_location(ast.Assign(targets=[copy.deepcopy(node.targets[0])], value=v.orelse), node)
            return ast.copy_location(ast.If(test=v.test, body=[self.visit_Assign(a)], orelse=[self.visit_Assign(b)]), node)
        return node

    # ``cond and act()`` / ``cond or act()`` as a statement  ->  ``if cond: act()`` / ``if not cond: act()``: the guard
    # becomes a path condition like any other
    def visit_Expr(self, node):
        self.generic_visit(node)
        v = node.value
        if isinstance(v, ast.BoolOp) and len(v.values) >= 2:
            last = ast.copy_location(ast.Expr(value=v.values[-1]), node)
            head = v.values[0] if len(v.values) == 2 else ast.copy_location(ast.BoolOp(op=v.op, values=v.values[:-1]), v)
            test = head if isinstance(v.op, ast.And) else ast.copy_location(ast.UnaryOp(op=ast.Not(), operand=head), head)
            return ast.copy_location(ast.If(test=test, body=[self.visit_Expr(last)], orelse=[]), node)
        return node

    def visit_Return(self, node):
        self.generic_visit(node)
        if isinstance(node.value, ast.IfExp):
            v = node.value
            a = ast.copy_location(ast.Return(value=v.body), node)
            b = ast.copy_location(ast.Return(value=v.orelse), node)
            return ast.copy_location(ast.If(test=v.test, body=[a], orelse=[b]), node)
        return node


# ---------------------------------------------------------------------------------------------- inliner
_DEFS = (ast.FunctionDef, ast.AsyncFunctionDef, ast.ClassDef, ast.Lambda)


def _map_blocks(node, fn):
    """Apply ``fn(list of statements) -> list`` to every statement list below ``node`` (innermost first), not entering
    nested function / class definitions."""
    for field in ('body', 'orelse', 'finalbody'):
        sub = getattr(node, field, None)
        if isinstance(sub, list) and sub and isinstance(sub[0], ast.stmt):
            for s in sub:
                if not isinstance(s, _DEFS):
                    _map_blocks(s, fn)
            setattr(node, field, fn(sub))
    if isinstance(node, ast.Try):
        for h in node.handlers:
            for s in h.body:
                if not isinstance(s, _DEFS):
                    _map_blocks(s, fn)
            h.body = fn(h.body)


def _contains(stmts, types, stop=(ast.FunctionDef, ast.AsyncFunctionDef, ast.ClassDef, ast.Lambda)):
    todo = list(stmts)
    while todo:
        n = todo.pop()
        if isinstance(n, types):
            return True
        for c in ast.iter_child_nodes(n):
            if not isinstance(c, stop):
                todo.append(c)
    return False


def _contains_return(stmts):
    return _contains(stmts, ast.Return)


def _falls(stmts):
    """Can control fall off the end of this statement list? (syntactic, conservative: True when unsure)"""
    if not stmts:
        return True
    s = stmts[-1]
    if isinstance(s, (ast.Return, ast.Raise, ast.Continue, ast.Break)):
        return False
    if isinstance(s, ast.If):
        return _falls(s.body) or _falls(s.orelse)
    if isinstance(s, ast.Try):
        if s.finalbody and not _falls(s.finalbody):
            return False
        return _falls(s.body + s.orelse) or any(_falls(h.body) for h in s.handlers)
    if isinstance(s, ast.With):
        return _falls(s.body)
    return True


def _nonempty(stmts, like):
    if stmts:
        return stmts
    return [ast.copy_location(ast.Pass(), like)]


class _Elim(object):
    """Turn ``return`` statements of a helper body into structured control flow."""

    DUP_LIMIT = 6

    def __init__(self, emit):
        self.emit = emit    # Return node -> list of statements

    def _dup_ok(self, k, n):
        if n > 1 and sum(1 for s in k for _ in ast.walk(s) if isinstance(_, ast.stmt)) > self.DUP_LIMIT:
            raise CannotInline('continuation would be duplicated')

    def seq(self, stmts, k):
        if not stmts:
            return list(k)
        s, rest = stmts[0], stmts[1:]
        if isinstance(s, ast.Return):
            return self.emit(s)
        if not _contains_return([s]):
            return [s] + self.seq(rest, k)
        if isinstance(s, ast.If):
            k2 = self.seq(rest, k)
            bf, of = _falls(s.body), _falls(s.orelse)
            self._dup_ok(k2, int(bf) + int(of))
            # (a continuation that goes to both arms is copied: one statement object must not sit at two places of the tree)
            new = ast.If(test=s.test, body=_nonempty(self.seq(s.body, k2 if bf else []), s),
                         orelse=self.seq(s.orelse, (copy.deepcopy(k2) if bf else k2) if of else []))
            return [ast.copy_location(new, s)]
        if isinstance(s, ast.Try):
            if _contains_return(s.finalbody):
                raise CannotInline('return in finally')
            k2 = self.seq(rest, k)
            body_ret = _contains_return(s.body)
            if body_ret and _falls(s.body):
                raise CannotInline('conditional return inside a try body')
            if body_ret and s.orelse:
                raise CannotInline('return in a try body that has an else clause')
            if k2 and s.finalbody:
                raise CannotInline('finally with a pending continuation')
            b_falls = (not body_ret) and _falls(s.body + s.orelse)
            hf = [_falls(h.body) for h in s.handlers]
            # a part that returned now *assigns and falls through*, so the continuation cannot stay behind the
            # try statement: it moves into the else clause (normal completion of the body) and into every handler
            # that used to fall through
            self._dup_ok(k2, int(b_falls) + sum(1 for f in hf if f))
            new_body = self.seq(s.body, [])
            new_orelse = self.seq(s.orelse, k2 if b_falls else [])
            new_handlers = [ast.copy_location(ast.ExceptHandler(type=h.type, name=h.name, body=_nonempty(self.seq(h.body, copy.deepcopy(k2) if f else []), h)), h)
                            for h, f in zip(s.handlers, hf)]
            new = ast.Try(body=_nonempty(new_body, s), handlers=new_handlers, orelse=new_orelse, finalbody=s.finalbody)
            return [ast.copy_location(new, s)]
        if isinstance(s, (ast.For, ast.While)):
            if _contains_return(s.orelse):
                raise CannotInline('return in a loop else clause')
            if _contains(s.body, ast.Break, stop=(ast.FunctionDef, ast.AsyncFunctionDef, ast.ClassDef, ast.Lambda, ast.For, ast.While)):
                raise CannotInline('loop with both break and return')
            for inner in ast.walk(ast.Module(body=s.body, type_ignores=[])):
                if isinstance(inner, (ast.For, ast.While)) and _contains_return(inner.body + inner.orelse):
                    raise CannotInline('return inside a nested loop')
            new_body = self._loop_body(s.body)
            new_orelse = self.seq(list(s.orelse) + list(rest), k)
            if isinstance(s, ast.For):
                new = ast.For(target=s.target, iter=s.iter, body=new_body, orelse=new_orelse, type_comment=None)
            else:
                new = ast.While(test=s.test, body=new_body, orelse=new_orelse)
            return [ast.copy_location(new, s)]
        if isinstance(s, ast.With):
            if _falls(s.body):
                raise CannotInline('conditional return inside a with block')
            new = ast.With(items=s.items, body=_nonempty(self.seq(s.body, []), s), type_comment=None)
            return [ast.copy_location(new, s)]
        raise CannotInline('return inside %s' % type(s).__name__)

    def _loop_body(self, stmts):
        out = []
        for s in stmts:
            if isinstance(s, ast.Return):
                out.extend(self.emit(s))
                out.append(ast.copy_location(ast.Break(), s))
                return out
            if not _contains_return([s]):
                out.append(s)
            elif isinstance(s, ast.If):
                out.append(ast.copy_location(ast.If(test=s.test, body=_nonempty(self._loop_body(s.body), s), orelse=self._loop_body(s.orelse)), s))
            elif isinstance(s, ast.Try) and not _contains_return(s.finalbody):
                out.append(ast.copy_location(ast.Try(
                    body=_nonempty(self._loop_body(s.body), s),
                    handlers=[ast.copy_location(ast.ExceptHandler(type=h.type, name=h.name, body=_nonempty(self._loop_body(h.body), h)), h) for h in s.handlers],
                    orelse=self._loop_body(s.orelse), finalbody=s.finalbody), s))
            else:
                raise CannotInline('return inside %s in a loop' % type(s).__name__)
        return out


class _Subst(ast.NodeTransformer):
    def __init__(self, mapping, rename):
        self.mapping, self.rename = mapping, rename

    def visit_Name(self, node):
        if node.id in self.mapping and isinstance(node.ctx, ast.Load):
            return ast.copy_location(copy.deepcopy(self.mapping[node.id]), node)
        if node.id in self.rename:
            return ast.copy_location(ast.Name(id=self.rename[node.id], ctx=node.ctx), node)
        return node

    def visit_ExceptHandler(self, node):
        self.generic_visit(node)
        if node.name in self.rename:
            node.name = self.rename[node.name]
        return node

    def visit_FunctionDef(self, node):   # nested defs are excluded by eligibility; do not descend
        return node

    def visit_Lambda(self, node):
        # lambda parameters shadow: only substitute names that are not parameters of the lambda
        params = set(a.arg for a in node.args.posonlyargs + node.args.args + node.args.kwonlyargs)
        inner = _Subst(dict((k, v) for k, v in self.mapping.items() if k not in params),
                       dict((k, v) for k, v in self.rename.items() if k not in params))
        node.body = inner.visit(node.body)
        return node


def _simple_arg(e):
    if isinstance(e, (ast.Name, ast.Constant)):
        return True
    if isinstance(e, ast.Attribute):
        return _simple_arg(e.value)
    return False


def _timeless_default(e):
    """A default-argument expression that denotes the same object whether it is evaluated once (when the ``def`` runs) or
    at every call: constants, names / dotted names (references to existing objects), signed numbers, tuples of such, and
    lambdas (stateless).  Calls, displays of mutable containers, comprehensions, subscripts, operators are not."""
    if isinstance(e, (ast.Constant, ast.Name, ast.Lambda)):
        return True
    if isinstance(e, ast.Attribute):
        return _simple_arg(e)
    if isinstance(e, ast.UnaryOp) and isinstance(e.op, (ast.USub, ast.UAdd, ast.Not)):
        return isinstance(e.operand, ast.Constant)
    if isinstance(e, ast.Tuple):
        return all(_timeless_default(x) for x in e.elts)
    return False


def _stored_names(stmts):
    out = set()
    for s in stmts:
        for n in ast.walk(s):
            if isinstance(n, ast.Name) and isinstance(n.ctx, (ast.Store, ast.Del)):
                out.add(n.id)
            elif isinstance(n, ast.ExceptHandler) and n.name:
                out.add(n.name)
            elif isinstance(n, (ast.Import, ast.ImportFrom)):
                for a in n.names:
                    out.add((a.asname or a.name).split('.')[0])
            elif isinstance(n, ast.comprehension):
                pass
    return out


def _all_names(node):
    return set(n.id for n in ast.walk(node) if isinstance(n, ast.Name)) | \
        set(a.arg for n in ast.walk(node) if isinstance(n, ast.arguments) for a in n.posonlyargs + n.args + n.kwonlyargs)


def _walk_same_scope(node):
    """Nodes of a statement that execute in the enclosing function's own scope and at the statement's own time."""
    todo = [node]
    while todo:
        n = todo.pop()
        yield n
        for c in ast.iter_child_nodes(n):
            if isinstance(c, (ast.FunctionDef, ast.AsyncFunctionDef, ast.ClassDef, ast.Lambda, ast.GeneratorExp)):
                continue
            todo.append(c)


class Helper(object):
    def __init__(self, node, kind, cls=None):
        self.node, self.kind, self.cls = node, kind, cls   # kind: 'func' | 'method' | 'static' | 'class'

    @property
    def name(self):
        return self.node.name


def _kw_consumed(fn):
    """The function reads its ``**kw`` parameter other than to pass it on as ``g(.., **kw)``."""
    if fn.args.kwarg is None:
        return False
    kw = fn.args.kwarg.arg
    passed = set(id(k.value) for n in ast.walk(fn) if isinstance(n, ast.Call) for k in n.keywords if k.arg is None and isinstance(k.value, ast.Name))
    return any(isinstance(n, ast.Name) and n.id == kw and id(n) not in passed for n in ast.walk(fn))


def _eligible_def(fn, any_name=False):
    if not isinstance(fn, ast.FunctionDef):
        return None
    if (not fn.name.startswith('_') and not any_name) or (fn.name.startswith('__') and fn.name.endswith('__')):
        return None
    a = fn.args
    if a.vararg:
        return None
    if a.kwarg is not None:
        # ``**kw`` is acceptable when the helper only passes it on (``g(.., **kw)``): the caller's mapping can then stand
        # for the copy the call would make -- nothing in the helper can tell the difference
        kw = a.kwarg.arg
        passed = set(id(k.value) for n in ast.walk(fn) if isinstance(n, ast.Call) for k in n.keywords if k.arg is None and isinstance(k.value, ast.Name))
        fn._vt_kw_consumed = False
        for n in ast.walk(fn):
            if isinstance(n, ast.Name) and n.id == kw and id(n) not in passed:
                # the helper looks into / hands on / changes the mapping itself: it then gets its own fresh dict
                # (exactly what a call builds), see Inliner._bind -- unless it re-binds the name
                if not isinstance(n.ctx, ast.Load):
                    return None
                fn._vt_kw_consumed = True
            if isinstance(n, ast.arg) and n.arg == kw and n is not a.kwarg:
                return None
    kind = 'func'
    for d in fn.decorator_list:
        if isinstance(d, ast.Name) and d.id == 'staticmethod':
            kind = 'static'
        elif isinstance(d, ast.Name) and d.id == 'classmethod':
            kind = 'class'
        else:
            return None
    body = fn.body
    if _contains(body, (ast.Yield, ast.YieldFrom, ast.Await, ast.Global, ast.Nonlocal), stop=()):
        return None
    if _contains(body, (ast.FunctionDef, ast.AsyncFunctionDef, ast.ClassDef), stop=()):
        return None
    for n in ast.walk(fn):
        if isinstance(n, ast.Call) and isinstance(n.func, ast.Name) and n.func.id in ('locals', 'vars', 'super', 'eval', 'exec'):
            return None
        if isinstance(n, ast.Call) and ((isinstance(n.func, ast.Name) and n.func.id == fn.name) or
                                        (isinstance(n.func, ast.Attribute) and n.func.attr == fn.name)):
            return None    # recursive
    if sum(1 for n in ast.walk(fn) if isinstance(n, ast.stmt)) > 60:
        return None
    return kind


def _bound_once(tree, name):
    n = 0
    for x in ast.walk(tree):
        if isinstance(x, (ast.FunctionDef, ast.AsyncFunctionDef, ast.ClassDef)) and x.name == name:
            n += 1
        elif isinstance(x, ast.Name) and x.id == name and isinstance(x.ctx, (ast.Store, ast.Del)):
            n += 1
        elif isinstance(x, ast.arg) and x.arg == name:
            n += 1
        elif isinstance(x, ast.alias) and (x.asname or x.name).split('.')[0] == name:
            n += 1
    return n == 1


def _calls_itself(fn):
    return any(isinstance(n, ast.Call) and ((isinstance(n.func, ast.Name) and n.func.id == fn.name) or
                                            (isinstance(n.func, ast.Attribute) and n.func.attr == fn.name)) for n in ast.walk(fn))


def collect_helpers(tree, anchors):
    mod_helpers, cls_helpers = {}, {}
    method_names = {}
    for st in tree.body:
        if isinstance(st, ast.ClassDef):
            for m in st.body:
                if isinstance(m, ast.FunctionDef):
                    method_names.setdefault(m.name, []).append(st.name)
    for st in tree.body:
        if isinstance(st, ast.FunctionDef) and st.name not in anchors:
            kind = _eligible_def(st)
            if kind == 'func':
                mod_helpers[st.name] = Helper(st, 'func')
        elif isinstance(st, ast.ClassDef):
            for m in st.body:
                if isinstance(m, ast.FunctionDef) and m.name not in anchors:
                    kind = _eligible_def(m)
                    if kind is None and st.name.startswith('_') and not st.name.startswith('__') and st.name not in anchors and \
                            not m.name.startswith('_') and not _calls_itself(m) and _bound_once(tree, st.name):
                        # a static / class method with a public name on a *private* class (``_Options.from_kwargs(kw)``):
                        # the class is the private helper
                        fake = copy.copy(m)
                        fake.name = '_' + m.name
                        kind = _eligible_def(fake)
                        if kind not in ('static', 'class'):
                            kind = None
                    if kind is None or len(method_names.get(m.name, [])) != 1:
                        continue      # overridden / duplicated somewhere in the module: dynamic dispatch
                    cls_helpers[(st.name, m.name)] = Helper(m, 'method' if kind == 'func' else kind, st.name)
    # a module-level name re-bound elsewhere is not a stable callee
    rebound = set()
    for st in ast.walk(tree):
        if isinstance(st, ast.Assign):
            for t in st.targets:
                if isinstance(t, ast.Name) and t.id in mod_helpers:
                    rebound.add(t.id)
    for r in rebound:
        mod_helpers.pop(r, None)
    return mod_helpers, cls_helpers


def collect_named_class_helpers(tree, anchors):
    """Static / class methods of a *private* module-level class, whatever their own name (``_Options.from_kwargs``):
    (class name, method name) -> Helper.  A call that names the class explicitly -- ``_Options.from_kwargs(kw)`` -- runs
    exactly that function with ``cls`` = the class when the class name is bound once in the module (the ``class``
    statement), the class has no metaclass, and its body binds the method name once (the ``def``)."""
    out = {}
    bound = {}
    for n in ast.walk(tree):
        if isinstance(n, ast.Name) and isinstance(n.ctx, (ast.Store, ast.Del)):
            bound[n.id] = bound.get(n.id, 0) + 1
        elif isinstance(n, (ast.FunctionDef, ast.AsyncFunctionDef, ast.ClassDef)):
            bound[n.name] = bound.get(n.name, 0) + 1
        elif isinstance(n, (ast.Global, ast.Nonlocal)):
            for x in n.names:
                bound[x] = bound.get(x, 0) + 2
        elif isinstance(n, ast.alias):
            nm = (n.asname or n.name).split('.')[0]
            bound[nm] = bound.get(nm, 0) + 1
    for st in tree.body:
        if not isinstance(st, ast.ClassDef) or not st.name.startswith('_') or st.name.startswith('__') or st.name in anchors:
            continue
        if st.keywords or st.decorator_list or bound.get(st.name) != 1:
            continue
        in_body = {}
        for m in st.body:
            for nm in ([m.name] if isinstance(m, (ast.FunctionDef, ast.AsyncFunctionDef, ast.ClassDef)) else _stored_names([m])):
                in_body[nm] = in_body.get(nm, 0) + 1
        for m in st.body:
            if isinstance(m, ast.FunctionDef) and m.name not in anchors and not m.name.startswith('_') and in_body.get(m.name) == 1:
                kind = _eligible_def(m, any_name=True)
                if kind in ('static', 'class'):
                    out[(st.name, m.name)] = Helper(m, kind, st.name)
    return out


# ---------------------------------------------------------------------------------------------- context managers
_WITH_BODY = '__vt_with_body__'
_KW_PASS = '__vt_kw_pass__'


def _is_cm_decorator(d):
    return (isinstance(d, ast.Name) and d.id == 'contextmanager') or \
        (isinstance(d, ast.Attribute) and d.attr == 'contextmanager' and isinstance(d.value, ast.Name) and d.value.id == 'contextlib')


def _cm_shape(fn):
    """A ``@contextmanager`` generator with exactly one ``yield`` statement in straight-line position (top level of the
    body or of (nested) ``try`` bodies) and no ``return``: -> (the yield statement, tail) where ``tail`` says that nothing
    but ``finally`` clauses runs after the yield on normal completion.  None when the shape is anything else."""
    ys = [n for n in ast.walk(fn) if isinstance(n, (ast.Yield, ast.YieldFrom))]
    body = fn.body
    if body and isinstance(body[-1], ast.Return) and body[-1].value is None:
        body = body[:-1]          # a bare ``return`` closing the generator
    if len(ys) != 1 or not isinstance(ys[0], ast.Yield) or _contains_return(body):
        return None
    found = []

    def search(stmts, tail):
        for i, s in enumerate(stmts):
            last = tail and i == len(stmts) - 1
            if isinstance(s, ast.Expr) and s.value is ys[0]:
                found.append((s, last))
                return True
            if isinstance(s, ast.Try) and any(n is ys[0] for n in ast.walk(ast.Module(body=s.body, type_ignores=[]))):
                return search(s.body, last and not s.orelse)
        return False
    if not search(body, True) or not found:
        return None
    return found[0]


def _eligible_cm(fn, anchors):
    if not isinstance(fn, ast.FunctionDef) or fn.name in anchors or not fn.name.startswith('_') or fn.name.startswith('__'):
        return None
    decos = [d for d in fn.decorator_list if not (isinstance(d, ast.Name) and d.id == 'staticmethod')]
    if len(decos) != 1 or not _is_cm_decorator(decos[0]):
        return None
    shape = _cm_shape(fn)
    if shape is None:
        return None
    # everything else as for a plain helper: judged on a copy without the decorator and the yield
    fake = copy.deepcopy(fn)
    if isinstance(fake.body[-1], ast.Return) and fake.body[-1].value is None and len(fake.body) > 1:
        fake.body = fake.body[:-1]
    fake.decorator_list = [d for d in fake.decorator_list if isinstance(d, ast.Name) and d.id == 'staticmethod']
    for n in ast.walk(fake):
        for field in ('body', 'orelse', 'finalbody'):
            sub = getattr(n, field, None)
            if isinstance(sub, list):
                for i, st in enumerate(sub):
                    if isinstance(st, ast.Expr) and isinstance(st.value, ast.Yield):
                        v = st.value.value
                        sub[i] = ast.copy_location(ast.Expr(value=ast.Tuple(elts=[ast.Name(id=_WITH_BODY, ctx=ast.Load())] +
                                                                            ([v] if v is not None else []), ctx=ast.Load())), st)
    kind = _eligible_def(fake)
    if kind is None:
        return None
    return kind, fake, shape[1]


def collect_context_managers(tree, anchors):
    mod, cls = {}, {}
    counts = {}
    for st in tree.body:
        if isinstance(st, ast.ClassDef):
            for m in st.body:
                if isinstance(m, ast.FunctionDef):
                    counts[m.name] = counts.get(m.name, 0) + 1
    for st in tree.body:
        if isinstance(st, ast.FunctionDef):
            r = _eligible_cm(st, anchors)
            if r is not None and r[0] == 'func':
                h = Helper(r[1], 'func')
                h.tail, h.orig = r[2], st
                mod[st.name] = h
        elif isinstance(st, ast.ClassDef):
            for m in st.body:
                r = _eligible_cm(m, anchors) if isinstance(m, ast.FunctionDef) else None
                if r is not None and counts.get(m.name) == 1:
                    h = Helper(r[1], 'method' if r[0] == 'func' else r[0], st.name)
                    h.tail, h.orig = r[2], m
                    cls[(st.name, m.name)] = h
    for st in ast.walk(tree):
        if isinstance(st, ast.Assign):
            for t in st.targets:
                if isinstance(t, ast.Name):
                    mod.pop(t.id, None)
    return mod, cls


# ---------------------------------------------------------------------------------------------- generators driving a for loop
_YIELD_HERE = '__vt_yield_here__'


def _eligible_gen(fn, anchors):
    """A private, non-anchor generator whose body is straight-line statements followed by ONE loop whose last top-level
    statement is the generator's only ``yield`` (an expression statement): -> (kind, fake definition with the yield replaced
    by a placeholder).  ``for T in gen(..): BODY`` is then the generator's loop with ``T = <value>; BODY`` where the yield
    stood (see Inliner._expand_for)."""
    if not isinstance(fn, ast.FunctionDef) or fn.name in anchors or not fn.name.startswith('_') or fn.name.startswith('__'):
        return None
    ys = [n for n in ast.walk(fn) if isinstance(n, (ast.Yield, ast.YieldFrom))]
    if len(ys) != 1 or not isinstance(ys[0], ast.Yield):
        return None
    body = list(fn.body)
    if body and isinstance(body[0], ast.Expr) and isinstance(body[0].value, ast.Constant) and isinstance(body[0].value.value, str):
        body = body[1:]
    if body and isinstance(body[-1], ast.Return) and body[-1].value is None:
        body = body[:-1]
    if not body or not isinstance(body[-1], (ast.For, ast.While)) or body[-1].orelse or _contains_return(body):
        return None
    loop = body[-1]
    last = loop.body[-1]
    if not (isinstance(last, ast.Expr) and last.value is ys[0]):
        return None
    fake = copy.deepcopy(fn)
    fake.decorator_list = [d for d in fake.decorator_list if isinstance(d, ast.Name) and d.id == 'staticmethod']
    if len(fake.decorator_list) != len(fn.decorator_list):
        return None
    if isinstance(fake.body[-1], ast.Return):
        fake.body = fake.body[:-1]
    floop = fake.body[-1]
    v = floop.body[-1].value.value
    floop.body[-1] = ast.copy_location(ast.Expr(value=ast.Tuple(elts=[ast.Name(id=_YIELD_HERE, ctx=ast.Load())] +
                                                                ([v] if v is not None else []), ctx=ast.Load())), floop.body[-1])
    kind = _eligible_def(fake)
    if kind is None:
        return None
    return kind, fake


def collect_generators(tree, anchors):
    mod, cls, counts = {}, {}, {}
    for st in tree.body:
        if isinstance(st, ast.ClassDef):
            for m in st.body:
                if isinstance(m, ast.FunctionDef):
                    counts[m.name] = counts.get(m.name, 0) + 1
    for st in tree.body:
        if isinstance(st, ast.FunctionDef):
            r = _eligible_gen(st, anchors)
            if r is not None and r[0] == 'func':
                h = Helper(r[1], 'func')
                h.orig = st
                mod[st.name] = h
        elif isinstance(st, ast.ClassDef):
            for m in st.body:
                r = _eligible_gen(m, anchors) if isinstance(m, ast.FunctionDef) else None
                if r is not None and counts.get(m.name) == 1:
                    h = Helper(r[1], 'method' if r[0] == 'func' else r[0], st.name)
                    h.orig = m
                    cls[(st.name, m.name)] = h
    for st in ast.walk(tree):
        if isinstance(st, ast.Assign):
            for t in st.targets:
                if isinstance(t, ast.Name):
                    mod.pop(t.id, None)
    return mod, cls


# ---------------------------------------------------------------------------------------------- private classes used as records
def _self_fields_assigned(stmts):
    """Fields ``self.f`` assigned on every path through this statement list that completes normally."""
    out = set()
    for s in stmts:
        if isinstance(s, ast.Assign):
            for t in s.targets:
                for e in (t.elts if isinstance(t, (ast.Tuple, ast.List)) else [t]):
                    if isinstance(e, ast.Attribute) and isinstance(e.value, ast.Name) and e.value.id == 'self':
                        out.add(e.attr)
        elif isinstance(s, ast.If):
            a, b = _self_fields_assigned(s.body), _self_fields_assigned(s.orelse)
            if not _falls(s.body):
                out |= b
            elif not _falls(s.orelse):
                out |= a
            else:
                out |= a & b
        elif isinstance(s, ast.With):
            out |= _self_fields_assigned(s.body)
    return out


class ObjClass(object):
    def __init__(self, node):
        self.node = node
        self.methods, self.static, self.consts, self.fields = {}, set(), {}, set()


def collect_object_classes(tree, anchors):
    """Private module-level classes that are plain records with methods: no bases (or ``object``), no decorators, a body of
    plain methods / staticmethods and constant class attributes; in every method ``self`` occurs only as ``self.<name>``;
    every field a method stores is also stored at the top level of ``__init__`` (a fresh object never shows a field of an
    older one).  An instance that never leaves the function that creates it can then be replaced by one local variable per
    field (see Inliner._dissolve_objects)."""
    out = {}
    for st in tree.body:
        if not isinstance(st, ast.ClassDef) or not st.name.startswith('_') or st.name.startswith('__') or st.name in anchors:
            continue
        if st.decorator_list or st.keywords or any(not (isinstance(b, ast.Name) and b.id == 'object') for b in st.bases):
            continue
        oc = ObjClass(st)
        ok = True
        for m in st.body:
            if isinstance(m, ast.Expr) and isinstance(m.value, ast.Constant) and isinstance(m.value.value, str):
                continue
            if isinstance(m, ast.Assign) and len(m.targets) == 1 and isinstance(m.targets[0], ast.Name) and \
                    not _contains([m.value], (ast.Call, ast.Lambda, ast.ListComp, ast.SetComp, ast.DictComp, ast.GeneratorExp, ast.Name), stop=()):
                oc.consts[m.targets[0].id] = m.value
                continue
            if isinstance(m, ast.FunctionDef) and (m.name == '__init__' or not (m.name.startswith('__') and m.name.endswith('__'))):
                # (method names are not compared with the anchors: the class is private and only dissolved where its
                # instance never leaves the creating function -- no rule can mean a method of such an object)
                fake = copy.copy(m)
                fake.name = '_' + m.name.strip('_')
                kind = _eligible_def(fake)
                if any(isinstance(n, ast.Call) and isinstance(n.func, ast.Attribute) and n.func.attr == m.name for n in ast.walk(m)):
                    kind = None      # recursive
                if kind == 'static':
                    oc.static.add(m.name)
                elif kind != 'func' or not m.args.args or m.args.args[0].arg != 'self':
                    ok = False
                    break
                oc.methods[m.name] = m
                continue
            ok = False
            break
        if not ok or not oc.methods:
            continue
        init_top = set()
        stored = set()
        for name, m in oc.methods.items():
            if name in oc.static:
                continue
            attr_selfs = set(id(n.value) for n in ast.walk(m) if isinstance(n, ast.Attribute) and isinstance(n.value, ast.Name) and n.value.id == 'self')
            for n in ast.walk(m):
                if isinstance(n, ast.Name) and n.id == 'self' and id(n) not in attr_selfs:
                    ok = False       # self escapes (passed on, returned, stored)
                if isinstance(n, ast.arg) and n.arg == 'self' and n is not m.args.args[0]:
                    ok = False
                if isinstance(n, ast.Attribute) and isinstance(n.value, ast.Name) and n.value.id == 'self' and isinstance(n.ctx, (ast.Store, ast.Del)):
                    if isinstance(n.ctx, ast.Del):
                        ok = False
                    stored.add(n.attr)
            if name == '__init__':
                init_top = _self_fields_assigned(m.body)
        if not ok or not stored <= init_top or (stored & set(oc.methods)) or (stored & set(oc.consts)):
            continue
        oc.fields = stored
        # every ``self.x`` read names a field, a method (as the callee of a call) or a class constant
        for name, m in oc.methods.items():
            callees = set(id(n.func) for n in ast.walk(m) if isinstance(n, ast.Call))
            for n in ast.walk(m):
                if isinstance(n, ast.Attribute) and isinstance(n.value, ast.Name) and n.value.id == 'self' and name not in oc.static:
                    if n.attr in oc.fields or n.attr in oc.consts:
                        continue
                    if n.attr in oc.methods and id(n) in callees:
                        continue
                    ok = False
        if ok:
            out[st.name] = oc
    return out


class Inliner(object):
    def __init__(self, tree, anchors, foreign=None):
        self.tree = tree
        self.mod_helpers, self.cls_helpers = collect_helpers(tree, anchors)
        for k, h in getattr(tree, '_vt_imported_helpers', {}).items():
            self.mod_helpers.setdefault(k, h)     # helpers imported by name from a private module of the package
        self.named_cls_helpers = collect_named_class_helpers(tree, anchors)
        # foreign(name) -> True when another module of the analysed tree mentions ``name`` (None: unknown, assume it does)
        self.foreign = foreign
        self.cm_mod, self.cm_cls = collect_context_managers(tree, anchors)
        self.gen_mod, self.gen_cls = collect_generators(tree, anchors)
        self.obj_classes = collect_object_classes(tree, anchors) if foreign is not None else {}
        self.used = set()           # ids of helper definitions expanded at least once
        self.shared_names = set()   # locals standing for the fields of a dissolved object: never renamed
        self.objects = 0
        self.count = 0
        self.log = []
        self.anchors = anchors
        self.local_helpers = {}     # closures defined in the function being processed (see _local_helpers)
        self.shadowed = set()       # names the function being processed binds itself
        # single-inheritance chains inside the module: ``self._helper(..)`` in a subclass method names the helper
        # defined by a base class of the same module (collect_helpers admits a method name only when exactly one
        # class of the module defines it, so no class on the chain overrides it)
        self.cls_bases, self.cls_assigned = {}, {}
        for st in tree.body:
            if isinstance(st, ast.ClassDef):
                self.cls_bases[st.name] = None if st.name in self.cls_bases else list(st.bases)
                names = self.cls_assigned.setdefault(st.name, set())
                for cst in st.body:
                    if isinstance(cst, (ast.FunctionDef, ast.AsyncFunctionDef, ast.ClassDef)):
                        continue
                    names |= _stored_names([cst])

    def _inherited_helper(self, cls_name, attr, table=None):
        """The helper ``attr`` that ``self.attr`` / ``cls.attr`` names inside class ``cls_name``: defined there or in
        a base class of the same module (left-to-right, depth-first over the bases; collect_helpers admits a method name
        only when exactly one class of the module defines it, so the first definition found is the only one).  A base
        that is not a class of this module could define the name too: that is excluded only when the name is private
        and no other module of the tree mentions it (``foreign``)."""
        table = self.cls_helpers if table is None else table
        opaque = [False]
        seen = set()

        def search(cur):
            if cur in seen:
                return None
            seen.add(cur)
            if (cur, attr) in table:
                return table[(cur, attr)]
            if attr in self.cls_assigned.get(cur, ()):
                opaque[0] = True
                return None
            for b in self.cls_bases.get(cur) or []:
                if isinstance(b, ast.Name) and b.id == 'object':
                    continue
                if isinstance(b, ast.Name) and self.cls_bases.get(b.id) is not None:
                    h = search(b.id)
                    if h is not None or opaque[0]:
                        return h
                else:
                    # a class of another module: it may define the name unless nobody else mentions it
                    if not (attr.startswith('_') and not attr.startswith('__') and self.foreign is not None and not self.foreign(attr)):
                        opaque[0] = True
                        return None
            return None
        if self.cls_bases.get(cls_name) is None:
            return None
        return search(cls_name)

    def _local_helpers(self, fn):
        """Closures that are plain local helpers: ``def reg(a, b): ...`` at the top level of ``fn``'s body, never re-bound,
        used only as the callee of calls that follow the definition.  Their free variables are ``fn``'s locals, read at
        call time -- exactly what the inlined body reads."""
        out = {}
        for i, st in enumerate(fn.body):
            if not isinstance(st, ast.FunctionDef) or st.name in self.anchors or st.decorator_list:
                continue
            fake = copy.copy(st)
            fake.name = '_' + st.name.lstrip('_')
            if _eligible_def(fake) != 'func':
                continue
            if any(isinstance(n, ast.Call) and isinstance(n.func, ast.Name) and n.func.id == st.name for n in ast.walk(st)):
                continue
            if any(not isinstance(d, ast.Constant) for d in st.args.defaults + [d for d in st.args.kw_defaults if d is not None]):
                continue      # a default is evaluated when the closure is defined, not where it is called
            uses = [n for n in ast.walk(fn) if isinstance(n, ast.Name) and n.id == st.name]
            callees = set(id(n.func) for n in ast.walk(fn) if isinstance(n, ast.Call) and isinstance(n.func, ast.Name))
            binds = [n for n in ast.walk(fn) if isinstance(n, (ast.FunctionDef, ast.ClassDef)) and n is not st and n is not fn and n.name == st.name]
            if binds or not uses or any(not isinstance(u.ctx, ast.Load) or id(u) not in callees for u in uses):
                continue
            # the closure must not be called from another nested function / lambda / comprehension (different scope),
            # nor before its definition
            later = set(id(n) for s2 in fn.body[i + 1:] for n in _walk_same_scope(s2))
            if any(id(u) not in later for u in uses):
                continue
            # a name the closure binds locally that the enclosing function also uses would need ``nonlocal`` to be shared:
            # it is not shared, and the inliner renames it
            out[st.name] = Helper(st, 'func')
        return out

    # -- which helper does this call name? ------------------------------------------------------------
    def _helper_of(self, call, cls_name):
        f = call.func
        if any(isinstance(a, ast.Starred) for a in call.args):
            return None, None
        stars = [k for k in call.keywords if k.arg is None]
        if stars:
            # f(a, **kw) is followed only into a helper that itself declares ``**kw`` as a pure pass-through (see
            # _eligible_def) and when the mapping is a plain name
            h, recv = self._helper_of_plain(call, cls_name)
            if h is None or h.node.args.kwarg is None or len(stars) != 1 or not isinstance(stars[0].value, ast.Name):
                return None, None
            return h, recv
        return self._helper_of_plain(call, cls_name)

    def _helper_of_plain(self, call, cls_name):
        f = call.func
        if isinstance(f, ast.Name) and f.id in self.local_helpers:
            return self.local_helpers[f.id], None
        if isinstance(f, ast.Name) and f.id in self.mod_helpers and f.id not in self.shadowed:
            return self.mod_helpers[f.id], None
        if isinstance(f, ast.Attribute) and isinstance(f.value, ast.Name):
            recv = f.value.id
            if recv in ('self', 'cls') and cls_name is not None:
                h = self._inherited_helper(cls_name, f.attr)
                if h is not None:
                    return h, f.value
            if (recv, f.attr) in self.cls_helpers and self.cls_helpers[(recv, f.attr)].kind in ('static', 'class'):
                return self.cls_helpers[(recv, f.attr)], f.value
            if (recv, f.attr) in self.named_cls_helpers and recv not in self.shadowed:
                return self.named_cls_helpers[(recv, f.attr)], f.value
        return None, None

    # -- expansion ---------------------------------------------------------------------------------------
    def _bind(self, h, call, recv, caller_names, target=None):
        fn = h.node
        params = [a.arg for a in fn.args.posonlyargs + fn.args.args]
        kwonly = [a.arg for a in fn.args.kwonlyargs]
        defaults = dict(zip(params[len(params) - len(fn.args.defaults):], fn.args.defaults))
        for a, d in zip(kwonly, fn.args.kw_defaults):
            if d is not None:
                defaults[a] = d
        binding = {}
        pos = list(params)
        if h.kind == 'method':
            if recv is None or not pos:
                raise CannotInline('method without receiver')
            binding[pos.pop(0)] = recv
        elif h.kind == 'class':
            if recv is None or not pos:
                raise CannotInline('classmethod without receiver')
            r = recv if recv.id != 'self' else ast.Attribute(value=recv, attr='__class__', ctx=ast.Load())
            binding[pos.pop(0)] = r
        if len(call.args) > len(pos):
            raise CannotInline('too many positional arguments')
        for p, a in zip(pos, call.args):
            binding[p] = a
        kwparam = fn.args.kwarg.arg if fn.args.kwarg is not None else None
        extra_kws = []
        for k in call.keywords:
            if k.arg is None:
                if kwparam is None or kwparam in binding:
                    raise CannotInline('** argument without a ** parameter')
                binding[kwparam] = k.value
                continue
            if k.arg in binding or k.arg not in params + kwonly:
                if kwparam is not None and k.arg not in params + kwonly and _simple_arg(k.value) and \
                        k.arg not in [e.arg for e in extra_kws]:
                    extra_kws.append(k)       # lands in the helper's ``**kw``, which it only passes on
                    continue
                raise CannotInline('bad keyword %s' % k.arg)
            binding[k.arg] = k.value
        if kwparam is not None and kwparam not in binding:
            binding[kwparam] = ast.Dict(keys=[], values=[])      # no extra keywords given: ``**{}``
        for p in params + kwonly:
            if p not in binding:
                if p not in defaults:
                    raise CannotInline('unbound parameter %s' % p)
                if not _timeless_default(defaults[p]):
                    # ``def f(key=os.urandom(20))`` / ``def f(acc=[])``: the default is ONE value, computed when the function
                    # is defined; writing the expression at the call site would compute a new one per call
                    raise CannotInline('default of %s is evaluated once, at definition time' % p)
                binding[p] = defaults[p]
        body = [s for s in fn.body]
        if body and isinstance(body[0], ast.Expr) and isinstance(body[0].value, ast.Constant) and isinstance(body[0].value.value, str):
            body = body[1:]
        body = copy.deepcopy(body)
        stored = _stored_names(body)
        comp_targets = set(n.id for s in body for c in ast.walk(s) if isinstance(c, ast.comprehension)
                           for n in ast.walk(c.target) if isinstance(n, ast.Name))
        # names an argument expression mentions must not be captured by helper locals
        arg_names = set()
        for v in binding.values():
            arg_names |= _all_names(v)
        rename = {}
        taken = set(caller_names) | arg_names
        # the variable being assigned is dead at this point (unless an argument reads it): a helper local may share it
        if isinstance(target, ast.Name) and target.id not in arg_names:
            taken.discard(target.id)
            # ``r = ...; return r`` in the helper, ``t = helper()`` in the caller: let the helper local *be* t
            rets = [n for s_ in body for n in ast.walk(s_) if isinstance(n, ast.Return)]
            rnames = set(n.value.id if isinstance(n.value, ast.Name) else None for n in rets)
            if len(rnames) == 1:
                r = rnames.pop()
                body_names = set(n.id for s_ in body for n in ast.walk(s_) if isinstance(n, ast.Name))
                if r is not None and r in stored and r not in binding and r != target.id and target.id not in body_names:
                    rename[r] = target.id
        for n in sorted((stored | comp_targets) - set(binding) - set(rename) - self.shared_names):
            if n in taken:
                new = n + '_'
                while new in taken or new in stored:
                    new += '_'
                rename[n] = new
                taken.add(new)
        mapping, pre = {}, []
        kw_consumed = kwparam is not None and _kw_consumed(fn)      # (decided on the definition at hand: closures and
        #                                                              synthesised methods are copies that _eligible_def never saw)
        if kw_consumed:
            # the helper uses its ``**kw`` as a mapping: bind it to the fresh dict the call would build
            real = binding[kwparam]
            if isinstance(real, ast.Dict) and not real.keys:
                val = ast.Dict(keys=[ast.Constant(value=e.arg) for e in extra_kws], values=[copy.deepcopy(e.value) for e in extra_kws])
            else:
                val = ast.Call(func=ast.Name(id='dict', ctx=ast.Load()), args=[copy.deepcopy(real)],
                               keywords=[ast.keyword(arg=e.arg, value=copy.deepcopy(e.value)) for e in extra_kws])
                if 'dict' in caller_names:
                    raise CannotInline('dict is shadowed')
            tgt = kwparam
            while tgt in taken or (tgt != kwparam and tgt in stored):
                tgt += '_'
            taken.add(tgt)
            rename[kwparam] = tgt
            pre.append(ast.copy_location(ast.Assign(targets=[ast.Name(id=tgt, ctx=ast.Store())], value=val), call))
            extra_kws = []
        elif kwparam is not None:
            mapping[kwparam] = ast.Name(id=_KW_PASS, ctx=ast.Load())      # only ever read as ``**kw``: see below
        for p in params + kwonly:
            v = binding[p]
            if p in stored or p in comp_targets or not _simple_arg(v):
                tgt = p
                if p in taken:
                    # the caller (or an argument) uses this name: the helper's parameter needs its own variable
                    tgt = p + '_'
                    while tgt in taken or tgt in stored:
                        tgt += '_'
                taken.add(tgt)
                rename[p] = tgt
                pre.append(ast.copy_location(ast.Assign(targets=[ast.Name(id=tgt, ctx=ast.Store())], value=copy.deepcopy(v)), call))
            else:
                mapping[p] = v
        sub = _Subst(mapping, rename)
        body = [sub.visit(s) for s in body]
        if kwparam is not None and not kw_consumed:
            # ``g(.., **kw)`` in the helper: the caller's explicit extra keywords, then the caller's own ``**mapping``
            real = binding[kwparam]
            empty = isinstance(real, ast.Dict) and not real.keys
            for st in body:
                for c in ast.walk(st):
                    if isinstance(c, ast.Call) and any(k.arg is None and isinstance(k.value, ast.Name) and k.value.id == _KW_PASS for k in c.keywords):
                        kws = []
                        for k in c.keywords:
                            if k.arg is None and isinstance(k.value, ast.Name) and k.value.id == _KW_PASS:
                                for e in extra_kws:
                                    if any(o.arg == e.arg for o in c.keywords):
                                        raise CannotInline('keyword %s given twice' % e.arg)
                                    kws.append(ast.keyword(arg=e.arg, value=copy.deepcopy(e.value)))
                                if not empty:
                                    kws.append(ast.keyword(arg=None, value=copy.deepcopy(real)))
                            else:
                                kws.append(k)
                        c.keywords = kws
        return pre, body

    def expand(self, h, call, recv, ctx, target, caller_names):
        """ctx: 'return' | 'expr' | 'assign'.  Returns the replacement statements."""
        pre, body = self._bind(h, call, recv, caller_names, target if ctx == 'assign' else None)
        self.used.add(id(getattr(h, 'orig', h.node)))
        if ctx == 'return':
            out = pre + body
            if _falls(body):
                out.append(ast.copy_location(ast.Return(value=ast.Constant(value=None)), call))
            return out
        if ctx == 'expr':
            def emit(r):
                if r.value is not None and _contains([r.value], (ast.Call, ast.Await)):
                    return [ast.copy_location(ast.Expr(value=r.value), r)]
                return []
            return pre + _nonempty(_Elim(emit).seq(body, []), call)

        def emit_assign(r):
            v = r.value if r.value is not None else ast.copy_location(ast.Constant(value=None), r)
            if isinstance(v, ast.Name) and isinstance(target, ast.Name) and v.id == target.id:
                return []
            if isinstance(target, ast.Tuple) and isinstance(v, ast.Tuple) and len(target.elts) == len(v.elts) and \
                    not any(isinstance(e, ast.Starred) for e in target.elts + v.elts):
                tnames = set(n.id for e in target.elts for n in ast.walk(e) if isinstance(n, ast.Name))
                vnames = set(n.id for e in v.elts for n in ast.walk(e) if isinstance(n, ast.Name))
                if not (tnames & vnames):
                    return [ast.copy_location(ast.Assign(targets=[copy.deepcopy(t)], value=e), r) for t, e in zip(target.elts, v.elts)]
            return [ast.copy_location(ast.Assign(targets=[copy.deepcopy(target)], value=v), r)]
        k = []
        if _falls(body):
            k = [ast.copy_location(ast.Assign(targets=[copy.deepcopy(target)], value=ast.Constant(value=None)), call)]
        return pre + _Elim(emit_assign).seq(body, k)

    # -- ``with cm(..): BODY`` for a context manager written as a generator of this module ------------------
    def _cm_of(self, call, cls_name):
        f = call.func
        if any(isinstance(a, ast.Starred) for a in call.args) or any(k.arg is None for k in call.keywords):
            return None, None
        if isinstance(f, ast.Name) and f.id in self.cm_mod and f.id not in self.shadowed:
            return self.cm_mod[f.id], None
        if isinstance(f, ast.Attribute) and isinstance(f.value, ast.Name) and f.value.id in ('self', 'cls') and cls_name is not None:
            h = self._inherited_helper(cls_name, f.attr, self.cm_cls)
            if h is not None:
                return h, f.value
        return None, None

    def _expand_with(self, s, cls_name, caller_names):
        """``with cm(a) as t: BODY`` where ``cm`` is a one-yield ``@contextmanager`` generator (see _cm_shape) is the
        generator's body with the ``yield v`` statement replaced by ``t = v; BODY``: the manager enters by running the
        generator up to the yield, raises BODY's exception *at* the yield (so the generator's own try/except/finally
        around it apply exactly as written), and on normal completion resumes behind it.  BODY may leave by return /
        break / continue only when nothing but ``finally`` clauses would have run behind the yield."""
        if len(s.items) > 1:
            inner = ast.copy_location(ast.With(items=s.items[1:], body=s.body, type_comment=None), s)
            s2 = ast.copy_location(ast.With(items=s.items[:1], body=[inner], type_comment=None), s)
            if isinstance(s.items[0].context_expr, ast.Call) and self._cm_of(s.items[0].context_expr, cls_name)[0] is not None:
                return self._expand_with(s2, cls_name, caller_names)
            # the first manager is not ours; a later one may be
            rep = self._expand_with(inner, cls_name, caller_names)
            if rep is None:
                return None
            return [ast.copy_location(ast.With(items=s.items[:1], body=rep, type_comment=None), s)]
        it = s.items[0]
        if not isinstance(it.context_expr, ast.Call):
            return None
        h, recv = self._cm_of(it.context_expr, cls_name)
        if h is None:
            return None
        if it.optional_vars is not None and not isinstance(it.optional_vars, ast.Name):
            return None
        leaves = _contains_return(s.body) or Unroll._loop_jumps(s.body)
        if leaves and not h.tail:
            raise CannotInline('with body leaves early and the manager has code behind its yield')
        pre, body = self._bind(h, it.context_expr, recv, caller_names, None)
        done = [0]

        def put(stmts):
            out = []
            for st in stmts:
                if isinstance(st, ast.Expr) and isinstance(st.value, ast.Tuple) and st.value.elts and \
                        isinstance(st.value.elts[0], ast.Name) and st.value.elts[0].id == _WITH_BODY:
                    v = st.value.elts[1] if len(st.value.elts) > 1 else ast.copy_location(ast.Constant(value=None), st)
                    if it.optional_vars is not None:
                        out.append(ast.copy_location(ast.Assign(targets=[ast.Name(id=it.optional_vars.id, ctx=ast.Store())], value=v), s))
                    elif _contains([v], (ast.Call,)):
                        out.append(ast.copy_location(ast.Expr(value=v), s))
                    out.extend(s.body)
                    done[0] += 1
                    continue
                if isinstance(st, ast.Try):
                    st.body = put(st.body)
                out.append(st)
            return out
        body = put(body)
        if done[0] != 1:
            raise CannotInline('yield position lost')
        self.used.add(id(h.orig))
        return pre + body

    # -- ``for T in gen(..): BODY`` for a one-loop generator of this module ----------------------------------
    def _expand_for(self, s, cls_name, caller_names):
        """The generator runs its prefix when the loop starts, then one iteration of its own loop per item, suspended at the
        yield while BODY runs; the yield is the last statement of that loop, so ``continue`` in BODY (next item) is
        ``continue`` of the generator's loop, and ``break`` / ``return`` in BODY (the generator is closed; nothing follows
        its loop) leave it the same way."""
        call = s.iter
        f = call.func
        if any(isinstance(a, ast.Starred) for a in call.args) or any(k.arg is None for k in call.keywords):
            return None
        h, recv = None, None
        if isinstance(f, ast.Name) and f.id in self.gen_mod and f.id not in self.shadowed:
            h = self.gen_mod[f.id]
        elif isinstance(f, ast.Attribute) and isinstance(f.value, ast.Name) and f.value.id in ('self', 'cls') and cls_name is not None:
            h = self._inherited_helper(cls_name, f.attr, self.gen_cls)
            recv = f.value
        if h is None:
            return None
        # BODY runs between the generator's iterations: what the generator received by reference (plain names / attribute
        # chains are substituted, not copied into a parameter of its own) must not be re-bound by BODY -- the generator
        # would go on with the object it was called with
        body_stored = _stored_names(s.body) | set(n.id for n in ast.walk(s.target) if isinstance(n, ast.Name))
        attr_stored = set(n.attr for st in s.body for n in ast.walk(st) if isinstance(n, ast.Attribute) and isinstance(n.ctx, (ast.Store, ast.Del)))
        for a in list(call.args) + [k.value for k in call.keywords] + ([recv] if recv is not None else []):
            for n in ast.walk(a):
                if isinstance(n, ast.Name) and n.id in body_stored:
                    raise CannotInline('the loop body re-binds %s, which the generator received' % n.id)
                if isinstance(n, ast.Attribute) and n.attr in attr_stored:
                    raise CannotInline('the loop body stores an attribute the generator received (.%s)' % n.attr)
        pre, body = self._bind(h, call, recv, caller_names, None)
        loop = body[-1]
        ph = loop.body[-1]
        if s.orelse:
            # the consuming ``else:`` runs when the generator is exhausted = when its loop is, provided that loop cannot ``break``
            if _contains(loop.body, ast.Break, stop=(ast.FunctionDef, ast.AsyncFunctionDef, ast.ClassDef, ast.Lambda, ast.For, ast.While)):
                raise CannotInline('consuming loop has an else clause and the generator loop can break')
            loop.orelse = list(s.orelse)
        if not (isinstance(ph, ast.Expr) and isinstance(ph.value, ast.Tuple) and ph.value.elts and
                isinstance(ph.value.elts[0], ast.Name) and ph.value.elts[0].id == _YIELD_HERE):
            raise CannotInline('yield position lost')
        v = ph.value.elts[1] if len(ph.value.elts) > 1 else ast.copy_location(ast.Constant(value=None), ph)
        tgt = s.target
        if isinstance(tgt, ast.Tuple) and isinstance(v, ast.Tuple) and len(tgt.elts) == len(v.elts) and \
                not any(isinstance(e, ast.Starred) for e in tgt.elts + v.elts) and \
                not (set(n.id for e in tgt.elts for n in ast.walk(e) if isinstance(n, ast.Name)) &
                     set(n.id for e in v.elts for n in ast.walk(e) if isinstance(n, ast.Name))):
            assigns = [ast.copy_location(ast.Assign(targets=[t], value=e), s) for t, e in zip(tgt.elts, v.elts)]
        else:
            assigns = [ast.copy_location(ast.Assign(targets=[tgt], value=v), s)]
        loop.body = loop.body[:-1] + assigns + list(s.body)
        self.used.add(id(h.orig))
        return pre + body

    # -- objects of private record classes that never leave the function creating them --------------------
    def _dissolve_objects(self, fn):
        """``v = _C(a); v.m(x); return v.f`` with ``_C`` a class admitted by collect_object_classes and ``v`` used only as
        the receiver of method calls / field accesses in ``fn``'s own scope: the object is replaced by one local per field
        (``v__f``), ``v = _C(a)`` by the statements of ``__init__``, ``v.m(x)`` by the statements of ``m`` (both through
        the ordinary helper inliner: the methods are registered as local helpers whose ``self.f`` is ``v__f``).  Returns the
        number of objects dissolved; the caller keeps the result only when every synthetic call was expanded."""
        if not self.obj_classes:
            return 0
        shadow = _stored_names(fn.body) | set(a.arg for n in ast.walk(fn) if isinstance(n, ast.arguments)
                                              for a in n.posonlyargs + n.args + n.kwonlyargs + [x for x in (n.vararg, n.kwarg) if x])
        classes = dict((k, v) for k, v in self.obj_classes.items() if k not in shadow)
        if not classes:
            return 0
        allnames = _all_names(fn)
        counter = [0]

        # ``_C(a).m(x)`` as the value of a statement -> ``_vto1 = _C(a)`` / ``.. _vto1.m(x)``
        def direct(stmts):
            out = []
            for st in stmts:
                v = getattr(st, 'value', None) if isinstance(st, (ast.Return, ast.Assign, ast.Expr)) else None
                if isinstance(v, ast.Call) and isinstance(v.func, ast.Attribute) and isinstance(v.func.value, ast.Call) and \
                        isinstance(v.func.value.func, ast.Name) and v.func.value.func.id in classes and \
                        (not isinstance(st, ast.Assign) or all(isinstance(t, ast.Name) for t in st.targets)):
                    tmp = '_vto%d' % counter[0]
                    while tmp in allnames:
                        counter[0] += 1
                        tmp = '_vto%d' % counter[0]
                    counter[0] += 1
                    allnames.add(tmp)
                    out.append(ast.copy_location(ast.Assign(targets=[ast.Name(id=tmp, ctx=ast.Store())], value=v.func.value), st))
                    v.func.value = ast.copy_location(ast.Name(id=tmp, ctx=ast.Load()), v.func.value)
                out.append(st)
            return out
        _map_blocks(fn, direct)
        own = [n for s_ in fn.body for n in _walk_same_scope(s_)]
        own_ids = set(id(n) for n in own)
        cands = {}
        for n in own:
            if isinstance(n, ast.Assign) and len(n.targets) == 1 and isinstance(n.targets[0], ast.Name) and isinstance(n.value, ast.Call) and \
                    isinstance(n.value.func, ast.Name) and n.value.func.id in classes and \
                    not any(isinstance(a, ast.Starred) for a in n.value.args) and not any(k.arg is None for k in n.value.keywords):
                cands.setdefault(n.targets[0].id, []).append(n)
        done = 0
        for v, assigns in sorted(cands.items()):
            cnames = set(a.value.func.id for a in assigns)
            if len(cnames) != 1:
                continue
            oc = classes[cnames.pop()]
            targets = set(id(a.targets[0]) for a in assigns)
            ok = True
            attr_of = {}
            callees = set()
            for n in ast.walk(fn):
                if isinstance(n, ast.Attribute) and isinstance(n.value, ast.Name) and n.value.id == v:
                    attr_of[id(n.value)] = n
                if isinstance(n, ast.Call):
                    callees.add(id(n.func))
                if isinstance(n, ast.arg) and n.arg == v:
                    ok = False
                if isinstance(n, (ast.Global, ast.Nonlocal)) and v in n.names:
                    ok = False
            uses = []
            for n in ast.walk(fn):
                if not (isinstance(n, ast.Name) and n.id == v) or id(n) in targets:
                    continue
                a = attr_of.get(id(n))
                if id(n) not in own_ids or not isinstance(n.ctx, ast.Load) or a is None:
                    ok = False
                    break
                if a.attr in oc.methods and id(a) in callees and isinstance(a.ctx, ast.Load):
                    uses.append(('call', a))
                elif a.attr in oc.fields and isinstance(a.ctx, (ast.Load, ast.Store)):
                    uses.append(('field', a))
                elif a.attr in oc.consts and isinstance(a.ctx, ast.Load):
                    uses.append(('const', a))
                else:
                    ok = False
                    break
            loc = dict((f, '%s__%s' % (v, f)) for f in oc.fields)
            if not ok or any(x in allnames for x in loc.values()):
                continue
            syn = dict((m, '__vto_%s_%s' % (v, m)) for m in oc.methods)

            def synth(mname):
                m = copy.deepcopy(oc.methods[mname])
                m.name = syn[mname]
                m.decorator_list = []
                static = mname in oc.static
                if not static:
                    m.args.args = m.args.args[1:]

                class S(ast.NodeTransformer):
                    def visit_Attribute(self_, node):
                        self_.generic_visit(node)
                        if not static and isinstance(node.value, ast.Name) and node.value.id == 'self':
                            if node.attr in loc:
                                return ast.copy_location(ast.Name(id=loc[node.attr], ctx=node.ctx), node)
                            if node.attr in oc.consts:
                                return ast.copy_location(copy.deepcopy(oc.consts[node.attr]), node)
                            if node.attr in syn:
                                return ast.copy_location(ast.Name(id=syn[node.attr], ctx=ast.Load()), node)
                        return node
                return S().visit(m)
            for mname in oc.methods:
                self.local_helpers[syn[mname]] = Helper(synth(mname), 'func')
            self.shared_names |= set(loc.values())

            class U(ast.NodeTransformer):
                def visit_Attribute(self_, node):
                    self_.generic_visit(node)
                    if isinstance(node.value, ast.Name) and node.value.id == v:
                        if node.attr in loc:
                            return ast.copy_location(ast.Name(id=loc[node.attr], ctx=node.ctx), node)
                        if node.attr in oc.consts:
                            return ast.copy_location(copy.deepcopy(oc.consts[node.attr]), node)
                        if node.attr in syn:
                            return ast.copy_location(ast.Name(id=syn[node.attr], ctx=ast.Load()), node)
                    return node
            amap = set(id(a) for a in assigns)

            def ctor(stmts):
                out = []
                for st in stmts:
                    if id(st) in amap:
                        if '__init__' in oc.methods:
                            call = st.value
                            call.func = ast.copy_location(ast.Name(id=syn['__init__'], ctx=ast.Load()), call.func)
                            out.append(ast.copy_location(ast.Expr(value=call), st))
                        else:
                            out.append(ast.copy_location(ast.Pass(), st))
                        continue
                    out.append(st)
                return out
            for i, st in enumerate(fn.body):
                fn.body[i] = U().visit(st)
            _map_blocks(fn, ctor)
            allnames |= set(loc.values())
            done += 1
        return done

    # -- traversal ---------------------------------------------------------------------------------------
    def _first_call(self, expr, cls_name):
        """The first helper call nested in ``expr`` at an unconditionally evaluated position."""
        todo = [expr]
        while todo:
            n = todo.pop(0)
            if isinstance(n, ast.Call):
                h, recv = self._helper_of(n, cls_name)
                if h is not None:
                    return n, h, recv
            if isinstance(n, (ast.Lambda, ast.ListComp, ast.SetComp, ast.DictComp, ast.GeneratorExp)):
                continue
            if isinstance(n, ast.BoolOp):
                todo.insert(0, n.values[0])
                continue
            if isinstance(n, ast.IfExp):
                todo.insert(0, n.test)
                continue
            todo = list(ast.iter_child_nodes(n)) + todo
        return None

    def _process_stmt(self, s, cls_name, caller_names, tmp_counter):
        """Returns a list of statements replacing ``s`` (or None when unchanged)."""
        try:
            if isinstance(s, ast.With):
                rep = self._expand_with(s, cls_name, caller_names)
                if rep is not None:
                    return rep
            if isinstance(s, ast.For) and isinstance(s.iter, ast.Call):
                rep = self._expand_for(s, cls_name, caller_names)
                if rep is not None:
                    return rep
            if isinstance(s, ast.Return) and isinstance(s.value, ast.Call):
                h, recv = self._helper_of(s.value, cls_name)
                if h is not None:
                    return self.expand(h, s.value, recv, 'return', None, caller_names)
            if isinstance(s, ast.Expr) and isinstance(s.value, ast.Call):
                h, recv = self._helper_of(s.value, cls_name)
                if h is not None:
                    return self.expand(h, s.value, recv, 'expr', None, caller_names)
            if isinstance(s, ast.Assign) and len(s.targets) == 1 and isinstance(s.value, ast.Call) and \
                    isinstance(s.targets[0], (ast.Name, ast.Tuple, ast.Attribute)):
                h, recv = self._helper_of(s.value, cls_name)
                if h is not None:
                    return self.expand(h, s.value, recv, 'assign', s.targets[0], caller_names)
            # nested call: hoist into a temporary, then expand
            host = None
            if isinstance(s, (ast.Assign, ast.AugAssign, ast.Expr, ast.Return)) and s.value is not None:
                host = s.value
            elif isinstance(s, ast.If):
                host = s.test
            elif isinstance(s, ast.For):
                host = s.iter
            elif isinstance(s, ast.Raise) and s.exc is not None:
                host = s.exc
            if host is not None:
                found = self._first_call(host, cls_name)
                if found is not None:
                    call, h, recv = found
                    # an *expression helper* (body: ``return <expr>``) called with plain arguments is replaced by that
                    # expression where it stands: no temporary, evaluation order untouched
                    pre0, body0 = self._bind(h, call, recv, caller_names, None)
                    if not pre0 and len(body0) == 1 and isinstance(body0[0], ast.Return) and body0[0].value is not None:
                        val = ast.copy_location(body0[0].value, call)
                        self.used.add(id(h.node))

                        class R0(ast.NodeTransformer):
                            def visit_Call(self_, node):
                                if node is call:
                                    return val
                                return self_.generic_visit(node)
                        R0().visit(s)
                        return [s]
                    tmp = '_inl%d_%s' % (tmp_counter[0], h.name.strip('_'))
                    tmp_counter[0] += 1
                    tgt = ast.copy_location(ast.Name(id=tmp, ctx=ast.Store()), call)
                    stmts = self.expand(h, call, recv, 'assign', tgt, caller_names | {tmp})

                    class R(ast.NodeTransformer):
                        def visit_Call(self_, node):
                            if node is call:
                                return ast.copy_location(ast.Name(id=tmp, ctx=ast.Load()), node)
                            return self_.generic_visit(node)
                    R().visit(s)
                    return stmts + [s]
            # helper calls at conditionally evaluated positions (``a and _h(x)``): a helper that is one ``return <expr>``
            # is substituted as an expression, which is evaluated exactly when the call would have been
            if self._subst_expr_calls(s, cls_name):
                return [s]
        except CannotInline as e:
            self.log.append('%s: %s' % (getattr(s, 'lineno', '?'), e))
        return None

    def _subst_expr_calls(self, s, cls_name):
        """In the expressions of statement ``s`` itself (not of nested statements) replace calls of expression-bodied
        helpers (body = ``return <expr>``; simple arguments; no lambda / comprehension / walrus in the body; no name the
        body reads as a global is bound in the caller) by the body expression.  Returns True when something changed."""
        bound = getattr(self, '_bound', None)
        if bound is None:
            return False
        roots = []
        for field in ('value', 'test', 'iter', 'exc', 'msg', 'cause', 'subject'):
            e = getattr(s, field, None)
            if isinstance(e, ast.expr):
                roots.append((s, field))
        if isinstance(s, (ast.With, ast.AsyncWith)):
            roots += [(it, 'context_expr') for it in s.items]
        inl = self
        done = [0]

        class X(ast.NodeTransformer):
            def visit_Call(self_, node):
                self_.generic_visit(node)
                h, recv = inl._helper_of(node, cls_name)
                if h is None:
                    return node
                body = [b for b in h.node.body]
                if body and isinstance(body[0], ast.Expr) and isinstance(body[0].value, ast.Constant) and isinstance(body[0].value.value, str):
                    body = body[1:]
                if len(body) != 1 or not isinstance(body[0], ast.Return) or body[0].value is None:
                    return node
                expr = body[0].value
                if _contains([expr], (ast.Lambda, ast.ListComp, ast.SetComp, ast.DictComp, ast.GeneratorExp, ast.NamedExpr, ast.Await,
                                      ast.Yield, ast.YieldFrom), stop=()):
                    return node
                try:
                    pre, new = inl._bind(h, node, recv, set(), None)
                except CannotInline:
                    return node
                if pre or len(new) != 1 or not isinstance(new[0], ast.Return):
                    return node       # an argument needs a temporary: not expressible in place
                params = set(a.arg for a in h.node.args.posonlyargs + h.node.args.args + h.node.args.kwonlyargs)
                free = set(n.id for n in ast.walk(expr) if isinstance(n, ast.Name)) - params
                if free & bound:
                    return node
                done[0] += 1
                inl.used.add(id(h.node))
                return ast.copy_location(new[0].value, node)

        for owner, field in roots:
            setattr(owner, field, X().visit(getattr(owner, field)))
        return bool(done[0])

    def _process_block(self, stmts, cls_name, caller_names, tmp_counter, depth=0):
        out = []
        changed = False
        for s in stmts:
            rep = self._process_stmt(s, cls_name, caller_names, tmp_counter) if depth < 4 else None
            if rep is not None:
                self.count += 1
                changed = True
                # the replacement may itself contain helper calls
                rep2, _ = self._process_block(rep, cls_name, caller_names, tmp_counter, depth + 1)
                out.extend(rep2)
                continue
            for field in ('body', 'orelse', 'finalbody'):
                sub = getattr(s, field, None)
                if isinstance(sub, list) and sub and isinstance(sub[0], ast.stmt) and not isinstance(s, (ast.FunctionDef, ast.AsyncFunctionDef, ast.ClassDef)):
                    new, ch = self._process_block(sub, cls_name, caller_names, tmp_counter, depth)
                    if ch:
                        setattr(s, field, new)
                        changed = True
            if isinstance(s, ast.Try):
                for hd in s.handlers:
                    new, ch = self._process_block(hd.body, cls_name, caller_names, tmp_counter, depth)
                    if ch:
                        hd.body = new
                        changed = True
            out.append(s)
        return out, changed

    def _do_func(self, fn, cls_name, objects=False):
        self.local_helpers = self._local_helpers(fn)
        n_obj = 0
        if objects:
            n_obj = self._dissolve_objects(fn)      # registers the methods as local helpers, rewrites the uses
        names = _all_names(fn)
        self._bound = _stored_names(fn.body) | set(a.arg for n in ast.walk(fn) if isinstance(n, ast.arguments)
                                                   for a in n.posonlyargs + n.args + n.kwonlyargs + [x for x in (n.vararg, n.kwarg) if x])
        self.shadowed = _stored_names(fn.body) | set(a.arg for a in fn.args.posonlyargs + fn.args.args + fn.args.kwonlyargs) | \
            set(n.name for n in ast.walk(fn) if isinstance(n, (ast.FunctionDef, ast.ClassDef)) and n is not fn)
        new, ch = self._process_block(fn.body, cls_name, names, [0])
        self.local_helpers = {}
        if ch:
            fn.body = new
        return n_obj

    def run(self):

        def do_func(fn, cls_name):
            done = False
            if self.obj_classes and any(isinstance(n, ast.Name) and n.id in self.obj_classes for n in ast.walk(fn)):
                # objects of private record classes: tried on a copy, kept only when every synthetic call was expanded
                cand = copy.deepcopy(fn)
                saved = (set(self.shared_names), self.count, set(self.used), list(self.log))
                try:
                    n_obj = self._do_func(cand, cls_name, objects=True)
                except CannotInline:
                    n_obj = 0
                self.local_helpers = {}
                if n_obj and not any(isinstance(n, ast.Name) and n.id.startswith('__vto_') for n in ast.walk(cand)):
                    fn.body = cand.body
                    self.objects += n_obj
                    done = True
                else:
                    self.shared_names, self.count, self.used, self.log = saved
            if not done:
                self._do_func(fn, cls_name)
            for st in fn.body:
                for n in ast.walk(st):
                    if isinstance(n, ast.FunctionDef) and n is not fn:
                        do_func(n, cls_name)
        for _ in range(3):
            before = self.count
            for st in self.tree.body:
                if isinstance(st, ast.FunctionDef):
                    do_func(st, None)
                elif isinstance(st, ast.ClassDef):
                    for m in st.body:
                        if isinstance(m, ast.FunctionDef):
                            do_func(m, st.name)
            if self.count == before:
                break
        return self.count

    def drop_dissolved(self):
        """Remove the definitions of private helpers / context managers / record classes that were expanded at least once
        and that nothing names any more -- neither this module (identifier, attribute or string) nor another module of
        the tree: what the rules then see is the program with the helper dissolved, not a second copy of its statements."""
        if self.foreign is None:
            return 0
        dropped = 0
        for _ in range(3):
            mentioned = {}
            for n in ast.walk(self.tree):
                k = None
                if isinstance(n, ast.Name):
                    k = n.id
                elif isinstance(n, ast.Attribute):
                    k = n.attr
                elif isinstance(n, ast.Constant) and isinstance(n.value, str) and _IDENT.match(n.value):
                    k = n.value
                elif isinstance(n, ast.alias):
                    k = (n.asname or n.name).split('.')[-1]
                if k is not None:
                    mentioned[k] = mentioned.get(k, 0) + 1
            before = dropped

            def sweep(body, in_class):
                nonlocal dropped
                keep = []
                for st in body:
                    if isinstance(st, ast.FunctionDef) and id(st) in self.used and st.name.startswith('_') and \
                            not (st.name.startswith('__') and st.name.endswith('__')) and st.name not in self.anchors and \
                            not mentioned.get(st.name) and not self.foreign(st.name):
                        dropped += 1
                        continue
                    if isinstance(st, ast.ClassDef) and not in_class:
                        if st.name in self.obj_classes and self.objects and not mentioned.get(st.name) and not self.foreign(st.name):
                            dropped += 1
                            continue
                        st.body = sweep(st.body, True) or [ast.copy_location(ast.Pass(), st)]
                    keep.append(st)
                return keep
            self.tree.body = sweep(self.tree.body, False)
            if dropped == before:
                break
        return dropped


# ---------------------------------------------------------------------------------------------- loop unrolling
class Unroll(ast.NodeTransformer):
    """``for x in (a, b): body``  ->  ``x = a; body[x := a]; x = b; body[x := b]`` for a loop over a short literal
    tuple / list of *variables* (names or attribute chains; loops over constants -- slot-name tables -- are kept).

    Exactly the iterations the loop makes, in order.  Attribute elements are evaluated once, up front and in order
    (as the tuple display does) into temporaries; plain names are read where the copy uses them, which is the same
    value because the body may not re-bind them.  Not applied when the body breaks / continues, defines functions
    or re-binds the loop variable or a name an element reads."""

    MAX_ELTS, MAX_BODY = 4, 10

    def __init__(self):
        self.n = 0

    @staticmethod
    def _loop_jumps(body):
        todo = list(body)
        while todo:
            n = todo.pop()
            if isinstance(n, (ast.Break, ast.Continue)):
                return True
            if isinstance(n, (ast.For, ast.While, ast.AsyncFor)):
                todo.extend(n.orelse)      # break/continue in a nested loop's body belong to that loop
                continue
            if isinstance(n, ast.stmt) or isinstance(n, ast.ExceptHandler):
                todo.extend(c for c in ast.iter_child_nodes(n) if isinstance(c, (ast.stmt, ast.ExceptHandler)))
        return False

    def visit_For(self, node):
        self.generic_visit(node)
        it = node.iter
        if node.orelse or not isinstance(node.target, ast.Name) or not isinstance(it, (ast.Tuple, ast.List)):
            return node
        if not (1 <= len(it.elts) <= self.MAX_ELTS) or not all(isinstance(e, (ast.Name, ast.Attribute)) and _simple_arg(e)
                                                                for e in it.elts):
            return node
        x = node.target.id
        body = node.body
        if sum(1 for s in body for n in ast.walk(s) if isinstance(n, ast.stmt)) > self.MAX_BODY:
            return node
        if self._loop_jumps(body) or _contains(body, (ast.FunctionDef, ast.AsyncFunctionDef, ast.ClassDef, ast.Lambda, ast.Yield,
                                                        ast.YieldFrom, ast.Await, ast.Global, ast.Nonlocal), stop=()):
            return node
        stored = _stored_names(body)
        for s in body:
            for n in ast.walk(s):
                if isinstance(n, ast.comprehension):
                    stored |= set(t.id for t in ast.walk(n.target) if isinstance(t, ast.Name))
                if isinstance(n, ast.Call) and isinstance(n.func, ast.Name) and n.func.id in ('locals', 'vars', 'eval', 'exec'):
                    return node
        roots = set()
        for e in it.elts:
            r = e
            while isinstance(r, ast.Attribute):
                r = r.value
            roots.add(r.id)
        if x in stored or x in roots or (roots & stored):
            return node
        pre, elts = [], []
        for e in it.elts:
            if isinstance(e, ast.Attribute):
                tmp = '_unr%d_%s' % (self.n, e.attr)
                self.n += 1
                pre.append(ast.copy_location(ast.Assign(targets=[ast.Name(id=tmp, ctx=ast.Store())], value=e), node))
                elts.append(ast.copy_location(ast.Name(id=tmp, ctx=ast.Load()), e))
            else:
                elts.append(e)
        out = list(pre)
        for e in elts:
            out.append(ast.copy_location(ast.Assign(targets=[ast.Name(id=x, ctx=ast.Store())], value=copy.deepcopy(e)), node))
            sub = _Subst({x: e}, {})
            out.extend(sub.visit(copy.deepcopy(s)) for s in body)
        return out


def _module_bindings(tree):
    """name -> number of binding occurrences anywhere in the module (defs, stores, parameters, imports, ``global``)."""
    out = {}
    for x in ast.walk(tree):
        k = None
        if isinstance(x, (ast.FunctionDef, ast.AsyncFunctionDef, ast.ClassDef)):
            k = [x.name]
        elif isinstance(x, ast.Name) and isinstance(x.ctx, (ast.Store, ast.Del)):
            k = [x.id]
        elif isinstance(x, ast.arg):
            k = [x.arg]
        elif isinstance(x, ast.alias):
            k = [(x.asname or x.name).split('.')[0]]
        elif isinstance(x, (ast.Global, ast.Nonlocal)):
            k = list(x.names) * 2
        elif isinstance(x, ast.ExceptHandler) and x.name:
            k = [x.name]
        for n in k or ():
            out[n] = out.get(n, 0) + 1
    return out


def collect_imported_helpers(tree, anchors, imported):
    """Helpers that live in a *private module* of the analysed package and that this module imports by name at its top level
    (``from ._priv import helper``): name -> Helper, expanded at their calls like the module's own private helpers.
    ``imported(ImportFrom node)`` -> the parsed (raw) tree of the module the statement names, or None.  A function qualifies when
      * the module's own name is private (``_x``, not dunder) and no rule names the module or the function;
      * the name is bound exactly once in this module (the import itself) and exactly once in the other (a top-level plain def);
      * it is eligible like a private helper (no generator, recursion, nested definitions, decorators ...);
      * every free name of its body means the same thing in both modules: bound nowhere in either (a builtin), or bound once at
        the top level of the other module and imported from there under the same name, once, by this module."""
    out = {}
    if imported is None:
        return out
    here = None
    for st in tree.body:
        if not isinstance(st, ast.ImportFrom) or not st.module:
            continue
        last = st.module.split('.')[-1]
        if not last.startswith('_') or last.startswith('__') or last in anchors:
            continue
        other = imported(st)
        if other is None:
            continue
        if here is None:
            here = _module_bindings(tree)
        there = _module_bindings(other)
        same = set(a.name for a in st.names if a.asname in (None, a.name) and here.get(a.name) == 1 and there.get(a.name) == 1 and
                   any(isinstance(o, (ast.FunctionDef, ast.ClassDef)) and o.name == a.name or
                       isinstance(o, ast.Assign) and len(o.targets) == 1 and isinstance(o.targets[0], ast.Name) and o.targets[0].id == a.name
                       for o in other.body))
        for a in st.names:
            if a.name not in same or a.name in anchors:
                continue
            defs = [o for o in other.body if isinstance(o, ast.FunctionDef) and o.name == a.name]
            if len(defs) != 1 or _eligible_def(defs[0], any_name=True) != 'func':
                continue
            fn = defs[0]
            local = set(_stored_names(fn.body)) | set(x.arg for x in ast.walk(fn.args) if isinstance(x, ast.arg))
            free = set(n.id for n in ast.walk(fn) if isinstance(n, ast.Name)) - local
            if all((g in same) or (not here.get(g) and not there.get(g)) for g in free):
                fn = Canon({}).visit(copy.deepcopy(fn))
                out[a.name] = Helper(fn, 'func')
    return out


def normalize_tree(tree, foreign=None, imported=None):
    """Stage 1 (intra-module).  Returns (tree, number of rewrites).  ``foreign(name)`` tells whether another module of
    the analysed tree mentions ``name`` (needed before a private definition may be treated as local to this module);
    ``imported(ImportFrom)`` hands out the parsed tree of a module of the package this one imports from (see
    collect_imported_helpers)."""
    from . import normalize2
    consts = module_const_tuples(tree)
    tree = Canon(consts).visit(tree)
    tree._vt_imported_helpers = collect_imported_helpers(tree, anchor_names(), imported)
    n = normalize2.hoist_walrus(tree)
    n += normalize2.forward_lazy_temps(tree)
    n += normalize2.split_chain_loops(tree)
    n += normalize2.unroll_tables(tree)
    n += normalize2.read_properties(tree, anchor_names(), foreign)
    inl = Inliner(tree, anchor_names(), foreign)
    n_inl = inl.run()
    if normalize2.devirtualize_calls(tree):
        n_inl += inl.run()      # the calls through a function-valued local now name their helpers
    n += n_inl
    if n_inl:
        n += normalize2.forward_lazy_temps(tree)
        n += normalize2.split_chain_loops(tree)
    n += normalize2.project_namedtuples(tree)
    n += normalize2.forward_single_cell(tree)
    normalize2.propagate_copies(tree)
    tree = Canon(consts).visit(tree)
    tree = Unroll().visit(tree)
    n += inl.drop_dissolved()
    ast.fix_missing_locations(tree)
    return tree, n


# ---------------------------------------------------------------------------------------------- kw -> positional
def _sig_of(fi, drop_first):
    a = fi.node.args
    if a.vararg is not None:
        return None
    params = [x.arg for x in a.posonlyargs + a.args]
    return params[1:] if drop_first else params


def kw_to_pos(mod, repo):
    """Stage 2: ``f(a, k=v)`` -> ``f(a, v)`` when ``f`` resolves to a function / method / class of the analysed tree and
    ``k`` is its next positional parameter.  Call nodes are edited in place (identity and positions kept)."""
    n = 0
    for node in ast.walk(mod.tree):
        if not isinstance(node, ast.Call) or not node.keywords or any(k.arg is None for k in node.keywords) or \
                any(isinstance(a, ast.Starred) for a in node.args):
            continue
        params = None
        f = node.func
        try:
            if isinstance(f, ast.Name):
                kind, m, obj = repo.resolve(mod, f.id)
                if kind == 'func' and m is not None and not m.external:
                    params = _sig_of(obj, False)
                elif kind == 'class' and m is not None and not m.external:
                    init = repo.find_method(obj, '__init__')
                    if init is not None and not init.mod.external:
                        params = _sig_of(init, True)
            elif isinstance(f, ast.Attribute) and isinstance(f.value, ast.Name) and f.value.id in ('self', 'cls'):
                fn = mod.enclosing_function(node)
                cur = fn
                ci = None
                while cur is not None and ci is None:
                    p = mod.parents.get(cur)
                    if isinstance(p, ast.ClassDef):
                        ci = [c for c in mod.classes.values() if c.node is p]
                        ci = ci[0] if ci else None
                        break
                    cur = p
                if ci is not None:
                    meth = repo.find_method(ci, f.attr)
                    if meth is not None and not meth.mod.external:
                        static = any(isinstance(d, ast.Name) and d.id == 'staticmethod' for d in meth.node.decorator_list)
                        params = _sig_of(meth, not static)
        except Exception:
            params = None
        if not params:
            continue
        kws = dict((k.arg, k) for k in node.keywords)
        i = len(node.args)
        moved = False
        while i < len(params) and params[i] in kws:
            k = kws.pop(params[i])
            node.args.append(k.value)
            node.keywords.remove(k)
            i += 1
            moved = True
        if moved:
            n += 1
    return n


# ---------------------------------------------------------------------------------------------- stage 0: private imports
def _free_names(fn):
    """Names the function reads that are neither parameters nor bound in its body; None when the body binds names in a way
    that is not followed (imports, handlers' ``as`` names are taken as locals)."""
    a = fn.args
    bound = set(x.arg for x in a.posonlyargs + a.args + a.kwonlyargs)
    if a.vararg is not None:
        bound.add(a.vararg.arg)
    if a.kwarg is not None:
        bound.add(a.kwarg.arg)
    for n in ast.walk(fn):
        if isinstance(n, (ast.Import, ast.ImportFrom)):
            return None
        if isinstance(n, ast.Name) and isinstance(n.ctx, (ast.Store, ast.Del)):
            bound.add(n.id)
        elif isinstance(n, ast.ExceptHandler) and n.name:
            bound.add(n.name)
    return set(n.id for n in ast.walk(fn) if isinstance(n, ast.Name) and isinstance(n.ctx, ast.Load) and n.id not in bound)


def _binds_anywhere(tree, name):
    for x in ast.walk(tree):
        if isinstance(x, (ast.FunctionDef, ast.AsyncFunctionDef, ast.ClassDef)) and x.name == name:
            return True
        if isinstance(x, ast.Name) and x.id == name and isinstance(x.ctx, (ast.Store, ast.Del)):
            return True
        if isinstance(x, ast.arg) and x.arg == name:
            return True
        if isinstance(x, ast.alias) and (x.asname or x.name).split('.')[0] == name:
            return True
        if isinstance(x, ast.alias) and x.name == '*':
            return True
        if isinstance(x, (ast.Global, ast.Nonlocal)) and name in x.names:
            return True
    return False


def materialize_private_imports(tree, path):
    """Stage 0 (before stage 1).  ``from ._private import helper`` where ``_private`` is a private sibling module and ``helper``
    a *closed* plain function there (it reads nothing but its parameters, its own locals and builtins that neither module
    re-binds; constant defaults; no decorators, annotations, generators, nested definitions): a call ``helper(..)`` in this
    module behaves exactly like a call of a copy of that definition placed in this module.  The copy is added under a
    private name no one else mentions and the direct calls are pointed at it, so that stage 1 can treat it like any private
    helper of this module; the import (and with it every other use of the name) stays as it is.  Returns the number of
    definitions copied."""
    import builtins
    import os
    n_done = 0
    pkgdir = os.path.dirname(path)
    for st in list(tree.body):
        if not isinstance(st, ast.ImportFrom) or st.level != 1 or not st.module or '.' in st.module or \
                not st.module.startswith('_') or st.module.startswith('__'):
            continue
        src = os.path.join(pkgdir, st.module + '.py')
        if not os.path.isfile(src):
            continue
        try:
            with open(src, 'rb') as f:
                other = ast.parse(f.read().decode('utf-8'), filename=src)
        except (SyntaxError, UnicodeDecodeError, OSError):
            continue
        for a in st.names:
            local = a.asname or a.name
            defs = [d for d in other.body if isinstance(d, ast.FunctionDef) and d.name == a.name]
            if len(defs) != 1 or not _bound_once(other, a.name) or not _bound_once(tree, local):
                continue
            fn = defs[0]
            if fn.decorator_list or fn.returns is not None or _eligible_def(fn, any_name=True) != 'func':
                continue
            args = fn.args
            if args.kwarg is not None or any(x.annotation is not None for x in args.posonlyargs + args.args + args.kwonlyargs):
                continue
            if not all(d is None or isinstance(d, ast.Constant) for d in list(args.defaults) + list(args.kw_defaults)):
                continue
            if any(isinstance(x, ast.AnnAssign) for x in ast.walk(fn)):
                continue
            free = _free_names(fn)
            if free is None or not all(hasattr(builtins, x) and not _binds_anywhere(other, x) and not _binds_anywhere(tree, x) for x in free):
                continue
            calls = [c for c in ast.walk(tree) if isinstance(c, ast.Call) and isinstance(c.func, ast.Name) and c.func.id == local]
            if not calls:
                continue
            priv = '_vt_imp_' + local.lstrip('_')
            if _binds_anywhere(tree, priv) or any(isinstance(x, ast.Name) and x.id == priv for x in ast.walk(tree)):
                continue
            new = copy.deepcopy(fn)
            new.name = priv
            tree.body.insert(tree.body.index(st) + 1, new)
            for c in calls:
                c.func = ast.copy_location(ast.Name(id=priv, ctx=ast.Load()), c.func)
            n_done += 1
    return n_done
