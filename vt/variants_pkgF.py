"""Variants for C12 / C13: the kinds of rewrite the rules were taught to accept (T) and the judgements added (B)."""
from .variants import B, T, S, C, R, A, E, ST, CK, STATS, GZ, CC, PF, RS, FL, META, CE

_TAG = ('        try:\n'
        '            # some request objects might not be amenable to assignment\n'
        '            request.request_id = next(_REQ_ID_ITER)\n'
        '        except Exception:\n'
        '            pass\n'
        '        else:\n'
        '            request.request_guid = int2hexguid(request.request_id)\n')
_CALL = ('    def __call__(self, environ, start_response):\n'
         '        return self._dispatch_wsgi(environ, start_response)\n')

# ---- C12 / R12.c: the id tagging extracted into a helper (static, try/except-return) ---------------------------------
T('f_c12_tag_helper_static', ['C12', 'C13'],
  (A, _TAG, '        self._tag(request)\n'),
  (A, _CALL, _CALL + '\n    @staticmethod\n    def _tag(req):\n        try:\n            req.request_id = next(_REQ_ID_ITER)\n'
                     '        except Exception:\n            return\n        req.request_guid = int2hexguid(req.request_id)\n'))
T('f_c12_tag_helper_public', ['C12', 'C13'],
  (A, _TAG, '        self.tag_request(request)\n'),
  (A, _CALL, _CALL + '\n    def tag_request(self, req):\n        try:\n            req.request_id = next(_REQ_ID_ITER)\n'
                     '        except Exception:\n            return\n        req.request_guid = int2hexguid(req.request_id)\n'))
# the same helper, but also handed a long-lived object: the parameter no longer has a per-request role
B('f_c12_tag_helper_public_also_on_app', ['C12'], 'R12.a',
  (A, _TAG, '        self.tag_request(request)\n        self.tag_request(self)\n'),
  (A, _CALL, _CALL + '\n    def tag_request(self, req):\n        try:\n            req.request_id = next(_REQ_ID_ITER)\n'
                     '        except Exception:\n            return\n        req.request_guid = int2hexguid(req.request_id)\n'))
# ... a public helper (not dissolved by the front-end) that builds and tags the request: followed through the call graph
T('f_c12_make_request_public', ['C12', 'C13'],
  (A, '        request = self.request_type(environ)\n' + _TAG, '        request = self.make_request(environ)\n'),
  (A, _CALL, _CALL + '\n    def make_request(self, environ):\n        req = self.request_type(environ)\n        try:\n'
                     '            req.request_id = next(_REQ_ID_ITER)\n        except Exception:\n            return req\n'
                     '        req.request_guid = int2hexguid(req.request_id)\n        return req\n'))
T('f_c12_rename_request', ['C12', 'C13'],
  (A, '        request = self.request_type(environ)\n' + _TAG + '        try:\n            response = self.dispatch(request)\n',
      '        req = self.request_type(environ)\n' + _TAG.replace('request.', 'req.') + '        try:\n            response = self.dispatch(req)\n'))
# the id is advanced a second time on the request path (another live function also stores request_id)
B('f_c12_second_id_store', ['C12'], 'R12.c',
  (A, '            response = self.dispatch(request)\n', '            self.retag(request)\n            response = self.dispatch(request)\n'),
  (A, _CALL, _CALL + '\n    def retag(self, request):\n        request.request_id = next(_REQ_ID_ITER)\n'))
# the id lands on an object that is not the request built from this call's environ
B('f_c12_id_on_shared_object', ['C12'], 'R12.c',
  (A, '            request.request_id = next(_REQ_ID_ITER)\n', '            self.request_id = next(_REQ_ID_ITER)\n'))
B('f_c12_guid_of_other_id', ['C12'], 'R12.c',
  (A, 'request.request_guid = int2hexguid(request.request_id)', 'request.request_guid = int2hexguid(id(request))'))
B('f_c12_counter_with_start_rebuilt', ['C12'], 'R12.c',
  (A, '_REQ_ID_ITER = itertools.count()\n', '_REQ_ID_ITER = itertools.count()\n_REQ_ID_ITER = itertools.count()\n'))

# ---- C13 / R13.a ------------------------------------------------------------------------------------------------------
T('f_c13_named_delegates', ['C13', 'C12'],
  (A, '        except RerouteWSGI as rre:\n            return rre.wsgi_app(environ, start_response)\n        return response(environ, start_response)\n',
      '        except RerouteWSGI as reroute:\n            target = reroute.wsgi_app\n            return target(environ, start_response)\n'
      '        else:\n            return response(environ, start_response)\n'),
  (A, '        return self._dispatch_wsgi(environ, start_response)\n',
      '        entry = self._dispatch_wsgi\n        return entry(environ, start_response)\n'))
B('f_c13_named_delegate_not_dispatch', ['C13'], 'R13.a',
  (A, '        return response(environ, start_response)\n',
      '        answer = self.response_type(\'\')\n        return answer(environ, start_response)\n'))
B('f_c13_call_alias_bypasses_stack', ['C13'], 'R13.a',
  (A, '        return self._dispatch_wsgi(environ, start_response)\n',
      '        entry = type(self)._dispatch_wsgi\n        return entry(self, environ, start_response)\n'))

# ---- C13 / R13.b ------------------------------------------------------------------------------------------------------
_LOOP = ('        all_mws = _get_all_middlewares(self.routes, self.middlewares)\n'
         '        for mw in reversed(all_mws):\n'
         "            self._dispatch_wsgi = _safe_wrap_wsgi('middleware', mw, self._dispatch_wsgi)\n"
         '        return\n')
T('f_c13_slice_reversal_named_temp', ['C13'],
  (A, _LOOP, '        for mw in _get_all_middlewares(self.routes, self.middlewares)[::-1]:\n'
             "            wrapped = _safe_wrap_wsgi(source_name='middleware', source=mw, inner=self._dispatch_wsgi)\n"
             '            self._dispatch_wsgi = wrapped\n        return\n'))
T('f_c13_wrap_loop_public_method', ['C13'],
  (A, _LOOP, '        self.wrap_stack(_get_all_middlewares(self.routes, self.middlewares))\n        return\n\n'
             '    def wrap_stack(self, mws):\n        for mw in mws[::-1]:\n'
             "            self._dispatch_wsgi = _safe_wrap_wsgi('middleware', mw, self._dispatch_wsgi)\n"))
B('f_c13_slice_not_reversed', ['C13'], 'R13.b',
  (A, '        for mw in reversed(all_mws):', '        for mw in all_mws[::1]:'))
B('f_c13_wrap_skips_some', ['C13'], 'R13.b',
  (A, "            self._dispatch_wsgi = _safe_wrap_wsgi('middleware', mw, self._dispatch_wsgi)\n        return\n",
      "            self._dispatch_wsgi = _safe_wrap_wsgi('middleware', mw, self._dispatch_wsgi)\n            break\n        return\n"))
B('f_c13_wrap_before_routes', ['C13'], 'R13.b',
  (A, '        for entry in routes:\n            self.add(entry)\n\n' + _LOOP,
      _LOOP.replace('        return\n', '') + '        for entry in routes:\n            self.add(entry)\n        return\n'))
_GM = ('    for broute in reversed(bound_routes):\n'
       '        for mw in broute.middlewares:\n'
       "            # use list and eq so mws don't have to be hashable\n"
       '            if mw not in all_mw:\n'
       '                all_mw.append(mw)\n')
T('f_c13_collect_chain_continue', ['C13'],
  (A, _GM, '    per_route = (broute.middlewares for broute in reversed(bound_routes))\n'
           '    for mw in itertools.chain.from_iterable(per_route):\n'
           '        if mw in all_mw:\n            continue\n        all_mw.append(mw)\n'))
T('f_c13_collect_flat_comprehension', ['C13'],
  (A, _GM, '    for mw in [m for broute in reversed(bound_routes) for m in broute.middlewares]:\n'
           '        if not mw in all_mw:\n            all_mw.append(mw)\n'))
B('f_c13_collect_chain_inner_reversed', ['C13'], 'R13.b',
  (A, _GM, '    per_route = (reversed(broute.middlewares) for broute in reversed(bound_routes))\n'
           '    for mw in itertools.chain.from_iterable(per_route):\n'
           '        if mw in all_mw:\n            continue\n        all_mw.append(mw)\n'))
B('f_c13_collect_continue_wrong_polarity', ['C13'], 'R13.b',
  (A, _GM, '    for broute in reversed(bound_routes):\n        for mw in broute.middlewares:\n'
           '            if mw not in all_mw:\n                continue\n            all_mw.append(mw)\n'))
_CV = ("    if (not len(wc_args) == 2\n"
       "        or wc_args[0] != 'environ'\n"
       "        or wc_args[1] != 'start_response'):\n")
T('f_c13_valid_wsgi_predicate', ['C13'],
  (A, 'def check_valid_wsgi(wsgi_callable):\n',
      'def _wsgi_like(names):\n    if len(names) != 2:\n        return False\n    first, second = names\n'
      "    return first == 'environ' and second == 'start_response'\n\n\ndef check_valid_wsgi(wsgi_callable):\n"),
  (A, _CV, '    if not _wsgi_like(wc_args):\n'))
T('f_c13_valid_wsgi_list_compare', ['C13'],
  (A, _CV, "    if wc_args != ['environ', 'start_response']:\n"))
B('f_c13_valid_wsgi_and', ['C13'], 'R13.b',
  (A, _CV, "    if (not len(wc_args) == 2\n        or (wc_args[0] != 'environ'\n            and wc_args[1] != 'start_response')):\n"))
B('f_c13_valid_wsgi_first_only', ['C13'], 'R13.b',
  (A, _CV, "    if not wc_args or wc_args[0] != 'environ':\n"))
B('f_c13_valid_wsgi_swapped', ['C13'], 'R13.b',
  (A, _CV, "    if (not len(wc_args) == 2\n        or wc_args[1] != 'environ'\n        or wc_args[0] != 'start_response'):\n"))
# the three-way ``or`` as one comparison of the leading names with a module constant (folded)
_CVDEF = 'def check_valid_wsgi(wsgi_callable):\n'
T('f_c13_valid_wsgi_const_tuple', ['C13'],
  (A, _CVDEF, "_EXPECTED_LEADING = ('environ', 'start_response')\n\n\n" + _CVDEF),
  (A, _CV, "    if tuple(wc_args) != _EXPECTED_LEADING:\n"))
B('f_c13_valid_wsgi_const_tuple_wrong_names', ['C13'], 'R13.b',
  (A, _CVDEF, "_EXPECTED_LEADING = ('environ', 'start')\n\n\n" + _CVDEF),
  (A, _CV, "    if tuple(wc_args) != _EXPECTED_LEADING:\n"))
B('f_c13_valid_wsgi_const_tuple_first_only', ['C13'], 'R13.b',
  (A, _CVDEF, "_EXPECTED_LEADING = ('environ',)\n\n\n" + _CVDEF),
  (A, _CV, "    if tuple(wc_args[:1]) != _EXPECTED_LEADING:\n"))
B('f_c13_valid_wsgi_const_tuple_wrong_slice', ['C13'], 'R13.b',
  (A, _CVDEF, "_EXPECTED_LEADING = ('environ', 'start_response')\n\n\n" + _CVDEF),
  (A, _CV, "    if tuple(get_arg_names(wsgi_callable)[1:3]) != _EXPECTED_LEADING:\n"))
B('f_c13_valid_wsgi_const_tuple_rebound', ['C13'], 'R13.b',
  (A, _CVDEF, "_EXPECTED_LEADING = ('environ', 'start_response')\n_EXPECTED_LEADING = ('a', 'b')\n\n\n" + _CVDEF),
  (A, _CV, "    if tuple(wc_args) != _EXPECTED_LEADING:\n"))
B('f_c13_valid_wsgi_const_tuple_shadowed_by_local', ['C13'], 'R13.b',
  (A, _CVDEF, "_EXPECTED_LEADING = ('environ', 'start_response')\n\n\n" + _CVDEF),
  (A, _CV, "    _EXPECTED_LEADING = tuple(wc_args)\n    if tuple(wc_args) != _EXPECTED_LEADING:\n"))
T('f_c13_safe_wrap_renamed_locals', ['C13'],
  (A, "    wsgi_wrapper = getattr(source, 'wsgi_wrapper', None)\n    if wsgi_wrapper is None:\n        return inner  # no wsgi_wrapper, no problem\n"
      "    elif not callable(wsgi_wrapper):\n",
      "    wrapper = getattr(source, 'wsgi_wrapper', None)\n    if wrapper is None:\n        return inner\n    wsgi_wrapper = wrapper\n"
      "    if not callable(wrapper):\n"),
  (A, '    wrapped_wsgi = wsgi_wrapper(inner)\n    try:\n        check_valid_wsgi(wrapped_wsgi)\n',
      '    outer = wrapper(inner)\n    wrapped_wsgi = outer\n    try:\n        check_valid_wsgi(wsgi_callable=outer)\n'))
B('f_c13_safe_wrap_lookup_on_class', ['C13'], 'R13.b',
  (A, "    wsgi_wrapper = getattr(source, 'wsgi_wrapper', None)\n", "    wsgi_wrapper = getattr(type(source), 'wsgi_wrapper', None)\n"))
B('f_c13_safe_wrap_unvalidated_path', ['C13'], 'R13.b',
  (A, '    wrapped_wsgi = wsgi_wrapper(inner)\n    try:\n        check_valid_wsgi(wrapped_wsgi)\n',
      "    wrapped_wsgi = wsgi_wrapper(inner)\n    if source_name == 'error_handler':\n        return wrapped_wsgi\n    try:\n        check_valid_wsgi(wrapped_wsgi)\n"))

# ---- C13 / R13.c ------------------------------------------------------------------------------------------------------
T('f_c13_probe_with_block', ['C13'],
  (ST, '            open(file_path).close()\n', '            with open(file_path):\n                pass\n'))
T('f_c13_probe_named_and_closed', ['C13'],
  (ST, '            open(file_path).close()\n', '            probe = open(file_path)\n            probe.close()\n'))
B('f_c13_probe_named_conditionally_closed', ['C13'], 'R13.c',
  (ST, '            open(file_path).close()\n', '            probe = open(file_path)\n            if cache_timeout:\n                probe.close()\n'))
_GFR = ("        bfr = build_file_response\n"
        "        resp = bfr(self.file_path,\n"
        "                   cache_timeout=self.cache_timeout,\n"
        "                   cached_modify_time=request.if_modified_since,\n"
        "                   mimetype=self.mimetype,\n"
        "                   file_wrapper=request.environ.get('wsgi.file_wrapper',\n"
        "                                                    FileWrapper))\n"
        "        return resp\n")
_GFA = ("        bfr = build_file_response\n"
        "        resp = bfr(full_path,\n"
        "                   cache_timeout=self.cache_timeout,\n"
        "                   cached_modify_time=request.if_modified_since,\n"
        "                   mimetype=None,\n"
        "                   default_text_mime=self.default_text_mime,\n"
        "                   default_binary_mime=self.default_binary_mime,\n"
        "                   file_wrapper=request.environ.get('wsgi.file_wrapper',\n"
        "                                                    FileWrapper))\n"
        "        return resp\n")
T('f_c13_file_wrapper_named_direct_return', ['C13'],
  (ST, _GFA, "        server_wrapper = request.environ.get('wsgi.file_wrapper', FileWrapper)\n"
             "        return build_file_response(full_path, self.cache_timeout, request.if_modified_since, None,\n"
             "                                   self.default_text_mime, self.default_binary_mime, server_wrapper)\n"))
B('f_c13_file_wrapper_named_default_only', ['C13'], 'R13.c',
  (ST, _GFA, "        server_wrapper = FileWrapper\n"
             "        return build_file_response(full_path, self.cache_timeout, request.if_modified_since, None,\n"
             "                                   self.default_text_mime, self.default_binary_mime, server_wrapper)\n"))
T('f_c13_file_obj_alias', ['C13'],
  (ST, '    resp.response = file_wrapper(file_obj)\n', '    served_file = file_obj\n    resp.response = file_wrapper(served_file)\n'))
B('f_c13_other_response_gets_file', ['C13'], 'R13.c',
  (ST, '    resp.response = file_wrapper(file_obj)\n', "    side = response_type('')\n    side.response = file_wrapper(file_obj)\n"))

# ---- C12 / R12.a: the generated code, with the text assembled in other (equivalent) ways ------------------------------
_RET = "    return ''.join([def_str, body_str, htb_str + return_str])\n"
T('f_c12_chain_lines_appended', ['C12'],
  (S, _RET, "    lines = [def_str]\n    lines.append(body_str)\n    lines.append(htb_str)\n    lines.append(return_str)\n    return ''.join(lines)\n"))
T('f_c12_chain_positional_format', ['C12'],
  (S, "    htb_str = '%s__traceback_hide__ = True\\n' % (inner_indent,)\n    return_str = '%sreturn funcs[%s](%s)\\n' % (inner_indent, level, inner_args)\n",
      "    htb_str = '{0}__traceback_hide__ = True\\n'.format(inner_indent)\n    return_str = '{}return funcs[{}]({})\\n'.format(inner_indent, level, inner_args)\n"))
B('f_c12_chain_lines_appended_global', ['C12'], 'R12.a',
  (S, _RET, "    lines = [def_str]\n    lines.append(body_str)\n    lines.append('%sglobal last_level\\n%slast_level = %s\\n' % (inner_indent, inner_indent, level))\n"
            "    lines.append(htb_str)\n    lines.append(return_str)\n    return ''.join(lines)\n"))
B('f_c12_chain_format_heap_store', ['C12'], 'R12.a',
  (S, "    htb_str = '%s__traceback_hide__ = True\\n' % (inner_indent,)\n",
      "    htb_str = '{0}funcs[{1}].calls = 1\\n{0}__traceback_hide__ = True\\n'.format(inner_indent, level)\n"))
_FMT = ("    code_str = _REQ_INNER_TMPL.format(all_args=all_args_str,\n"
        "                                      endpoint_args=ep_args_str,\n"
        "                                      render_args=rn_args_str)\n"
        "    env = {'endpoint': endpoint, 'render': render, 'BaseResponse': BaseResponse}\n")
T('f_c12_core_format_fields_dict', ['C12'],
  (C, _FMT, "    fields = {'all_args': all_args_str, 'endpoint_args': ep_args_str, 'render_args': rn_args_str}\n"
            "    code_str = _REQ_INNER_TMPL.format(**fields)\n"
            "    env = dict(endpoint=endpoint, render=render, BaseResponse=BaseResponse)\n"))
B('f_c12_core_reads_unbound_shared_name', ['C12'], 'R12.a',
  (C, "    context = endpoint({endpoint_args})", "    context = endpoint({endpoint_args})\n    last_context = _shared"))
# the recursion of build_chain_str turned into a loop (no template per level any more: followed by running the builder on samples)
_BCS_OLD_HEAD = "    params_sofar.update(params[0])\n"
_LOOP_BODY = ("    defs, tails = [], []\n"
              "    for depth in range(len(funcs)):\n"
              "        cur = level + depth\n"
              "        params_sofar.update(params[depth])\n"
              "        names = sorted(set(get_fb(funcs[depth]).get_arg_names()))\n"
              "        kwargs = ', '.join(['%s=%s' % (n, n) for n in names if n in params_sofar])\n"
              "        defs.append('%sdef %s(%s):\\n' % (_INDENT * cur, inner_name, ', '.join(params[depth])))\n"
              "        tails.append('%s__traceback_hide__ = True\\n%sreturn funcs[%s](%s)\\n' % (_INDENT * (cur + 1), _INDENT * (cur + 1), cur, kwargs))\n"
              "    return ''.join(defs + tails[::-1])\n\n\n"
              "def _unused_recursive_form(funcs, params, inner_name, params_sofar, level):\n")
# (variant f_c12_chain_builder_loop* removed: a chain builder rewritten from recursion to a loop is beyond symbolic template
#  evaluation; the accepted outcome is an ANALYSIS-ERROR, and the text is never obtained by running the builder)

# ---- C13 / R13.a: one return for both delegates; the delegate's result named before it is returned ----------------------
_TAIL = ('        except RerouteWSGI as rre:\n            return rre.wsgi_app(environ, start_response)\n        return response(environ, start_response)\n')
T('f_c13_single_return_two_sources', ['C13', 'C12'],
  (A, _TAIL, '        except RerouteWSGI as rre:\n            response = rre.wsgi_app\n        return response(environ, start_response)\n'))
T('f_c13_named_result', ['C13'],
  (A, _TAIL, '        except RerouteWSGI as rre:\n            app_iter = rre.wsgi_app(environ, start_response)\n            return app_iter\n'
             '        body_iter = response(environ, start_response)\n        return body_iter\n'))
B('f_c13_single_return_foreign_source', ['C13'], 'R13.a',
  (A, _TAIL, '        except RerouteWSGI as rre:\n            response = self.response_type(repr(rre))\n        return response(environ, start_response)\n'))
B('f_c13_named_result_consumed', ['C13'], 'R13.a',
  (A, _TAIL, '        except RerouteWSGI as rre:\n            return rre.wsgi_app(environ, start_response)\n'
             '        body_iter = response(environ, start_response)\n        return list(body_iter)\n'))
B('f_c13_wrap_loop_sorted', ['C13'], 'R13.b',
  (A, '        for mw in reversed(all_mws):', '        for mw in all_mws[::-2]:'))

# ---- C12 / R12.b: a piece of BoundRoute.__init__ moved into a private method that only __init__ calls ------------------
_RES = ("        app_resources = getattr(app, 'resources', {})\n"
        "        self.resources = dict(app_resources)\n"
        "        self.resources.update(getattr(route, 'resources', {}))\n")
_BIND = "    def bind(self, app, **kwargs):\n        return BoundRoute(self, app, **kwargs)\n"
T('f_c12_ctor_part_method', ['C12'],
  (R, _RES, "        self._collect_resources(route, app)\n"),
  (R, _BIND, "    def _collect_resources(self, route, app):\n        def of(obj):\n            return getattr(obj, 'resources', {})\n"
             "        self.resources = dict(of(app))\n        self.resources.update(of(route))\n\n" + _BIND))
# ... the same method also reachable after construction: the route is no longer immutable
B('f_c12_ctor_part_method_called_later', ['C12'], 'R12.b',
  (R, _RES, "        self._collect_resources(route, app)\n"),
  (R, _BIND, "    def _collect_resources(self, route, app):\n        def of(obj):\n            return getattr(obj, 'resources', {})\n"
             "        self.resources = dict(of(app))\n        self.resources.update(of(route))\n\n"
             "    def refresh(self, app):\n        self._collect_resources(self.unbound_route, app)\n\n" + _BIND))

# ---- C12 / R12.a: ownership of what a per-request object holds --------------------------------------------------------
# A field of a per-request object that is updated in place (method call, ``op=``, through a local naming it) only ever
# receives objects allocated by the storing activation.
_UM = '        if methods:\n            self.allowed_methods.update(methods)\n'
_UMCALL = '                dispatch_state.update_methods(route.methods)\n'
_DSI = '        self.allowed_methods = set()\n'
# guard clauses; the first restricted route's own set is adopted, later ones are unioned into it with ``|=``
B('f_c12_adopt_then_ior', ['C12'], 'R12.a',
  (A, _UM, '        if not methods:\n            return\n        if not self.allowed_methods:\n            self.allowed_methods = methods\n            return\n'
           '        self.allowed_methods |= methods\n'))
# lazily initialised (None), adopted on first use, ``|=`` afterwards
B('f_c12_adopt_when_none_then_ior', ['C12'], 'R12.a',
  (A, _DSI, '        self.allowed_methods = None\n'),
  (A, _UM, '        if not methods:\n            return\n        if self.allowed_methods is None:\n            self.allowed_methods = methods\n'
           '        self.allowed_methods |= methods\n'))
# adoption through a local, in-place update by method call
B('f_c12_adopt_via_local_then_update', ['C12'], 'R12.a',
  (A, _UM, '        first = methods\n        if methods and not self.allowed_methods:\n            self.allowed_methods = first\n'
           '        elif methods:\n            self.allowed_methods.update(methods)\n'))
# ... member by member
B('f_c12_adopt_then_add', ['C12'], 'R12.a',
  (A, _UM, '        if methods and not self.allowed_methods:\n            self.allowed_methods = methods\n            return\n'
           '        for m in methods or ():\n            self.allowed_methods.add(m)\n'))
# the in-place update goes through a local that names the field's object
B('f_c12_adopt_then_ior_through_alias', ['C12'], 'R12.a',
  (A, _UM, '        if not methods:\n            return\n        seen = self.allowed_methods\n        if not seen:\n            self.allowed_methods = methods\n'
           '            return\n        seen |= methods\n'))
# the adoption happens outside the class, where the dispatch state is at hand under its role name
B('f_c12_adopt_from_dispatch_loop', ['C12'], 'R12.a',
  (A, _UMCALL, '                if dispatch_state.allowed_methods:\n                    dispatch_state.update_methods(route.methods)\n'
               '                else:\n                    dispatch_state.allowed_methods = route.methods\n'))
# ... by setattr / in an unpacking assignment
B('f_c12_adopt_by_setattr', ['C12'], 'R12.a',
  (A, _UM, "        if methods and not self.allowed_methods:\n            setattr(self, 'allowed_methods', methods)\n"
           '        elif methods:\n            self.allowed_methods.update(methods)\n'))
B('f_c12_adopt_in_unpacking', ['C12'], 'R12.a',
  (A, _UM, '        if methods and not self.allowed_methods:\n            self.allowed_methods, self.first_methods = methods, True\n'
           '        elif methods:\n            self.allowed_methods.update(methods)\n'))
# a list field: module-level "empty" default shared by every dispatch state, extended with ``+=``
B('f_c12_shared_default_list_iadd', ['C12'], 'R12.a',
  (A, 'class DispatchState(object):\n', '_NO_EXCEPTIONS = []\n\n\nclass DispatchState(object):\n'),
  (A, '        self.exceptions = []\n', '        self.exceptions = _NO_EXCEPTIONS\n'),
  (A, '        self.exceptions.append(exception)\n', '        self.exceptions += [exception]\n'))
# an augmented assignment on a local that names a shared object is an in-place update of that object
B('f_c12_route_set_ior_through_local', ['C12'], 'R12.a',
  (A, _UMCALL, '                refused = route.methods\n                refused |= dispatch_state.allowed_methods\n'
               '                dispatch_state.update_methods(refused)\n'))
B('f_c12_param_ior', ['C12'], 'R12.a',
  (A, _UM, '        if methods:\n            methods |= self.allowed_methods\n            self.allowed_methods = set(methods)\n'))
# equivalent correct spellings
T('f_c12_guard_clause_ior_own_set', ['C12'],
  (A, _UM, '        if not methods:\n            return\n        self.allowed_methods |= methods\n'))
T('f_c12_copy_then_ior', ['C12'],
  (A, _UM, '        if not methods:\n            return\n        if not self.allowed_methods:\n            self.allowed_methods = set(methods)\n            return\n'
           '        self.allowed_methods |= methods\n'))
T('f_c12_copy_through_local_then_update', ['C12'],
  (A, _UM, '        if not methods:\n            return\n        own = set(methods)\n        if not self.allowed_methods:\n            self.allowed_methods = own\n'
           '        else:\n            self.allowed_methods.update(own)\n'))
T('f_c12_rebuilding_union', ['C12'],
  (A, _UM, '        if methods:\n            self.allowed_methods = self.allowed_methods | methods\n'))
T('f_c12_lazy_none_own_set', ['C12'],
  (A, _DSI, '        self.allowed_methods = None\n'),
  (A, _UM, '        if not methods:\n            return\n        if self.allowed_methods is None:\n            self.allowed_methods = set()\n'
           '        self.allowed_methods |= methods\n'))
T('f_c12_update_through_alias_own_set', ['C12'],
  (A, _UM, '        seen = self.allowed_methods\n        if methods:\n            seen |= methods\n'))
T('f_c12_update_from_dispatch_loop', ['C12'],
  (A, _UMCALL, '                if route.methods:\n                    dispatch_state.allowed_methods |= route.methods\n'))
# a counter field re-bound with ``+=`` may be seeded from a number handed in
T('f_c12_counter_field', ['C12'],
  (A, '    def __init__(self):\n        self.exceptions = []\n', '    def __init__(self, first_attempt=0):\n        self.attempts = first_attempt\n        self.exceptions = []\n'),
  (A, '        self.attempted_routes.append(route)\n', '        self.attempted_routes.append(route)\n        self.attempts += 1\n'))
T('f_c12_local_accumulators', ['C12'],
  (A, _UMCALL, '                refused = set()\n                refused |= route.methods\n                dispatch_state.update_methods(refused)\n'))
T('f_c12_copy_method_then_ior', ['C12'],
  (A, _UM, '        if not methods:\n            return\n        if not self.allowed_methods:\n            self.allowed_methods = methods.copy()\n            return\n'
           '        self.allowed_methods |= methods\n'))
T('f_c12_union_through_local_then_update', ['C12'],
  (A, _UM, '        if methods:\n            merged = self.allowed_methods.union(methods)\n            self.allowed_methods = merged\n            self.allowed_methods.discard(None)\n'))

# ---- C13 / R13.b: the stack being wrapped is named first; the walk runs over a list of groups --------------------------
_SEH = "        self._dispatch_wsgi = _safe_wrap_wsgi('error_handler', error_handler, self._dispatch_wsgi)\n"
_WL = "            self._dispatch_wsgi = _safe_wrap_wsgi('middleware', mw, self._dispatch_wsgi)\n"
T('f_c13_inner_named_before_wrap', ['C13'],
  (A, _SEH, "        inner_wsgi = self._dispatch_wsgi\n"
            "        self._dispatch_wsgi = _safe_wrap_wsgi(source_name='error_handler', source=error_handler, inner=inner_wsgi)\n"),
  (A, _WL, "            below = self._dispatch_wsgi\n            self._dispatch_wsgi = _safe_wrap_wsgi('middleware', mw, below)\n"))
# the stack is read once, before the loop: every wrapper wraps the bare application, only the last one survives
B('f_c13_inner_read_before_loop', ['C13'], 'R13.b',
  (A, '        for mw in reversed(all_mws):\n' + _WL,
      "        below = self._dispatch_wsgi\n        for mw in reversed(all_mws):\n            self._dispatch_wsgi = _safe_wrap_wsgi('middleware', mw, below)\n"))
# ... read before the render check re-installs a handler
B('f_c13_inner_read_before_rebinding_call', ['C13'], 'R13.b',
  (A, '        check_render_error(error_handler.render_error, self.resources)\n' + _SEH,
      "        inner_wsgi = self._dispatch_wsgi\n        if error_handler is not self.error_handler_fallback:\n            self.set_error_handler(self.error_handler_fallback)\n"
      "        check_render_error(error_handler.render_error, self.resources)\n"
      "        self._dispatch_wsgi = _safe_wrap_wsgi('error_handler', error_handler, inner_wsgi)\n"))
B('f_c13_inner_is_not_the_stack', ['C13'], 'R13.b',
  (A, _SEH, "        inner_wsgi = self._dispatch_wsgi_unwrapped\n"
            "        self._dispatch_wsgi = _safe_wrap_wsgi('error_handler', error_handler, inner_wsgi)\n"))
_GMA = ('    for mw in app_middlewares:\n'
        '        if mw not in all_mw:\n'
        '            all_mw.append(mw)\n'
        '\n')
_GROUP_LOOP = ('    for mw_group in mw_groups:\n        for mw in mw_group:\n'
               '            if mw not in all_mw:\n                all_mw.append(mw)\n')
T('f_c13_collect_groups_list', ['C13'],
  (A, _GMA, ''),
  (A, _GM, '    mw_groups = [app_middlewares]\n    mw_groups.extend(broute.middlewares for broute in reversed(bound_routes))\n' + _GROUP_LOOP))
T('f_c13_collect_groups_concatenated', ['C13'],
  (A, _GMA, ''),
  (A, _GM, '    mw_groups = [app_middlewares] + [broute.middlewares for broute in reversed(bound_routes)]\n' + _GROUP_LOOP))
# the application's own group comes after the routes' groups
B('f_c13_collect_groups_app_last', ['C13'], 'R13.b',
  (A, _GMA, ''),
  (A, _GM, '    mw_groups = [broute.middlewares for broute in reversed(bound_routes)]\n    mw_groups.append(app_middlewares)\n' + _GROUP_LOOP))
# the application's own group is missing / only present per route
B('f_c13_collect_groups_routes_only', ['C13'], 'R13.d',
  (A, _GMA, ''),
  (A, _GM, '    mw_groups = []\n    mw_groups.extend(broute.middlewares for broute in reversed(bound_routes))\n' + _GROUP_LOOP))
B('f_c13_collect_groups_app_per_route', ['C13'], 'R13.d',
  (A, _GMA, ''),
  (A, _GM, '    mw_groups = []\n    mw_groups.extend(app_middlewares + broute.middlewares for broute in reversed(bound_routes))\n' + _GROUP_LOOP))
# the groups hold each route's list backwards
B('f_c13_collect_groups_inner_reversed', ['C13'], 'R13.b',
  (A, _GMA, ''),
  (A, _GM, '    mw_groups = [app_middlewares]\n    mw_groups.extend(broute.middlewares[::-1] for broute in reversed(bound_routes))\n' + _GROUP_LOOP))

# ---- C13 / R13.e: the wrapped entry point is never removed / replaced after construction -------------------------------
# who may write the entry slot: the application class, through self, and only a wrapping of its current value; no spelling
# deletes it (the attribute would fall back to the bare method and every wrapper would be gone for later requests)
_CRE = '        check_render_error(error_handler.render_error, self.resources)\n'
B('f_c13_entry_del_guarded', ['C13'], 'R13.e',
  (A, _CRE + _SEH, _CRE + "        if '_dispatch_wsgi' in self.__dict__:\n            del self._dispatch_wsgi\n" + _SEH))
B('f_c13_entry_vars_pop', ['C13'], 'R13.e',
  (A, _CRE + _SEH, _CRE + "        vars(self).pop('_dispatch_wsgi', None)\n" + _SEH))
B('f_c13_entry_delattr_try', ['C13'], 'R13.e',
  (A, _CRE + _SEH, _CRE + "        try:\n            delattr(self, '_dispatch_wsgi')\n        except AttributeError:\n            pass\n" + _SEH))
B('f_c13_entry_ns_alias_pop', ['C13'], 'R13.e',
  (A, _CRE + _SEH, _CRE + "        own = self.__dict__\n        own.pop('_dispatch_wsgi', None)\n" + _SEH))
B('f_c13_entry_object_delattr', ['C13'], 'R13.e',
  (A, _CRE + _SEH, _CRE + "        if '_dispatch_wsgi' in vars(self):\n            object.__delattr__(self, '_dispatch_wsgi')\n" + _SEH))
# the slot is rebuilt from the bare method, by other spellings of a store
B('f_c13_entry_setattr_rebuilt', ['C13'], 'R13.e',
  (A, _SEH, "        setattr(self, '_dispatch_wsgi', _safe_wrap_wsgi('error_handler', error_handler, type(self)._dispatch_wsgi.__get__(self)))\n"))
B('f_c13_entry_dict_item_rebuilt', ['C13'], 'R13.e',
  (A, _SEH, "        self.__dict__['_dispatch_wsgi'] = _safe_wrap_wsgi('error_handler', error_handler, type(self)._dispatch_wsgi.__get__(self))\n"))
B('f_c13_entry_dict_update_rebuilt', ['C13'], 'R13.e',
  (A, _SEH, "        self.__dict__.update(_dispatch_wsgi=_safe_wrap_wsgi('error_handler', error_handler, type(self)._dispatch_wsgi.__get__(self)))\n"))
# ... somewhere else than in set_error_handler: add() "refreshes" the entry point; another class / module touches it
B('f_c13_entry_reset_in_add', ['C13'], 'R13.e',
  (A, '        rf = cast_to_route_factory(entry)\n', "        rf = cast_to_route_factory(entry)\n        self.__dict__.pop('_dispatch_wsgi', None)\n"))
B('f_c13_entry_plain_store_in_add', ['C13'], 'R13.e',
  (A, '        rf = cast_to_route_factory(entry)\n',
      "        rf = cast_to_route_factory(entry)\n        self._dispatch_wsgi = _safe_wrap_wsgi('error_handler', self.error_handler, type(self)._dispatch_wsgi.__get__(self))\n"))
B('f_c13_entry_popped_by_subapplication', ['C13'], 'R13.e',
  (A, "        kwargs['prefix'] = self.prefix\n", "        kwargs['prefix'] = self.prefix\n        vars(self.app).pop('_dispatch_wsgi', None)\n"))
B('f_c13_entry_written_from_outside', ['C13'], 'R13.e',
  (A, "        kwargs['prefix'] = self.prefix\n", "        kwargs['prefix'] = self.prefix\n        app._dispatch_wsgi = _safe_wrap_wsgi('error_handler', app.error_handler, app._dispatch_wsgi)\n"))
B('f_c13_entry_namespace_cleared', ['C13'], 'R13.e',
  (A, '        rf = cast_to_route_factory(entry)\n',
      "        rf = cast_to_route_factory(entry)\n        if kwargs.get('reset'):\n            self.__dict__.clear()\n"))
# equivalent / unrelated spellings stay silent: a wrapping store spelled setattr; reads of the namespace; another key
T('f_c13_entry_store_by_setattr', ['C13'],
  (A, _SEH, "        setattr(self, '_dispatch_wsgi', _safe_wrap_wsgi('error_handler', error_handler, self._dispatch_wsgi))\n"))
T('f_c13_entry_namespace_reads', ['C13'],
  (A, _CRE + _SEH, _CRE + "        already_wrapped = '_dispatch_wsgi' in self.__dict__\n        previous = vars(self).get('_dispatch_wsgi')\n" + _SEH))
T('f_c13_entry_other_key_popped', ['C13'],
  (A, _CRE + _SEH, _CRE + "        self.__dict__.pop('_error_handler_cache', None)\n        vars(self).pop('_fallback', None)\n" + _SEH))
T('f_c13_entry_second_wrapping_method', ['C13'],
  (A, "    def iter_routes(self):\n        for rt in self.routes:\n",
      "    def add_wsgi_wrapper(self, source):\n        self._dispatch_wsgi = _safe_wrap_wsgi('wrapper', source, self._dispatch_wsgi)\n\n"
      "    def iter_routes(self):\n        for rt in self.routes:\n"))
# the stack is named before a namespace spelling removes the slot in between: the local is stale
B('f_c13_entry_pop_between_read_and_store', ['C13'], 'R13.e',
  (A, _SEH, "        inner_wsgi = self._dispatch_wsgi\n        self.__dict__.pop('_dispatch_wsgi', None)\n"
            "        self._dispatch_wsgi = _safe_wrap_wsgi('error_handler', error_handler, inner_wsgi)\n"))

# ---- C13 / R13.b: the wrappers applied by functools.reduce / accumulated in a local ------------------------------------
_STEP = ("def _wrap_one(inner, mw):\n    return _safe_wrap_wsgi('middleware', mw, inner)\n\n\n"
         "def _safe_wrap_wsgi(source_name, source, inner):\n")
_SWDEF = "def _safe_wrap_wsgi(source_name, source, inner):\n"
_IMP = 'import itertools\n'
_LOOP2 = ('        for mw in reversed(all_mws):\n' + _WL)
T('f_c13_wrap_reduce_step_function', ['C13'],
  (A, _IMP, 'import functools\n' + _IMP), (A, _SWDEF, _STEP),
  (A, _LOOP2, '        self._dispatch_wsgi = functools.reduce(_wrap_one, reversed(all_mws), self._dispatch_wsgi)\n'))
T('f_c13_wrap_reduce_lambda_named_result', ['C13'],
  (A, _IMP, 'from functools import reduce\n' + _IMP),
  (A, _LOOP2, "        stack = reduce(lambda inner, mw: _safe_wrap_wsgi('middleware', mw, inner), all_mws[::-1], self._dispatch_wsgi)\n"
              '        self._dispatch_wsgi = stack\n'))
T('f_c13_wrap_accumulated_in_local', ['C13'],
  (A, _LOOP2, "        stack = self._dispatch_wsgi\n        for mw in reversed(all_mws):\n            stack = _safe_wrap_wsgi('middleware', mw, stack)\n"
              '        self._dispatch_wsgi = stack\n'))
B('f_c13_wrap_reduce_not_reversed', ['C13'], 'R13.b',
  (A, _IMP, 'import functools\n' + _IMP), (A, _SWDEF, _STEP),
  (A, _LOOP2, '        self._dispatch_wsgi = functools.reduce(_wrap_one, all_mws, self._dispatch_wsgi)\n'))
B('f_c13_wrap_reduce_step_swapped', ['C13'], 'R13.b',
  (A, _IMP, 'import functools\n' + _IMP), (A, _SWDEF, _STEP.replace("'middleware', mw, inner", "'middleware', inner, mw")),
  (A, _LOOP2, '        self._dispatch_wsgi = functools.reduce(_wrap_one, reversed(all_mws), self._dispatch_wsgi)\n'))
B('f_c13_wrap_reduce_from_bare_method', ['C13'], 'R13.b',
  (A, _IMP, 'import functools\n' + _IMP), (A, _SWDEF, _STEP),
  (A, _LOOP2, '        self._dispatch_wsgi = functools.reduce(_wrap_one, reversed(all_mws), type(self)._dispatch_wsgi.__get__(self))\n'))
B('f_c13_wrap_accumulated_never_stored_back', ['C13'], 'R13.b',
  (A, _LOOP2, "        stack = self._dispatch_wsgi\n        for mw in reversed(all_mws):\n            stack = _safe_wrap_wsgi('middleware', mw, stack)\n"))
B('f_c13_wrap_accumulated_restarts', ['C13'], 'R13.b',
  (A, _LOOP2, "        stack = self._dispatch_wsgi\n        for mw in reversed(all_mws):\n            stack = _safe_wrap_wsgi('middleware', mw, self._dispatch_wsgi)\n"
              '        self._dispatch_wsgi = stack\n'))
# ---- C13 / R13.b: the two walks of _get_all_middlewares come out of one source line (chain(...) split by the front-end) --
T('f_c13_collect_chain_of_both', ['C13'],
  (A, _GMA, ''),
  (A, _GM, '    route_mws = itertools.chain.from_iterable(broute.middlewares for broute in reversed(bound_routes))\n'
           '    for mw in itertools.chain(app_middlewares, route_mws):\n        if mw not in all_mw:\n            all_mw.append(mw)\n'))
T('f_c13_collect_helper_result_aliased', ['C13'],
  (A, 'def _get_all_middlewares(bound_routes, app_middlewares=()):\n',
      'def _add_new(seen, candidates):\n    for candidate in candidates:\n        if candidate not in seen:\n            seen.append(candidate)\n    return seen\n\n\n'
      'def _get_all_middlewares(bound_routes, app_middlewares=()):\n'),
  (A, '    all_mw = []\n', ''), (A, _GMA, '    all_mw = _add_new([], app_middlewares)\n'),
  (A, _GM + '\n    return all_mw\n', '    per_route = (broute.middlewares for broute in reversed(bound_routes))\n'
                                       '    return _add_new(all_mw, itertools.chain.from_iterable(per_route))\n'))
B('f_c13_collect_chain_routes_first', ['C13'], 'R13.b',
  (A, _GMA, ''),
  (A, _GM, '    route_mws = itertools.chain.from_iterable(broute.middlewares for broute in reversed(bound_routes))\n'
           '    for mw in itertools.chain(route_mws, app_middlewares):\n        if mw not in all_mw:\n            all_mw.append(mw)\n'))

# =====================================================================================================================
# C12: state that survives the request -- the four kinds, in the core (R12.a) and in the rest of the tree (R12.e)
# =====================================================================================================================
URL = 'clastic/middleware/url.py'
FORM = 'clastic/middleware/form.py'
TAB = 'clastic/render/tabular.py'
_GZ_COMP = '        comp_content = gzip_bytes(resp.data, self.compress_level)\n'
_URL_KW = ('    def request(self, next, request):\n        kwargs = {}\n        for p_name, p_type in self.params.items():\n'
           '            kwargs[p_name] = request.args.get(p_name, None, p_type)\n')
_FORM_KW = ('    def request(self, next, request):\n        kwargs = {}\n        for p_name, p_type in self.params.items():\n'
            '            kwargs[p_name] = request.form.get(p_name, None, p_type)\n')
_RS_MIME = "        resp_mime = self._format_mime_map.get(req_format)\n"
_RS_INIT = "        self.qp_name = kwargs.pop('qp_name', 'format')\n"
_SFR = ('    def get_file_response(self, request):\n        bfr = build_file_response\n        resp = bfr(self.file_path,\n')
_CK_EXP = "        self['_expires'] = epoch_time\n"
_CK_SAVE = ('        save_cookie_kwargs = dict(key=self.cookie_name,\n'
            '                                  domain=self.domain,\n'
            '                                  path=self.path,\n'
            '                                  secure=self.secure,\n'
            '                                  httponly=self.http_only)\n')

# ---- kind 1: memo caches / counters on objects that outlive the request ----------------------------------------------------
B('f_c12_ring_gzip_ratio_on_self', ['C12'], 'R12.e',
  (GZ, _GZ_COMP, _GZ_COMP + '        self.last_ratio = len(comp_content) / float(len(resp.data) or 1)\n'))
B('f_c12_ring_render_memo_through_local', ['C12'], 'R12.e',
  (RS, _RS_INIT, _RS_INIT + '        self._mime_memo = {}\n'),
  (RS, _RS_MIME, '        memo = self._mime_memo\n' + _RS_MIME + '        memo[req_format] = resp_mime\n'))
B('f_c12_ring_static_route_hit_counter', ['C12'], 'R12.e',
  (ST, _SFR, '    def get_file_response(self, request):\n        self.served = getattr(self, \'served\', 0) + 1\n'
             '        bfr = build_file_response\n        resp = bfr(self.file_path,\n'))
B('f_c12_ring_static_app_lookup_memo', ['C12'], 'R12.e',
  (ST, '            full_path = find_file(self.search_paths, path)\n',
       "            known = self.__dict__.setdefault('_known', {})\n            full_path = known.get(path) or find_file(self.search_paths, path)\n"
       '            self._known[path] = full_path\n'))
B('f_c12_ring_tabular_last_route', ['C12'], 'R12.e',
  (TAB, "        content_parts = [self._html_wrapper]\n", "        self._last_route = _route\n        content_parts = [self._html_wrapper]\n"))
# the renderer's own table filled in by its constructor; a per-request dict; a copy of a field: all silent
T('f_c12_ring_ctor_fills_own_table', ['C12'],
  (RS, _RS_INIT, _RS_INIT + '        self._mime_memo = {}\n        self._mime_memo[None] = self._default_mime\n'))
T('f_c12_ring_fresh_memo_per_request', ['C12'],
  (RS, _RS_MIME, '        memo = {}\n' + _RS_MIME + '        memo[req_format] = resp_mime\n'))
T('f_c12_ring_copy_of_field_updated', ['C12'],
  (URL, _URL_KW, '    def request(self, next, request):\n        kwargs = dict(self.params)\n        for p_name, p_type in self.params.items():\n'
                 '            kwargs[p_name] = request.args.get(p_name, None, p_type)\n'))
T('f_c12_ring_cookie_instance_write', ['C12'],
  (CK, _CK_EXP, _CK_EXP + "        self.modified = True\n        self.setdefault('_seen', []).append(epoch_time)\n"))

# ---- kind 2: defaults evaluated once ---------------------------------------------------------------------------------------
# core: the default object is updated in place -- whatever the parameter is called (``headers`` has a per-request role name)
B('f_c12_default_set_updated', ['C12'], 'R12.a',
  (A, '    def update_methods(self, methods):\n        if methods:\n            self.allowed_methods.update(methods)\n',
      '    def update_methods(self, methods, seen=set()):\n        if methods:\n            seen.update(methods)\n'
      '            self.allowed_methods.update(seen)\n'))
B('f_c12_default_list_role_named', ['C12'], 'R12.a',
  (A, '    def add_exception(self, exception):\n        self.exceptions.append(exception)\n',
      '    def add_exception(self, exception, headers=[]):\n        headers.append(exception)\n        self.exceptions.append(exception)\n'))
B('f_c12_default_dict_item_store', ['C12'], 'R12.a',
  (A, '    def update_methods(self, methods):\n', '    def update_methods(self, methods, params={}):\n        params[len(params)] = methods\n'))
# a default that is a call: evaluated when the def is executed, not per request
B('f_c12_default_counter_call', ['C12'], 'R12.e',
  (A, '    def update_methods(self, methods):\n', '    def update_methods(self, methods, stamp=next(_REQ_ID_ITER)):\n        self.stamp = stamp\n'))
B('f_c12_ring_default_clock_call', ['C12'], 'R12.e',
  (CK, '    def request(self, next, request):\n', '    def request(self, next, request, now=time.time()):\n'))
B('f_c12_ring_default_dict_updated', ['C12'], 'R12.e',
  (URL, _URL_KW, '    def request(self, next, request, kwargs={}):\n        for p_name, p_type in self.params.items():\n'
                 '            kwargs[p_name] = request.args.get(p_name, None, p_type)\n'))
B('f_c12_ring_default_list_appended', ['C12'], 'R12.e',
  (FORM, _FORM_KW, '    def request(self, next, request, seen=[]):\n        seen.append(request.path)\n        kwargs = {}\n'
                   '        for p_name, p_type in self.params.items():\n            kwargs[p_name] = request.form.get(p_name, None, p_type)\n'))
T('f_c12_ring_default_none_then_fresh', ['C12'],
  (URL, _URL_KW, '    def request(self, next, request, kwargs=None):\n        if kwargs is None:\n            kwargs = {}\n'
                 '        for p_name, p_type in self.params.items():\n            kwargs[p_name] = request.args.get(p_name, None, p_type)\n'))
T('f_c12_ring_default_copied_before_update', ['C12'],
  (URL, _URL_KW, '    def request(self, next, request, extra={}):\n        kwargs = dict(extra)\n        for p_name, p_type in self.params.items():\n'
                 '            kwargs[p_name] = request.args.get(p_name, None, p_type)\n'))
T('f_c12_ring_default_immutable_ctor', ['C12'],
  (CK, '    def request(self, next, request):\n', '    def request(self, next, request, skip=frozenset(), order=tuple()):\n'))

# ---- kind 3: class-level mutable attributes ----------------------------------------------------------------------------------
_DS_INIT = '    def __init__(self):\n        self.exceptions = []\n'
B('f_c12_class_level_list_field', ['C12'], 'R12.a',
  (A, _DS_INIT, '    exceptions = []\n\n    def __init__(self):\n'))
B('f_c12_class_level_field_conditionally_owned', ['C12'], 'R12.a',
  (A, _DS_INIT, '    exceptions = []\n\n    def __init__(self):\n        if type(self) is not DispatchState:\n            self.exceptions = []\n'))
B('f_c12_class_counter_through_dunder_class', ['C12'], 'R12.a',
  (A, '        if methods:\n            self.allowed_methods.update(methods)\n',
      '        if methods:\n            self.allowed_methods.update(methods)\n            self.__class__.refusals = getattr(self.__class__, \'refusals\', 0) + 1\n'))
B('f_c12_class_registry_through_type', ['C12'], 'R12.a',
  (A, '        if methods:\n            self.allowed_methods.update(methods)\n',
      '        if methods:\n            self.allowed_methods.update(methods)\n            type(self).seen_methods.update(methods)\n'),
  (A, _DS_INIT, '    seen_methods = set()\n\n' + _DS_INIT))
B('f_c12_ring_class_level_dict_through_instance', ['C12'], 'R12.e',
  (CK, '    serialization_method = json\n', '    serialization_method = json\n    _expiries = {}\n'),
  (CK, _CK_EXP, _CK_EXP + '        self._expiries[epoch_time] = True\n'))
B('f_c12_ring_class_attr_by_type', ['C12'], 'R12.e',
  (GZ, _GZ_COMP, _GZ_COMP + '        type(self).compressed = getattr(type(self), \'compressed\', 0) + 1\n'))
B('f_c12_ring_class_attr_by_name', ['C12'], 'R12.e',
  (GZ, _GZ_COMP, _GZ_COMP + '        GzipMiddleware.sizes.append(len(comp_content))\n'),
  (GZ, 'class GzipMiddleware(Middleware):\n', 'class GzipMiddleware(Middleware):\n    sizes = []\n'))
B('f_c12_ring_classmethod_registry', ['C12'], 'R12.e',
  (CK, '    serialization_method = json\n', '    serialization_method = json\n    _unquoted = []\n'),
  (CK, "            value = cls.serialization_method.loads(value.decode('utf8'))\n",
       "            value = cls.serialization_method.loads(value.decode('utf8'))\n            cls._unquoted.append(value)\n"))
T('f_c12_class_level_default_owned_in_init', ['C12'],
  (A, _DS_INIT, '    exceptions = ()\n    attempts = 0\n\n' + _DS_INIT + '        self.attempts += 1\n'))
T('f_c12_ring_class_level_immutable_rebound_on_instance', ['C12'],
  (CK, '    serialization_method = json\n', '    serialization_method = json\n    _note = None\n    _tags = ()\n'),
  (CK, _CK_EXP, _CK_EXP + "        self._note = 'expires'\n        self._tags = self._tags + (epoch_time,)\n"))

# ---- kind 4: adopted by reference, then updated in place -----------------------------------------------------------------------
_EP = "            error_params = dict(params, _error=ret)\n"
B('f_c12_module_dict_adopted_role_named', ['C12'], 'R12.a',
  (A, '_REQ_ID_ITER = itertools.count()\n', '_REQ_ID_ITER = itertools.count()\n_ERROR_PARAMS = {}\n'),
  (A, _EP, '            error_params = _ERROR_PARAMS\n            error_params.update(params, _error=ret)\n'))
B('f_c12_module_list_appended', ['C12'], 'R12.a',
  (A, '_REQ_ID_ITER = itertools.count()\n', '_REQ_ID_ITER = itertools.count()\n_RECENT_ERRORS = []\n'),
  (A, _EP, _EP + '            _RECENT_ERRORS.append(ret)\n'))
B('f_c12_ring_field_adopted_then_filled', ['C12'], 'R12.e',
  (URL, _URL_KW, '    def request(self, next, request):\n        kwargs = self.params\n        for p_name, p_type in list(self.params.items()):\n'
                 '            kwargs[p_name] = request.args.get(p_name, None, p_type)\n'))
B('f_c12_ring_module_dict_adopted', ['C12'], 'R12.e',
  (CK, 'DEFAULT_EXPIRY = SESSION\n', 'DEFAULT_EXPIRY = SESSION\n_SAVE_KW = {}\n'),
  (CK, _CK_SAVE, '        save_cookie_kwargs = _SAVE_KW\n        save_cookie_kwargs.update(key=self.cookie_name, domain=self.domain, path=self.path,\n'
                 '                                  secure=self.secure, httponly=self.http_only)\n'))
B('f_c12_ring_module_list_appended', ['C12'], 'R12.e',
  (FORM, 'class PostDataMiddleware(Middleware):\n', '_POSTED = []\n\n\nclass PostDataMiddleware(Middleware):\n'),
  (FORM, _FORM_KW, _FORM_KW + '        _POSTED.append(request.path)\n'))
B('f_c12_ring_module_counter_global', ['C12'], 'R12.e',
  (FORM, 'class PostDataMiddleware(Middleware):\n', '_POSTS = 0\n\n\nclass PostDataMiddleware(Middleware):\n'),
  (FORM, _FORM_KW, '    def request(self, next, request):\n        global _POSTS\n        _POSTS += 1\n        kwargs = {}\n'
                   '        for p_name, p_type in self.params.items():\n            kwargs[p_name] = request.form.get(p_name, None, p_type)\n'))
T('f_c12_module_dict_copied', ['C12'],
  (A, '_REQ_ID_ITER = itertools.count()\n', '_REQ_ID_ITER = itertools.count()\n_ERROR_PARAMS = {}\n'),
  (A, _EP, '            error_params = dict(_ERROR_PARAMS)\n            error_params.update(params, _error=ret)\n'))
T('f_c12_ring_module_dict_copied_and_read', ['C12'],
  (CK, 'DEFAULT_EXPIRY = SESSION\n', "DEFAULT_EXPIRY = SESSION\n_SAVE_KW = {'path': '/'}\n"),
  (CK, _CK_SAVE, '        save_cookie_kwargs = dict(_SAVE_KW)\n        save_cookie_kwargs.update(key=self.cookie_name, domain=self.domain, path=self.path,\n'
                 '                                  secure=self.secure, httponly=self.http_only)\n        root_only = _SAVE_KW.get(\'path\') == self.path\n'))

# ---- C12 / R12.a: a chain builder that accumulates the text over a loop with carried state ----------------------------------
# (the nesting structure is not followed; the *set of line templates* is, by abstract evaluation -- c12_gen.py)
_CARRIED_HEAD = ("    defs, tails = [], []\n"
                 "    cur = level\n"
                 "    for func, level_params in zip(funcs, params):\n"
                 "        params_sofar.update(level_params)\n"
                 "        names = sorted(set(get_fb(func).get_arg_names()))\n"
                 "        kwargs = ', '.join(['%s=%s' % (n, n) for n in names if n in params_sofar])\n"
                 "        defs.append('%sdef %s(%s):\\n' % (_INDENT * cur, inner_name, ', '.join(level_params)))\n")
_CARRIED_TAIL = ("        cur += 1\n"
                 "    return ''.join(defs + tails[::-1])\n\n\n"
                 "def _unused_recursive_form(funcs, params, inner_name, params_sofar, level):\n")
_CARRIED_OK = "        tails.append('%s__traceback_hide__ = True\\n%sreturn funcs[%s](%s)\\n' % (_INDENT * (cur + 1), _INDENT * (cur + 1), cur, kwargs))\n"
T('f_c12_chain_builder_loop_carried_level', ['C12'],
  (S, _BCS_OLD_HEAD, _CARRIED_HEAD + _CARRIED_OK + _CARRIED_TAIL))
T('f_c12_chain_builder_loop_enumerate_named_text', ['C12'],
  (S, _BCS_OLD_HEAD, _CARRIED_HEAD.replace('for func, level_params in zip(funcs, params):', 'for i, func in enumerate(funcs):\n        level_params = params[i]')
      + _CARRIED_OK + "        cur = cur + 1\n    text = ''.join(defs + list(reversed(tails)))\n    return text\n\n\n"
                      "def _unused_recursive_form(funcs, params, inner_name, params_sofar, level):\n"))
B('f_c12_chain_builder_loop_global_line', ['C12'], 'R12.a',
  (S, _BCS_OLD_HEAD, _CARRIED_HEAD + "        tails.append('%sglobal last_level\\n%slast_level = %s\\n' % (_INDENT * (cur + 1), _INDENT * (cur + 1), cur))\n"
      + _CARRIED_OK + _CARRIED_TAIL))
B('f_c12_chain_builder_loop_heap_store_line', ['C12'], 'R12.a',
  (S, _BCS_OLD_HEAD, _CARRIED_HEAD + "        defs.append('%sfuncs[%s].calls = 1\\n' % (_INDENT * (cur + 1), cur))\n" + _CARRIED_OK + _CARRIED_TAIL))
B('f_c12_chain_builder_loop_reads_shared_name', ['C12'], 'R12.a',
  (S, _BCS_OLD_HEAD, _CARRIED_HEAD + "        tails.append('%slast_context = _shared\\n' % (_INDENT * (cur + 1),))\n" + _CARRIED_OK + _CARRIED_TAIL))
B('f_c12_chain_builder_initial_list_item', ['C12'], 'R12.a',
  (S, _BCS_OLD_HEAD, _CARRIED_HEAD.replace("defs, tails = [], []", "defs, tails = [], ['global chain_depth\\n']") + _CARRIED_OK + _CARRIED_TAIL))

# ---- C12 / R12.e: other spellings of a write to a long-lived receiver ----------------------------------------------------------
_SR = '        return next(**{self.provided_name: request.script_root})\n'
B('f_c12_ring_setattr_on_self', ['C12'], 'R12.e',
  (URL, _SR, "        setattr(self, 'last_root', request.script_root)\n" + _SR))
B('f_c12_ring_vars_of_self', ['C12'], 'R12.e',
  (URL, _SR, "        vars(self)['hits'] = vars(self).get('hits', 0) + 1\n" + _SR))
B('f_c12_ring_instance_dict_update', ['C12'], 'R12.e',
  (URL, _SR, "        self.__dict__.update(last_root=request.script_root)\n" + _SR))
B('f_c12_ring_module_attribute_rebound', ['C12'], 'R12.e',
  (URL, 'from .core import Middleware\n', 'from .core import Middleware\nfrom . import core as _core\n'),
  (URL, _SR, "        _core.LAST_SCRIPT_ROOT = request.script_root\n" + _SR))
T('f_c12_ring_setattr_on_response', ['C12'],
  (URL, _SR, "        resp = next(**{self.provided_name: request.script_root})\n        setattr(resp, 'script_root', request.script_root)\n"
             "        vars(resp)['seen_by'] = self.provided_name\n        return resp\n"))

# ---- C12 / R12.e: a closure the constructor builds runs while requests are served ---------------------------------------------
CTX = 'clastic/middleware/context.py'
_PRC = ('            desired_args = self.required + list(self.defaults.keys())\n')
B('f_c12_ring_ctor_closure_writes_self', ['C12'], 'R12.e',
  (CTX, _PRC, '            self.last_context = context\n' + _PRC))
B('f_c12_ring_ctor_closure_updates_field_alias', ['C12'], 'R12.e',
  (CTX, '    def _create_render(self):\n', '    def _create_render(self):\n        remembered = self.defaults\n'),
  (CTX, '                context[arg] = kwargs.get(arg, self.defaults.get(arg))\n',
        '                context[arg] = kwargs.get(arg, self.defaults.get(arg))\n                remembered[arg] = context[arg]\n'))
T('f_c12_ring_ctor_closure_own_locals', ['C12'],
  (CTX, _PRC, '            filled = {}\n' + _PRC),
  (CTX, '                context[arg] = kwargs.get(arg, self.defaults.get(arg))\n',
        '                context[arg] = kwargs.get(arg, self.defaults.get(arg))\n                filled[arg] = context[arg]\n'))

# ---- round w: a definition of the mechanism moved (verbatim) into another module of the package and imported back ----------------
# (the anchor follows the import to the definition; everything about it -- its parent map, its free names, its report
#  location -- is read in the module it lives in now)
UT = 'clastic/utils.py'
_CV_DEF = ('def check_valid_wsgi(wsgi_callable):\n'
           '    if not callable(wsgi_callable):\n'
           "        raise TypeError('expected WSGI application (%r) to be callable'\n"
           '                        % (wsgi_callable,))\n'
           '    wc_args = get_arg_names(wsgi_callable)[:2]\n'
           '    if (not len(wc_args) == 2\n'
           "        or wc_args[0] != 'environ'\n"
           "        or wc_args[1] != 'start_response'):\n"
           "        raise TypeError('expected WSGI callable (%r)'\n"
           "                        ' to accept two arguments, `environ` and'\n"
           "                        ' `start_response`, respectively, not %r'\n"
           '                        % (wsgi_callable, wc_args))\n'
           '    return\n'
           '\n'
           '\n')
_GM_DEF = ('def _get_all_middlewares(bound_routes, app_middlewares=()):\n'
           '    # TODO: use merge_middlewares\n'
           '    all_mw = []\n'
           '\n'
           "    # the application's own middlewares count even when no route is\n"
           '    # bound yet (routes may be added later with Application.add)\n'
           '    for mw in app_middlewares:\n'
           '        if mw not in all_mw:\n'
           '            all_mw.append(mw)\n'
           '\n'
           '    for broute in reversed(bound_routes):\n'
           '        for mw in broute.middlewares:\n'
           "            # use list and eq so mws don't have to be hashable\n"
           '            if mw not in all_mw:\n'
           '                all_mw.append(mw)\n'
           '\n'
           '    return all_mw\n'
           '\n'
           '\n')
_SW_DEF = ('def _safe_wrap_wsgi(source_name, source, inner):\n'
           "    wsgi_wrapper = getattr(source, 'wsgi_wrapper', None)\n"
           '    if wsgi_wrapper is None:\n'
           '        return inner  # no wsgi_wrapper, no problem\n'
           '    elif not callable(wsgi_wrapper):\n'
           "        raise TypeError('expected %s.wsgi_wrapper to be callable'\n"
           "                        ' or None, not %r' % (source_name, wsgi_wrapper))\n"
           '\n'
           '    wrapped_wsgi = wsgi_wrapper(inner)\n'
           '    try:\n'
           '        check_valid_wsgi(wrapped_wsgi)\n'
           '    except TypeError as te:\n'
           "        raise TypeError('expected valid WSGI callable from %s'\n"
           "                        ' (%r) WSGI wrapper (%r), instead'\n"
           "                        ' got issue: %r'\n"
           '                        % (source_name, source, wsgi_wrapper, te))\n'
           '    return wrapped_wsgi\n'
           '\n'
           '\n')
_RES_DEF = ('def fast_randint(start, stop):\n'
            '    """Assumes you know what you\'re doing, unlike random.randint() which\n'
            '    is pretty slow with all of its aggressive checking. See random.py\n'
            '    or this post for more:\n'
            '    https://eli.thegreenplace.net/2018/slow-and-fast-methods-for-generating-random-integers-in-python/\n'
            '\n'
            '    Specifically assumes:\n'
            '      * start and stop are ints\n'
            '      * start < stop\n'
            '\n'
            '    Ubuntu 16.04, CPy2.7.11+\n'
            '    This func: 1000000 loops, best of 3: 0.288 usec per loop\n'
            '    random.randint: 1000000 loops, best of 3: 0.785 usec per loop\n'
            '    """\n'
            '    return (start + int(random.random() * (stop + 1 - start)))\n'
            '\n'
            '\n'
            'class Reservoir(object):\n'
            '    def __init__(self, cap=True, data=None, container=None):\n'
            '        if cap is True:\n'
            '            self._cap = 2 ** 14  # 16k\n'
            '        elif cap is False:\n'
            "            self._cap = float('inf')\n"
            '        else:\n'
            '            self._cap = int(cap)\n'
            '        if container is None:\n'
            '            container = []\n'
            '        self._data = container\n'
            '        self._total_count = len(container)\n'
            "        assert self._total_count < self._cap, 'initial count %r must be lower than cap %r' % (self._total_count, self._cap)\n"
            '\n'
            '        for val in (data or []):\n'
            '            self.add(val)\n'
            '        return\n'
            '\n'
            '    @property\n'
            '    def total_count(self):\n'
            '        return self._total_count\n'
            '\n'
            '    def add(self, val):\n'
            '        self._total_count += 1\n'
            '        if len(self._data) < self._cap:\n'
            '            # not (yet, or after an enlarging resize, no longer) full\n'
            '            self._data.append(val)\n'
            '            return\n'
            '\n'
            '        idx = fast_randint(0, self._total_count)\n'
            '        if idx < self._cap:\n'
            '            self._data[idx] = val\n'
            '        return\n'
            '\n'
            '    def __iter__(self):\n'
            '        return iter(self._data)\n'
            '\n'
            '    def to_list(self):\n'
            '        return list(self)\n'
            '\n'
            '    def resize(self, new_size):\n'
            '        self._cap = new_size\n'
            '        if new_size >= len(self._data):\n'
            '            return\n'
            '        self._data = self._data[:new_size]\n'
            '\n'
            '    def __repr__(self):\n'
            '        cn = self.__class__.__name__\n'
            "        return ('<%s cap=%r, data_count=%r, total_count=%r>'\n"
            '                % (cn, self._cap, len(self._data), self._total_count))\n'
            '\n'
            '\n')
_IMP_MW = 'from .middleware import check_middlewares\n'
_DUMMY = 'class DummyMiddleware(Middleware):'
_UT_ANCHOR = 'def int2hexguid(id_int):'
_IMP_UT = 'from .utils import int2hexguid\n'


def _moved_collect(gm_def):
    return ((A, _GM_DEF, ''), (A, _IMP_MW, _IMP_MW + 'from .middleware.core import _get_all_middlewares\n'), (C, _DUMMY, gm_def + _DUMMY))


def _moved_wsgi(cv_def, sw_def):
    return ((A, _CV_DEF, ''), (A, _SW_DEF, ''), (A, _IMP_UT, 'from .utils import int2hexguid, check_valid_wsgi, _safe_wrap_wsgi\n'),
            (UT, _UT_ANCHOR, 'from .sinter import get_arg_names\n\n\n' + cv_def + sw_def + _UT_ANCHOR))


T('f_c13_collect_moved_into_middleware_core', ['C13', 'C12'], *_moved_collect(_GM_DEF))
B('f_c13_collect_moved_inner_reversed', ['C13'], 'R13.b',
  *_moved_collect(_GM_DEF.replace('        for mw in broute.middlewares:\n', '        for mw in reversed(broute.middlewares):\n')))
B('f_c13_collect_moved_no_dedup', ['C13'], 'R13.b',
  *_moved_collect(_GM_DEF.replace('            if mw not in all_mw:\n                all_mw.append(mw)\n', '            all_mw.append(mw)\n')))
T('f_c13_wsgi_helpers_moved_into_utils', ['C13', 'C12'], *_moved_wsgi(_CV_DEF, _SW_DEF))
B('f_c13_wsgi_helpers_moved_unvalidated_path', ['C13'], 'R13.b',
  *_moved_wsgi(_CV_DEF, _SW_DEF.replace('    wrapped_wsgi = wsgi_wrapper(inner)\n',
                                        "    wrapped_wsgi = wsgi_wrapper(inner)\n    if source_name != 'middleware':\n        return wrapped_wsgi\n")))
B('f_c13_wsgi_helpers_moved_second_name_not_compared', ['C13'], 'R13.b',
  *_moved_wsgi(_CV_DEF.replace("        or wc_args[0] != 'environ'\n        or wc_args[1] != 'start_response'):\n", "        or wc_args[0] != 'environ'):\n"), _SW_DEF))
# R13.a: "nobody in clastic calls start_response / writes the environ" is about every module of the package, not a list of them
B('f_c13_start_response_called_in_other_module', ['C13'], 'R13.a',
  (FL, 'def _filter_site_files(paths):', "def _early_ok(environ, start_response):\n    start_response('200 OK', [])\n    return []\n\n\ndef _filter_site_files(paths):"))
B('f_c13_environ_written_in_other_module', ['C13'], 'R13.a',
  (FL, 'def _filter_site_files(paths):', "def _tag(request):\n    request.environ['clastic.flaw'] = True\n\n\ndef _filter_site_files(paths):"))

# R12.e: the classes that aggregate across requests by design are identified by their definition, wherever it is written
_IMP_CORE_MW = 'from .core import Middleware\n'
_CTX_ANCHOR = 'class ContextProcessor(Middleware):'


def _moved_reservoir(res_def):
    return ((STATS, _RES_DEF, ''), (STATS, _IMP_CORE_MW, _IMP_CORE_MW + 'from .context import Reservoir, fast_randint\n'),
            (CTX, _CTX_ANCHOR, 'import random\n\n\n' + res_def + _CTX_ANCHOR))


T('f_c12_ring_reservoir_moved_into_other_module', ['C12'], *_moved_reservoir(_RES_DEF))
# ... a namesake of a table class is not that class: one defined elsewhere and held by a middleware is judged like any long-lived object
B('f_c12_ring_namesake_of_design_class', ['C12'], 'R12.e',
  (URL, 'class ScriptRootMiddleware(Middleware):\n',
        'class Reservoir(object):\n    def __init__(self):\n        self.seen = []\n\n    def add(self, val):\n        self.seen.append(val)\n\n\n'
        'class ScriptRootMiddleware(Middleware):\n'),
  (URL, "        self.provides = (provided_name,)\n", "        self.provides = (provided_name,)\n        self.roots = Reservoir()\n"),
  (URL, _SR, '        self.roots.add(request.script_root)\n' + _SR))
# ... and a class that is not in the table does not become "by design" by living next to one that is
B('f_c12_ring_reservoir_moved_other_class_beside_it', ['C12'], 'R12.e',
  *(_moved_reservoir(_RES_DEF + 'class LastSeen(object):\n    def __init__(self):\n        self.value = None\n\n    def note(self, value):\n        self.value = value\n\n\n') +
    ((STATS, 'from .context import Reservoir, fast_randint\n', 'from .context import Reservoir, fast_randint, LastSeen\n'),
     (STATS, "    def request(self, next, request, _route):\n", "    def request(self, next, request, _route):\n        self.last_seen.note(request.path)\n"),
     (STATS, "    def reset(self):\n", "    def reset(self):\n        self.last_seen = LastSeen()\n"))))

# R12.a, generated code: the accumulated lists re-ordered in place before the join (same bag of line templates)
_REV_TAIL = ("        cur += 1\n"
             "    tails.reverse()\n"
             "    return ''.join(defs + tails)\n\n\n"
             "def _unused_recursive_form(funcs, params, inner_name, params_sofar, level):\n")
T('f_c12_chain_builder_loop_reversed_in_place', ['C12'],
  (S, _BCS_OLD_HEAD, _CARRIED_HEAD + _CARRIED_OK + _REV_TAIL))
B('f_c12_chain_builder_loop_reversed_in_place_heap_store_line', ['C12'], 'R12.a',
  (S, _BCS_OLD_HEAD, _CARRIED_HEAD + "        tails.append('%sfuncs[%s].calls = 1\\n' % (_INDENT * (cur + 1), cur))\n" + _CARRIED_OK + _REV_TAIL))
B('f_c12_chain_builder_loop_reversed_in_place_global_line', ['C12'], 'R12.a',
  (S, _BCS_OLD_HEAD, _CARRIED_HEAD + "        defs.append('%sglobal last_level\\n%slast_level = %s\\n' % (_INDENT * (cur + 1), _INDENT * (cur + 1), cur))\n" + _CARRIED_OK + _REV_TAIL))

# the framework core follows a piece of itself that was split off into a private module and is imported back: the per-request
# class, its methods and the ownership of what its fields hold are judged like before the move
VER = 'clastic/_version.py'
_DS_DEF = ('class DispatchState(object):\n'
           '    """The every request handled by an :class:`Application` creates a\n'
           '    :class:`DispatchState`, which is used to track relevant state in\n'
           '    the routing progress, including which routes were attempted and\n'
           '    what exceptions were raised, if any.\n'
           '\n'
           '\n'
           '    .. note::\n'
           '\n'
           '      Objects of this type are constructed internally and are not really\n'
           '      part of the Clastic API, except that they are one of the built-in\n'
           '      injectables.\n'
           '    """\n'
           '\n'
           '    def __init__(self):\n'
           '        self.exceptions = []\n'
           '        self.allowed_methods = set()\n'
           '        self.attempted_routes = []\n'
           '\n'
           '    def add_route(self, route):\n'
           '        self.attempted_routes.append(route)\n'
           '\n'
           '    def add_exception(self, exception):\n'
           '        self.exceptions.append(exception)\n'
           '\n'
           '    def update_methods(self, methods):\n'
           '        if methods:\n'
           '            self.allowed_methods.update(methods)\n'
           '\n'
           '    def __repr__(self):\n'
           '        args = (self.__class__.__name__, self.exceptions, self.allowed_methods)\n'
           "        return '<%s exceptions=%r allowed_methods=%r>' % args\n")
_VER_ANCHOR = "version_info = (24, 0, 1, 'dev')\n"


def _moved_dispatch_state(ds_def):
    return ((A, _DS_DEF + '\n\n', ''), (A, _IMP_UT, _IMP_UT + 'from ._version import DispatchState\n'), (VER, _VER_ANCHOR, ds_def + '\n\n' + _VER_ANCHOR))


T('f_c12_dispatch_state_moved_into_private_module', ['C12', 'C13'], *_moved_dispatch_state(_DS_DEF))
B('f_c12_dispatch_state_moved_adopt_then_ior', ['C12'], 'R12.a',
  *_moved_dispatch_state(_DS_DEF.replace(_UM, '        if not methods:\n            return\n        if not self.allowed_methods:\n            self.allowed_methods = methods\n'
                                              '            return\n        self.allowed_methods |= methods\n')))
B('f_c12_dispatch_state_moved_class_level_list', ['C12'], 'R12.a',
  *_moved_dispatch_state(_DS_DEF.replace('    def __init__(self):\n        self.exceptions = []\n', '    exceptions = []\n\n    def __init__(self):\n')))

# =====================================================================================================================
# round f
# ---- C12 / R12.a: an object taken out of the caller's */** arguments is the caller's --------------------------------
_MNA_SUPER = '        super(MethodNotAllowed, self).__init__(*args, **kwargs)\n'
_HE_POP = "        headers = kwargs.pop('headers', None)\n"
B('f_c12_caller_mapping_setdefault_through_local', ['C12'], 'R12.a',
  (E, _MNA_SUPER, "        headers = kwargs.get('headers')\n        if headers is not None:\n            headers.setdefault('Allow', 'GET')\n" + _MNA_SUPER))
B('f_c12_caller_mapping_fresh_only_on_one_path', ['C12'], 'R12.a',
  (E, _MNA_SUPER, "        headers = kwargs.get('headers')\n        if not isinstance(headers, dict):\n            headers = kwargs['headers'] = dict(headers or ())\n"
                  "        headers.setdefault('Allow', 'GET')\n" + _MNA_SUPER))
B('f_c12_caller_mapping_item_store_after_pop', ['C12'], 'R12.a',
  (E, _HE_POP, _HE_POP + "        if headers is not None:\n            headers['X-Error'] = self.message\n"))
B('f_c12_caller_mapping_updated_inside_kwargs', ['C12'], 'R12.a',
  (E, _MNA_SUPER, "        if 'headers' in kwargs:\n            kwargs['headers'].update(Allow='GET')\n" + _MNA_SUPER))
B('f_c12_caller_positional_object_appended', ['C12'], 'R12.a',
  (E, _MNA_SUPER, "        if args and isinstance(args[0], list):\n            args[0].append('Allow')\n" + _MNA_SUPER))
B('f_c12_caller_mapping_through_second_local', ['C12'], 'R12.a',
  (E, _HE_POP, _HE_POP + "        extra = headers\n        if extra:\n            extra.pop('Content-Length', None)\n"))
T('f_c12_caller_mapping_copied_then_setdefault', ['C12', 'C13'],
  (E, _MNA_SUPER, "        headers = dict(kwargs.get('headers') or {})\n        headers.setdefault('Allow', 'GET')\n        kwargs['headers'] = headers\n" + _MNA_SUPER))
T('f_c12_own_entry_of_kwargs_updated', ['C12', 'C13'],
  (E, _MNA_SUPER, "        kwargs['headers'] = dict(kwargs.get('headers') or {})\n        kwargs['headers'].update(Allow='GET')\n" + _MNA_SUPER))
T('f_c12_caller_mapping_rebound_before_update', ['C12', 'C13'],
  (E, _HE_POP, _HE_POP + "        if headers is not None:\n            headers = dict(headers)\n            headers['X-Error'] = str(self.message)\n"))

# ---- C12 / R12.f: what a request is handed is not one long-lived mutable object ------------------------------------------
_MC = ("    if multi:\n        def multi_converter(value):\n            if not value and optional:\n                return []\n")
B('f_c12_converter_hands_out_captured_list', ['C12'], 'R12.f',
  (R, _MC, "    if multi:\n        empty = []\n\n        def multi_converter(value):\n            if not value and optional:\n                return empty\n"))
B('f_c12_converter_hands_out_captured_list_through_alias', ['C12'], 'R12.f',
  (R, _MC, "    if multi:\n        empty = list()\n\n        def multi_converter(value):\n            result = empty\n            if not value and optional:\n                return result\n"))
B('f_c12_converter_hands_out_module_list', ['C12'], 'R12.f',
  (R, 'def build_converter(', '_NO_SEGMENTS = []\n\n\ndef build_converter('),
  (R, _MC, _MC.replace('return []', 'return _NO_SEGMENTS')))
B('f_c12_converter_hands_out_default_object', ['C12'], 'R12.f',
  (R, _MC, _MC.replace('def multi_converter(value):', 'def multi_converter(value, empty=[]):').replace('return []', 'return empty')))
B('f_c12_converter_hands_out_captured_list_conditionally', ['C12'], 'R12.f',
  (R, _MC, "    if multi:\n        empty = []\n\n        def multi_converter(value):\n            if not value:\n                return empty if optional else [converter('')]\n"))
B('f_c12_ring_ctor_closure_hands_out_captured_dict', ['C12'], 'R12.f',
  (CTX, '    def _create_render(self):\n', '    def _create_render(self):\n        blank = {}\n'),
  (CTX, '            if not isinstance(context, Mapping):\n                return next()\n', '            if not isinstance(context, Mapping):\n                return blank\n'))
B('f_c12_ring_hands_out_class_level_list', ['C12'], 'R12.f',
  (URL, 'class ScriptRootMiddleware(Middleware):\n', 'class ScriptRootMiddleware(Middleware):\n    roots = []\n\n    def known_roots(self):\n        return self.roots\n\n'))
T('f_c12_converter_hands_out_captured_tuple', ['C12'],
  (R, _MC, "    if multi:\n        empty = ()\n\n        def multi_converter(value):\n            if not value and optional:\n                return list(empty)\n"))
T('f_c12_converter_hands_out_captured_immutable', ['C12'],
  (R, "    def single_converter(value):\n        if not value and optional:\n            return None\n",
      "    missing = None\n\n    def single_converter(value):\n        if not value and optional:\n            return missing\n"))
T('f_c12_converter_copies_captured_list', ['C12'],
  (R, _MC, "    if multi:\n        empty = []\n\n        def multi_converter(value):\n            if not value and optional:\n                return list(empty)\n"))
T('f_c12_ring_request_closure_hands_out_own_dict', ['C12'],
  (URL, _URL_KW, _URL_KW.replace('        kwargs = {}\n', '        kwargs = {}\n\n        def collected():\n            return kwargs\n')))

# ---- C13 / R13.f: stores on the request object before dispatch cannot raise out of the WSGI callable -------------------------
B('f_c13_stamp_guard_narrowed', ['C13'], 'R13.f',
  (A, _TAG, _TAG.replace('        except Exception:\n', '        except AttributeError:\n')))
B('f_c13_stamp_guard_narrowed_to_tuple', ['C13'], 'R13.f',
  (A, _TAG, _TAG.replace('        except Exception:\n', '        except (AttributeError, TypeError):\n')))
B('f_c13_stamp_unguarded', ['C13'], 'R13.f',
  (A, _TAG, '        request.request_id = next(_REQ_ID_ITER)\n        request.request_guid = int2hexguid(request.request_id)\n'))
B('f_c13_stamp_handler_reraises', ['C13'], 'R13.f',
  (A, _TAG, _TAG.replace('            pass\n', "            raise RuntimeError('request type %r does not take an id' % self.request_type)\n")))
B('f_c13_stamp_narrow_handler_first_reraises', ['C13'], 'R13.f',
  (A, _TAG, _TAG.replace('        except Exception:\n', '        except TypeError:\n            raise\n        except Exception:\n')))
B('f_c13_stamp_second_store_after_swallowing_handler', ['C13'], 'R13.f',
  (A, _TAG, _TAG.replace('        else:\n            request.request_guid', '        request.request_guid').replace(
      '            request.request_guid = int2hexguid(request.request_id)\n', '        request.request_guid = int2hexguid(getattr(request, "request_id", 0))\n')))
B('f_c13_stamp_helper_guard_narrowed', ['C13'], 'R13.f',
  (A, _TAG, '        self.tag_request(request)\n'),
  (A, _CALL, _CALL + '\n    def tag_request(self, req):\n        try:\n            req.request_id = next(_REQ_ID_ITER)\n'
                     '        except AttributeError:\n            return\n        req.request_guid = int2hexguid(req.request_id)\n'))
B('f_c13_stamp_setattr_unguarded', ['C13'], 'R13.f',
  (A, _TAG, _TAG + "        setattr(request, 'received_by', self)\n"))
T('f_c13_stamp_both_stores_in_one_guard', ['C13', 'C12'],
  (A, _TAG, '        try:\n            request.request_id = next(_REQ_ID_ITER)\n            request.request_guid = int2hexguid(request.request_id)\n'
            '        except Exception:\n            pass\n'))
T('f_c13_stamp_bare_except', ['C13', 'C12'],
  (A, _TAG, _TAG.replace('        except Exception:\n', '        except:\n')))
T('f_c13_stamp_base_exception_named', ['C13', 'C12'],
  (A, _TAG, _TAG.replace('        except Exception:\n', '        except BaseException as e:\n')))
T('f_c13_stamp_helper_call_guarded_by_caller', ['C13'],
  (A, _TAG, '        try:\n            self.tag_request(request)\n        except Exception:\n            pass\n'),
  (A, _CALL, _CALL + '\n    def tag_request(self, req):\n        req.request_id = next(_REQ_ID_ITER)\n        req.request_guid = int2hexguid(req.request_id)\n'))

# ---- C13 / R13.g: header values of unknown type reach werkzeug only through its normalising entry points -----------------------
B('f_c13_headers_copied_as_list_of_items', ['C13'], 'R13.g',
  (E, _HE_POP, _HE_POP + "        if headers is not None and hasattr(headers, 'items'):\n            headers = list(headers.items())\n"))
B('f_c13_headers_copied_by_comprehension', ['C13'], 'R13.g',
  (E, _HE_POP, _HE_POP + "        if isinstance(headers, dict):\n            headers = [(k, v) for k, v in headers.items()]\n"))
B('f_c13_headers_sorted_pairs', ['C13'], 'R13.g',
  (E, "                                            headers=headers,\n", "                                            headers=sorted((headers or {}).items()),\n"))
B('f_c13_headers_list_through_second_local', ['C13'], 'R13.g',
  (E, _HE_POP, _HE_POP + "        pairs = list(headers.items()) if headers else None\n        headers = pairs\n"))
T('f_c13_headers_copied_as_mapping', ['C13', 'C12'],
  (E, _HE_POP, _HE_POP + "        if headers is not None and hasattr(headers, 'items'):\n            headers = dict(headers.items())\n"))
T('f_c13_headers_pairs_made_strings', ['C13', 'C12'],
  (E, _HE_POP, _HE_POP + "        if isinstance(headers, dict):\n            headers = [(str(k), str(v)) for k, v in headers.items()]\n"))
T('f_c13_headers_own_constant_pairs', ['C13', 'C12'],
  (E, _HE_POP, _HE_POP + "        if headers is None:\n            headers = [('X-Clastic-Error', '%s' % self.code)]\n"))
T('f_c13_stamp_handler_notes_and_goes_on', ['C13', 'C12'],
  (A, _TAG, _TAG.replace('            pass\n', "            print('request type %r takes no id' % (self.request_type,))\n")))
# ... the stamping inherited from a mixin of the tree is followed as well
_APPCLS = 'class Application(object):\n'
_MIXIN = ('class _Stamping(object):\n    def stamp(self, req):\n        try:\n            req.request_id = next(_REQ_ID_ITER)\n'
          '        except %s:\n            return\n        req.request_guid = int2hexguid(req.request_id)\n\n\n')
T('f_c13_stamp_in_mixin', ['C13'],
  (A, _APPCLS, _MIXIN % 'Exception' + 'class Application(_Stamping):\n'), (A, _TAG, '        self.stamp(request)\n'))
B('f_c13_stamp_in_mixin_guard_narrowed', ['C13'], 'R13.f',
  (A, _APPCLS, _MIXIN % 'AttributeError' + 'class Application(_Stamping):\n'), (A, _TAG, '        self.stamp(request)\n'))
# ... the headers travelling inside a mapping the constructor builds and passes as **
_HE_KW = "                                            headers=headers,\n"
_HE_CT = "                                            content_type=content_type)\n"
_HE_CT_STAR = "                                            content_type=content_type,\n                                            **response_kwargs)\n"
T('f_c13_headers_through_star_mapping', ['C13', 'C12'],
  (E, _HE_POP, "        response_kwargs = {'headers': kwargs.pop('headers', None)}\n"), (E, _HE_KW, ''), (E, _HE_CT, _HE_CT_STAR))
B('f_c13_headers_through_star_mapping_as_list', ['C13'], 'R13.g',
  (E, _HE_POP, "        response_kwargs = {'headers': list((kwargs.pop('headers', None) or {}).items())}\n"), (E, _HE_KW, ''), (E, _HE_CT, _HE_CT_STAR))
B('f_c13_headers_stored_into_star_mapping_as_list', ['C13'], 'R13.g',
  (E, _HE_POP, _HE_POP + "        response_kwargs = {}\n        response_kwargs['headers'] = [(k, v) for k, v in (headers or {}).items()]\n"),
  (E, _HE_KW, ''), (E, _HE_CT, _HE_CT_STAR))

# ---- round g: the error handler in effect is the one wrapped, on every path that installs one ---------------------------
_SEH_IF = '        if error_handler is None:\n            if self.debug:\n'
_SEH_SET = '\n        self.error_handler = error_handler\n'
_SEH_CRE = '        check_render_error(error_handler.render_error, self.resources)\n'
_SEH_DEF = '            error_handler = deh_type()\n'
# the wrapper is only applied on the "given" branch (else of the default selection)
B('g_c13_wrap_only_when_given_else_branch', ['C13'], 'R13.b',
  (A, _SEH_CRE + _SEH, _SEH_CRE),
  (A, _SEH_DEF, _SEH_DEF + '        else:\n    ' + _SEH))
# ... the default branch returns early, having installed its handler
B('g_c13_default_branch_returns_before_wrap', ['C13'], 'R13.b',
  (A, _SEH_DEF, _SEH_DEF + '            check_render_error(error_handler.render_error, self.resources)\n'
                           '            self.error_handler = error_handler\n            return\n'))
# ... skipped under the debug configuration ("the debugger page needs no wrapper")
B('g_c13_wrap_skipped_in_debug', ['C13'], 'R13.b',
  (A, _SEH, '        if not self.debug:\n    ' + _SEH))
# ... applied before the default is chosen: what is wrapped is the argument (None), not the handler installed
B('g_c13_wrap_before_default_selected', ['C13'], 'R13.b',
  (A, _SEH_CRE + _SEH, _SEH_CRE),
  (A, _SEH_IF, _SEH + _SEH_IF))
# ... the wrapper of the handler being replaced
B('g_c13_wraps_previous_handler', ['C13'], 'R13.b',
  (A, _SEH, "        self._dispatch_wsgi = _safe_wrap_wsgi('error_handler', self.error_handler, self._dispatch_wsgi)\n"))
# ... of the argument, while the installed one is a second local
B('g_c13_wraps_argument_not_installed', ['C13'], 'R13.b',
  (A, _SEH_DEF, '            handler = deh_type()\n        else:\n            handler = error_handler\n'),
  (A, _SEH_CRE, '        check_render_error(handler.render_error, self.resources)\n'),
  (A, _SEH_SET, '\n        self.error_handler = handler\n'))
# equivalent spellings: installed first and read back; one wrapping store per branch; the handler under a second name
T('g_c13_wrap_reads_back_installed_handler', ['C13'],
  (A, _SEH + _SEH_SET, "        self.error_handler = error_handler\n"
                       "        self._dispatch_wsgi = _safe_wrap_wsgi('error_handler', self.error_handler, self._dispatch_wsgi)\n"))
T('g_c13_wrap_in_both_branches', ['C13'],
  (A, _SEH_CRE + _SEH, _SEH_CRE),
  (A, _SEH_DEF, _SEH_DEF + '    ' + _SEH + '        else:\n    ' + _SEH))
T('g_c13_installed_handler_second_name', ['C13'],
  (A, _SEH_DEF, '            handler = deh_type()\n        else:\n            handler = error_handler\n'),
  (A, _SEH_CRE + _SEH, '        check_render_error(handler.render_error, self.resources)\n'
                       "        self._dispatch_wsgi = _safe_wrap_wsgi('error_handler', handler, self._dispatch_wsgi)\n"),
  (A, _SEH_SET, '\n        self.error_handler = handler\n'))

# ---- round g: a body stored into a response made elsewhere keeps the old iterable's close() reachable -------------------
_GZ_TODO = '            return resp  # TODO\n'
_GZ_IMP = 'from .core import Middleware\n'
_GZ_DATA = '        comp_content = gzip_bytes(resp.data, self.compress_level)\n'
# the streamed branch re-wraps the iterable with a plain generator: close() ends the generator, not the file underneath
B('g_c13_streamed_body_rewrapped_by_generator', ['C13'], 'R13.c',
  (GZ, _GZ_TODO, '            resp.response = (chunk.upper() for chunk in resp.iter_encoded())\n            return resp\n'))
# ... buffered with freeze(), which (in the pinned werkzeug) drops the old iterable without registering its close
B('g_c13_streamed_body_frozen_then_replaced', ['C13'], 'R13.c',
  (GZ, _GZ_TODO, "            resp.freeze()\n            resp.response = [gzip_bytes(b''.join(resp.response), self.compress_level)]\n"
                 "            resp.content_encoding = 'gzip'\n            return resp\n"))
# ... a HEAD short-cut that empties the body before anything has buffered it
B('g_c13_body_emptied_for_head', ['C13'], 'R13.c',
  (GZ, "        resp.vary.add('Accept-Encoding')\n",
       "        resp.vary.add('Accept-Encoding')\n        if request.method == 'HEAD':\n            resp.response = []\n            return resp\n"))
# ... the buffering read sits in a try whose handler goes on: on that path nothing was registered
B('g_c13_buffering_read_may_be_skipped', ['C13'], 'R13.c',
  (GZ, _GZ_DATA, "        try:\n            comp_content = gzip_bytes(resp.data, self.compress_level)\n"
                 "        except RuntimeError:\n            comp_content = b''\n"),
  (GZ, '        if len(comp_content) >= len(resp.data):\n            return resp\n', ''))
# ... the close registered is that of the *new* iterable
B('g_c13_registers_close_of_new_iterable', ['C13'], 'R13.c',
  (GZ, _GZ_TODO, '            resp.response = (chunk.upper() for chunk in resp.iter_encoded())\n'
                 '            resp.call_on_close(resp.response.close)\n            return resp\n'))
# equivalent correct spellings of a re-wrapping streamed branch
T('g_c13_streamed_rewrap_registers_old_close', ['C13'],
  (GZ, _GZ_TODO, '            body = resp.response\n            resp.response = (chunk.upper() for chunk in resp.iter_encoded())\n'
                 '            resp.call_on_close(body.close)\n            return resp\n'))
T('g_c13_streamed_rewrap_registers_old_close_guarded', ['C13'],
  (GZ, _GZ_TODO, "            close_body = getattr(resp.response, 'close', None)\n"
                 '            resp.response = (chunk.upper() for chunk in resp.iter_encoded())\n'
                 '            if close_body is not None:\n                resp.call_on_close(close_body)\n            return resp\n'))
T('g_c13_streamed_rewrap_closing_iterator', ['C13'],
  (GZ, _GZ_IMP, 'from werkzeug.wsgi import ClosingIterator\n' + _GZ_IMP),
  (GZ, _GZ_TODO, '            body = resp.response\n'
                 '            resp.response = ClosingIterator((chunk.upper() for chunk in resp.iter_encoded()), [body.close])\n            return resp\n'))
T('g_c13_streamed_made_sequence_first', ['C13'],
  (GZ, _GZ_TODO, '            resp.make_sequence()\n            resp.response = [chunk.upper() for chunk in resp.response]\n            return resp\n'))
T('g_c13_buffered_read_through_get_data', ['C13'],
  (GZ, _GZ_DATA, '        raw_content = resp.get_data()\n        comp_content = gzip_bytes(raw_content, self.compress_level)\n'))

# ---- R12.a / R08.d: a local re-bound to a display / comprehension after a call result is still this activation's own ----
_INJ_OLD = ("    if fb.varkw:\n        return f(**all_kwargs)\n\n"
            "    kwargs = dict([(k, v) for k, v in all_kwargs.items() if k in fb.get_arg_names()])\n    return f(**kwargs)\n")
T('f_c12_inject_single_exit_rebound_comprehension', ['C12', 'C08'],
  (S, _INJ_OLD, "    if not fb.varkw:\n        declared = fb.get_arg_names()\n"
                "        all_kwargs = {k: v for k, v in all_kwargs.items() if k in declared}\n    return f(**all_kwargs)\n"))
T('f_c12_inject_display_then_update', ['C12', 'C08'],
  (S, "    all_kwargs = fb.get_defaults_dict()\n    all_kwargs.update(injectables)\n",
      "    all_kwargs = fb.get_defaults_dict()\n    if not all_kwargs:\n        all_kwargs = {}\n    all_kwargs.update(injectables)\n"))
B('f_c12_inject_rebound_to_shared_mapping', ['C12', 'C08'], {'C12': 'R12.a', 'C08': 'R08.d'},
  (S, "    all_kwargs = fb.get_defaults_dict()\n    all_kwargs.update(injectables)\n",
      "    cands = {k: v for k, v in fb.get_defaults_dict().items()}\n    if not cands:\n        cands = f.__dict__\n"
      "    cands.update(injectables)\n    all_kwargs = cands\n"))
