"""E5d -- difference constraints from path conditions.

Facts have the form  a < b  or  a <= b  over normalised expression texts.  ``entails`` closes them
under transitivity (a<b, b<=c |- a<c ...) and answers a goal of the same form.
"""
import ast

from .core import norm


def _flip(op):
    return {ast.Lt: ast.Gt, ast.Gt: ast.Lt, ast.LtE: ast.GtE, ast.GtE: ast.LtE}[type(op)]


def fact_of(test, pol):
    """(a, b, strict) meaning a < b (strict) or a <= b, or None."""
    if not (isinstance(test, ast.Compare) and len(test.ops) == 1):
        return None
    op = test.ops[0]
    a, b = norm(test.left), norm(test.comparators[0])
    if isinstance(op, ast.Lt):
        return (a, b, True) if pol else (b, a, False)
    if isinstance(op, ast.LtE):
        return (a, b, False) if pol else (b, a, True)
    if isinstance(op, ast.Gt):
        return (b, a, True) if pol else (a, b, False)
    if isinstance(op, ast.GtE):
        return (b, a, False) if pol else (a, b, True)
    return None


def facts_from_conds(conds):
    out = []
    for t, p in conds:
        f = fact_of(t, p)
        if f:
            out.append(f)
    return out


def entails(facts, goal):
    """goal = (a, b, strict).  Floyd-Warshall style closure over the fact graph."""
    best = {}  # (a,b) -> strict?  (True better than False)
    nodes = set()
    for a, b, s in facts:
        nodes.add(a), nodes.add(b)
        if best.get((a, b)) is not True:
            best[(a, b)] = s
    ga, gb, gs = goal
    nodes.add(ga), nodes.add(gb)
    for n in nodes:
        best.setdefault((n, n), False)
    changed = True
    while changed:
        changed = False
        for (a, b), s1 in list(best.items()):
            for (c, d), s2 in list(best.items()):
                if b != c:
                    continue
                s = s1 or s2
                cur = best.get((a, d))
                if cur is None or (s and not cur):
                    best[(a, d)] = s
                    changed = True
    got = best.get((ga, gb))
    if got is None:
        return False
    return got or not gs
