"""E5d -- difference constraints from path conditions.

Facts have the form  a < b  or  a <= b  over normalised expression texts.  ``entails`` closes them
under transitivity (a<b, b<=c |- a<c ...) and answers a goal of the same form.

``Locals`` brings the terms into one spelling first: named temporaries (``samples = self._data``,
``size = len(samples)``) are looked through, so that facts and goals written over different names of the same
value meet.
"""
import ast
import copy

from .core import norm


def _flip(op):
    return {ast.Lt: ast.Gt, ast.Gt: ast.Lt, ast.LtE: ast.GtE, ast.GtE: ast.LtE}[type(op)]


def fact_of(test, pol):
    """(a, b, strict) meaning a < b (strict) or a <= b, or None."""
    if not (isinstance(test, ast.Compare) and len(test.ops) == 1):
        return None
    op = test.ops[0]
    a, b = norm(test.left), norm(test.comparators[0])
    if isinstance(op, ast.Lt):
        return (a, b, True) if pol else (b, a, False)
    if isinstance(op, ast.LtE):
        return (a, b, False) if pol else (b, a, True)
    if isinstance(op, ast.Gt):
        return (b, a, True) if pol else (a, b, False)
    if isinstance(op, ast.GtE):
        return (b, a, False) if pol else (a, b, True)
    return None


def facts_from_conds(conds):
    out = []
    for t, p in conds:
        f = fact_of(t, p)
        if f:
            out.append(f)
    return out


def entails(facts, goal):
    """goal = (a, b, strict).  Floyd-Warshall style closure over the fact graph."""
    best = {}  # (a,b) -> strict?  (True better than False)
    nodes = set()
    for a, b, s in facts:
        nodes.add(a), nodes.add(b)
        if best.get((a, b)) is not True:
            best[(a, b)] = s
    ga, gb, gs = goal
    nodes.add(ga), nodes.add(gb)
    for n in nodes:
        best.setdefault((n, n), False)
    changed = True
    while changed:
        changed = False
        for (a, b), s1 in list(best.items()):
            for (c, d), s2 in list(best.items()):
                if b != c:
                    continue
                s = s1 or s2
                cur = best.get((a, d))
                if cur is None or (s and not cur):
                    best[(a, d)] = s
                    changed = True
    got = best.get((ga, gb))
    if got is None:
        return False
    return got or not gs


# ---------------------------------------------------------------------------------------------- named temporaries
class Locals(object):
    """Named temporaries of one function, looked through on demand.

    ``x = <expr>`` (x a local bound only by such plain assignments -- also ``a, b = x, y`` -- and not a parameter)
    lets a later use of ``x`` be read as ``<expr>`` provided this is the only binding of ``x`` reaching the use,
    ``x`` is bound on every path to it, and no statement in between can change what ``<expr>`` denotes:
      * a re-binding of a name it reads,
      * a store to an attribute path it reads (or to a prefix of one),
      * when ``<expr>`` is a plain ``a.b.c`` path (an alias of an object): a method call on a proper prefix (the
        owner may re-bind the field),
      * when it is more than that (computed from the *contents* of objects): a store into, or a method call on, an
        object the expression reads.
    Attribute paths are treated as fields: stores to a different field name of the same object do not interfere.
    Calls that merely receive such an object as an argument are assumed not to mutate it."""

    def __init__(self, fnode, cfg, keep=()):
        self.fnode, self.cfg = fnode, cfg
        self.keep = set(keep)        # names never looked through (e.g. the local holding the next() result)
        a = fnode.args
        self.params = set(x.arg for x in a.posonlyargs + a.args + a.kwonlyargs)
        if a.vararg:
            self.params.add(a.vararg.arg)
        if a.kwarg:
            self.params.add(a.kwarg.arg)
        self._bind = {}
        self._value = {}
        counts = {}
        from .astutil import stmts_of
        for st in stmts_of(fnode):
            for n in _header_nodes(st):
                if isinstance(n, ast.Name) and isinstance(n.ctx, (ast.Store, ast.Del)):
                    counts[n.id] = counts.get(n.id, 0) + 1
                elif isinstance(n, (ast.Import, ast.ImportFrom)):
                    for al in n.names:
                        k = (al.asname or al.name).split('.')[0]
                        counts[k] = counts.get(k, 0) + 2
                elif isinstance(n, (ast.FunctionDef, ast.AsyncFunctionDef, ast.ClassDef)):
                    counts[n.name] = counts.get(n.name, 0) + 2
                elif isinstance(n, (ast.Global, ast.Nonlocal)):
                    for k in n.names:
                        counts[k] = counts.get(k, 0) + 2
            for h in getattr(st, 'handlers', None) or []:
                if h.name:
                    counts[h.name] = counts.get(h.name, 0) + 2
            if isinstance(st, ast.Assign):
                for t in st.targets:
                    if isinstance(t, ast.Name):
                        self._bind.setdefault(t.id, []).append(st)
                        self._value[(id(st), t.id)] = st.value
                    elif isinstance(t, (ast.Tuple, ast.List)) and isinstance(st.value, (ast.Tuple, ast.List)) and \
                            len(t.elts) == len(st.value.elts) and not any(isinstance(e, ast.Starred) for e in t.elts + st.value.elts):
                        # ``a, b = x, y``: the right-hand sides are all evaluated before any target is bound
                        tn = set(e.id for e in t.elts if isinstance(e, ast.Name))
                        for e, v in zip(t.elts, st.value.elts):
                            if isinstance(e, ast.Name) and not (tn & set(n.id for n in ast.walk(st.value) if isinstance(n, ast.Name))):
                                self._bind.setdefault(e.id, []).append(st)
                                self._value[(id(st), e.id)] = v
        # locals bound only by plain ``x = <expr>`` statements (possibly several: one per branch / handler)
        self.counts = counts
        self.defs = dict((k, v) for k, v in self._bind.items() if counts.get(k) == len(v) and k not in self.params)
        self.single = dict((k, v[0]) for k, v in self.defs.items() if len(v) == 1)

    # -- one step ------------------------------------------------------------------------------------------
    def reaching(self, name, nodes):
        """The one binding statement of local ``name`` that reaches all of the CFG ``nodes`` (``name`` bound on every path
        to them), else None."""
        sts = self.defs.get(name)
        if not sts:
            return None
        cfg = self.cfg
        all_ids = cfg.nodes_of_all(sts)
        if not all_ids:
            return None
        found = None
        for n in nodes:
            if n in all_ids or not cfg.must_pass(all_ids, cfg.entry, n):
                return None
            reaching = [d for d in sts if n in cfg.reach([m for x in cfg.nodes_of(d) for m in cfg.succ[x]], avoid=all_ids)]
            if len(reaching) != 1 or (found is not None and reaching[0] is not found):
                return None
            found = reaching[0]
        return found

    def def_at(self, name, nodes):
        """The one binding statement of local ``name`` whose value is what ``name`` stands for at all of the CFG
        ``nodes``: it is the only binding reaching them, ``name`` is bound on every path, and nothing in between
        changes what the bound expression denotes.  None otherwise."""
        if name in self.keep:
            return None
        found = self.reaching(name, nodes)
        if found is None:
            return None
        cfg = self.cfg
        all_ids = cfg.nodes_of_all(self.defs[name])
        val = self._value[(id(found), name)]
        if isinstance(val, (ast.Lambda, ast.Yield, ast.YieldFrom, ast.Await, ast.NamedExpr)):
            return None
        ids = cfg.nodes_of(found)
        after = [m for x in ids for m in cfg.succ[x]]
        for n in nodes:
            mid = (cfg.reach(after, avoid=all_ids) & cfg.coreach([n], avoid=all_ids)) - {n}
            if self._killed(val, mid):
                return None
        return found

    def binding(self, name, stmt):
        """(value expression, binding statement) of local ``name`` as used by ``stmt`` -- see def_at -- or None."""
        d = self.def_at(name, [n for n in self.cfg.nodes_of(stmt) if self.cfg.reachable(n)])
        return (self._value[(id(d), name)], d) if d is not None else None

    def same(self, e1, s1, e2, s2):
        """Do ``e1`` evaluated by statement ``s1`` and ``e2`` evaluated by ``s2`` denote the same value?  (Some unfolding of
        the named temporaries makes them textually equal; every local left in that text has the same binding at both
        points; nothing between the two points changes what the text denotes.)"""
        cfg = self.cfg
        n1 = [n for n in cfg.nodes_of(s1) if cfg.reachable(n)]
        n2 = [n for n in cfg.nodes_of(s2) if cfg.reachable(n)]
        if not n1 or not n2:
            return False
        forms1 = [self._res(copy.deepcopy(e1), n1, d, None, None) for d in range(6)]
        forms2 = [self._res(copy.deepcopy(e2), n2, d, None, None) for d in range(6)]
        done = set()
        for t1 in forms1:
            for t2 in forms2:
                k = norm(t1)
                if k != norm(t2) or k in done:
                    continue
                done.add(k)
                if self._stable(t1, n1, n2):
                    return True
        return False

    def _stable(self, t, n1, n2):
        cfg = self.cfg
        for name in set(x.id for x in ast.walk(t) if isinstance(x, ast.Name)):
            if self.counts.get(name):
                r1, r2 = self.reaching(name, n1), self.reaching(name, n2)
                if r1 is None or r1 is not r2:
                    return False
        s1 = [m for x in n1 for m in cfg.succ[x]]
        s2 = [m for x in n2 for m in cfg.succ[x]]
        mid = ((cfg.reach(s1) & cfg.coreach(n2)) | (cfg.reach(s2) & cfg.coreach(n1))) - set(n1) - set(n2)
        return not self._killed(t, mid)

    def value_at(self, name, nodes):
        """The expression local ``name`` stands for at all of the CFG ``nodes`` (or None)."""
        d = self.def_at(name, nodes)
        return self._value[(id(d), name)] if d is not None else None

    def _killed(self, val, mid):
        cfg = self.cfg
        if cfg._kills(val, mid):
            return True
        pure = _path(val) is not None
        vpaths = [p for p in (_path(x) for x in _maximal_attrs(val)) if p]
        vnames = set(x.id for x in ast.walk(val) if isinstance(x, ast.Name))
        whole = set(x.id for x in ast.walk(val) if isinstance(x, ast.Name) and not _is_attr_base(val, x))

        def related(tp):
            return any(vp[:len(tp)] == tp or tp[:len(vp)] == vp for vp in vpaths)
        for nid in mid:
            nd = cfg.nodes[nid]
            if nd.stmt is None or nd.kind not in ('stmt', 'head'):
                continue
            for x in _header_nodes(nd.stmt):
                if isinstance(x, (ast.Attribute, ast.Subscript)) and isinstance(x.ctx, (ast.Store, ast.Del)):
                    tp = _path(x) if isinstance(x, ast.Attribute) else None
                    if tp and any(vp[:len(tp)] == tp for vp in vpaths):
                        return True          # a path the value reads (or a prefix of it) is re-bound
                    if pure or _root(x) not in vnames:
                        continue
                    if tp and tp[0] not in whole and not related(tp):
                        continue             # a different field of the same object
                    return True              # a store into an object the value was computed from
                elif isinstance(x, ast.Call) and isinstance(x.func, ast.Attribute) and _root(x.func.value) in vnames:
                    rp = _path(x.func.value)
                    if pure:
                        if rp and any(len(rp) < len(vp) and vp[:len(rp)] == rp for vp in vpaths):
                            return True      # a method of the owner may re-bind the field
                        continue
                    if rp is None or rp[0] in whole or related(rp):
                        return True          # a method of an object the value was computed from
        return False

    # -- full resolution -----------------------------------------------------------------------------------
    def resolve(self, expr, stmt, depth=6, via=None, stop=None):
        """``expr`` (as evaluated by statement ``stmt``) with single-assignment locals replaced by what they
        stand for, repeatedly.  ``via`` (a list) collects the binding statements looked through;  ``stop(name)``
        -> True keeps a name as it is.  Returns a new tree; ``expr`` is not modified."""
        nodes = [n for n in self.cfg.nodes_of(stmt) if self.cfg.reachable(n)]
        return self._res(copy.deepcopy(expr), nodes, depth, via, stop)

    def _res(self, e, nodes, depth, via, stop):
        if depth <= 0 or not nodes:
            return e
        outer = self

        class Sub(ast.NodeTransformer):
            def visit_Name(self_, n):
                if not isinstance(n.ctx, ast.Load) or (stop is not None and stop(n.id)):
                    return n
                st = outer.def_at(n.id, nodes)
                if st is None:
                    return n
                v = outer._value[(id(st), n.id)]
                if via is not None and st not in via:
                    via.append(st)
                ids = [x for x in outer.cfg.nodes_of(st) if outer.cfg.reachable(x)]
                return outer._res(copy.deepcopy(v), ids, depth - 1, via, stop)

            def visit_Lambda(self_, n):
                return n

            def _comp(self_, n):
                return n
            visit_ListComp = visit_SetComp = visit_DictComp = visit_GeneratorExp = _comp
        return Sub().visit(e)

    def text(self, expr, stmt, **kw):
        return norm(self.resolve(expr, stmt, **kw))

    def conds(self, conds, mod):
        """Path conditions with their tests resolved at the statement that evaluates them."""
        from .astutil import stmt_of
        out = []
        for t, p in conds:
            st = stmt_of(mod, t)
            out.append((self.resolve(t, st) if st is not None and self.cfg.nodes_of(st) else t, p))
        return out


def _header_nodes(st):
    """Nodes evaluated by the statement itself (for compound statements: the header, not the nested blocks)."""
    if isinstance(st, (ast.FunctionDef, ast.AsyncFunctionDef, ast.ClassDef)):
        return [st]
    skip = set()
    for fld in ('body', 'orelse', 'finalbody', 'handlers', 'cases'):
        sub = getattr(st, fld, None)
        if isinstance(sub, list):
            skip.update(id(x) for x in sub)
    out = []
    todo = [st]
    while todo:
        n = todo.pop()
        out.append(n)
        if isinstance(n, (ast.Lambda,)):
            continue
        for c in ast.iter_child_nodes(n):
            if id(c) not in skip:
                todo.append(c)
    return out


def _path(e):
    """('a', 'b', 'c') for a pure Name/Attribute chain, else None."""
    parts = []
    while isinstance(e, ast.Attribute):
        parts.append(e.attr)
        e = e.value
    if isinstance(e, ast.Name):
        parts.append(e.id)
        return tuple(reversed(parts))
    return None


def _maximal_attrs(tree):
    """Attribute nodes of ``tree`` that are not themselves the base of a longer attribute chain."""
    inner = set(id(n.value) for n in ast.walk(tree) if isinstance(n, ast.Attribute))
    return [n for n in ast.walk(tree) if isinstance(n, ast.Attribute) and id(n) not in inner]


def _root(e):
    while True:
        if isinstance(e, (ast.Attribute, ast.Subscript, ast.Starred)):
            e = e.value
        elif isinstance(e, ast.Call):
            e = e.func
        else:
            break
    return e.id if isinstance(e, ast.Name) else None


def _is_attr_base(tree, name_node):
    """Is this Name node (inside ``tree``) the base of an attribute chain (``name.x``), as opposed to being used whole?"""
    for n in ast.walk(tree):
        if isinstance(n, ast.Attribute) and n.value is name_node:
            return True
    return False


# ---------------------------------------------------------------------------------------------- path conditions as formulas
# A path condition is a conjunction of (test, polarity) pairs whose tests are boolean combinations of opaque atoms.
# ``not (a and b)`` says less than ``not b``: whether a goal literal follows is decided over the formulas (truth table
# over the atoms -- a finite abstract domain; nothing of the analysed program is evaluated).
_NEG_OPS = {ast.IsNot: ast.Is, ast.NotEq: ast.Eq, ast.NotIn: ast.In}
MAX_ATOMS = 14


def _formula(e, atoms):
    """Nested tuples ('atom', text) / ('const', bool) / ('not', f) / ('and', [f..]) / ('or', [f..]) for the truth value of
    expression ``e``; the atom texts are collected in ``atoms``."""
    if isinstance(e, ast.UnaryOp) and isinstance(e.op, ast.Not):
        return ('not', _formula(e.operand, atoms))
    if isinstance(e, ast.BoolOp):
        return ('and' if isinstance(e.op, ast.And) else 'or', [_formula(v, atoms) for v in e.values])
    if isinstance(e, ast.Constant):
        return ('const', bool(e.value))
    if isinstance(e, ast.Call) and isinstance(e.func, ast.Name) and e.func.id == 'bool' and len(e.args) == 1 and not e.keywords:
        return _formula(e.args[0], atoms)
    if isinstance(e, ast.IfExp):
        c = _formula(e.test, atoms)
        return ('or', [('and', [c, _formula(e.body, atoms)]), ('and', [('not', c), _formula(e.orelse, atoms)])])
    if isinstance(e, ast.Compare) and len(e.ops) == 1 and type(e.ops[0]) in _NEG_OPS:
        pos = ast.Compare(left=e.left, ops=[_NEG_OPS[type(e.ops[0])]()], comparators=e.comparators)
        return ('not', _formula(pos, atoms))
    text = norm(e)
    atoms.add(text)
    return ('atom', text)


def _holds(f, env):
    k = f[0]
    if k == 'atom':
        return env[f[1]]
    if k == 'const':
        return f[1]
    if k == 'not':
        return not _holds(f[1], env)
    if k == 'and':
        return all(_holds(x, env) for x in f[1])
    return any(_holds(x, env) for x in f[1])


def prop_entails(conds, goal, goal_pol=True):
    """Do the path conditions ``conds`` ([(test, polarity)]) entail that expression ``goal`` has truth value ``goal_pol``?
    -> (True, None), or (False, {atom text: bool}) with an assignment of the atoms that satisfies every condition and
    falsifies the goal.  Atoms are opaque expression texts, except that ``x is None`` being true makes ``x`` false.
    Raises ValueError when there are too many atoms to decide."""
    import itertools
    atoms = set()
    g = _formula(goal, atoms)
    if not goal_pol:
        g = ('not', g)
    cand = []
    for t, p in conds:
        own = set()
        f = _formula(t, own)
        cand.append((f if p else ('not', f), own))
    # only the conditions connected with the goal through shared atoms matter (dropping premises is sound)
    prem = []
    grown = True
    while grown:
        grown = False
        for item in list(cand):
            f, own = item
            if not own or own & atoms:          # (a constant condition -- ``if False:`` -- is kept: it may make the path dead)
                prem.append(f)
                atoms |= own
                cand.remove(item)
                grown = True
    names = sorted(atoms)
    if len(names) > MAX_ATOMS:
        raise ValueError('%d atoms in the path condition' % len(names))
    none_of = [(a, a[:-len(' is None')]) for a in names if a.endswith(' is None') and a[:-len(' is None')] in atoms]
    for vals in itertools.product((True, False), repeat=len(names)):
        env = dict(zip(names, vals))
        if any(env[a] and env[x] for a, x in none_of):
            continue
        if all(_holds(f, env) for f in prem) and not _holds(g, env):
            return False, env
    return True, None


def short_circuit_conds(mod, node):
    """[(test, polarity)] established by the expression context of ``node`` inside its own statement: the earlier operands of
    an enclosing ``and`` (true) / ``or`` (false), the test of an enclosing conditional expression."""
    out = []
    cur = node
    while True:
        par = mod.parents.get(cur)
        if par is None or isinstance(par, (ast.stmt, ast.Lambda, ast.ListComp, ast.SetComp, ast.DictComp, ast.GeneratorExp)):
            return out
        if isinstance(par, ast.BoolOp):
            idx = [i for i, v in enumerate(par.values) if v is cur]
            if idx:
                out.extend((v, isinstance(par.op, ast.And)) for v in par.values[:idx[0]])
        elif isinstance(par, ast.IfExp) and cur is not par.test:
            out.append((par.test, cur is par.body))
        cur = par
