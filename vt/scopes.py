"""E1 -- scope resolution with ``symtable``: which Name loads cannot be bound.

A name is *unbound* in a scope when Python's compiler resolves it to the module
global namespace (implicitly or by ``global``), the module never binds it at top
level (assignment, import, def, class, for/with/except target, ``global``
assignment inside a function), and the running interpreter has no builtin of
that name.  This is exactly the class of defect behind ``unicode`` on Python 3.
"""
import ast
import builtins
import symtable

from .core import AnalysisError

_MODULE_ATTRS = {'__file__', '__name__', '__doc__', '__package__', '__spec__', '__loader__', '__path__',
                 '__builtins__', '__debug__', '__class__', '__cached__', '__annotations__', '__dict__', '__all__'}
_BUILTINS = set(dir(builtins))


class Unbound(object):
    def __init__(self, mod, scope, name, nodes):
        self.mod, self.scope, self.name, self.nodes = mod, scope, name, nodes

    def __repr__(self):
        return '<Unbound %s in %s::%s>' % (self.name, self.mod.name, self.scope)


def _module_bound(mod, top):
    bound = set()
    for s in top.get_symbols():
        if s.is_assigned() or s.is_imported() or s.is_namespace() or s.is_parameter():
            bound.add(s.get_name())
    # names declared ``global`` and assigned inside functions
    def rec(tbl):
        for ch in tbl.get_children():
            for s in ch.get_symbols():
                if s.is_declared_global() and s.is_assigned():
                    bound.add(s.get_name())
            rec(ch)
    rec(top)
    # star imports: resolve inside the analysed tree, else give up loudly
    for st in ast.walk(mod.tree):
        if isinstance(st, ast.ImportFrom) and any(a.name == '*' for a in st.names):
            target = mod.repo.try_mod(mod._abs_module(st))
            if target is None or target.external:
                raise AnalysisError('%s: star import from %s cannot be resolved statically' % (mod.relpath, st.module))
            bound |= set(target.assigns) | set(target.imports)
    return bound


def unbound_names(mod):
    """All unbound global references of a module: list of Unbound (scope = qualname or '<module>')."""
    try:
        top = symtable.symtable(mod.src, mod.path, 'exec')
    except SyntaxError as e:
        raise AnalysisError('symtable failed on %s: %s' % (mod.relpath, e))
    bound = _module_bound(mod, top)
    out = []

    def loads_in_scope(scope_node, name):
        """Name-load nodes of ``name`` directly in this scope (not in nested scopes)."""
        res = []
        bodies = [scope_node] if not isinstance(scope_node, ast.Module) else [scope_node]
        todo = list(ast.iter_child_nodes(scope_node))
        while todo:
            n = todo.pop()
            if isinstance(n, (ast.FunctionDef, ast.AsyncFunctionDef, ast.Lambda, ast.ClassDef)):
                # decorators / defaults / bases belong to the enclosing scope
                if not isinstance(n, ast.Lambda):
                    todo.extend(n.decorator_list)
                if isinstance(n, ast.ClassDef):
                    todo.extend(n.bases)
                    todo.extend(k.value for k in n.keywords)
                else:
                    todo.extend(d for d in n.args.defaults)
                    todo.extend(d for d in n.args.kw_defaults if d is not None)
                continue
            if isinstance(n, (ast.ListComp, ast.SetComp, ast.DictComp, ast.GeneratorExp)):
                # comprehension scopes: treat as part of the enclosing scope for reporting
                todo.extend(ast.iter_child_nodes(n))
                continue
            if isinstance(n, ast.Name) and n.id == name and isinstance(n.ctx, ast.Load):
                res.append(n)
            todo.extend(ast.iter_child_nodes(n))
        return res

    def find_scope_node(parent_node, tbl):
        name, line = tbl.get_name(), tbl.get_lineno()
        for n in ast.walk(parent_node):
            if isinstance(n, (ast.FunctionDef, ast.AsyncFunctionDef, ast.ClassDef)) and n.name == name and n.lineno == line:
                return n
            if isinstance(n, ast.Lambda) and name == 'lambda' and n.lineno == line:
                return n
        return None

    def rec(tbl, node, qual):
        for s in tbl.get_symbols():
            nm = s.get_name()
            if not s.is_referenced():
                continue
            if tbl.get_type() == 'module':
                is_glob = True
            else:
                is_glob = s.is_global()
            if not is_glob:
                continue
            if nm in bound or nm in _BUILTINS or nm in _MODULE_ATTRS:
                continue
            nodes = loads_in_scope(node, nm) if node is not None else []
            out.append(Unbound(mod, qual or '<module>', nm, nodes))
        for ch in tbl.get_children():
            ch_type = ch.get_type()
            if ch_type not in ('function', 'class'):
                # annotation scopes / type params: skip
                sub_node = node
                rec(ch, sub_node, qual)
                continue
            nm = ch.get_name()
            if nm in ('listcomp', 'setcomp', 'dictcomp', 'genexpr'):
                # comprehension scope: report under the enclosing qualname, search enclosing node
                rec_comp(ch, node, qual)
                continue
            sub_node = find_scope_node(node, ch) if node is not None else None
            sub_qual = (qual + '.' if qual else '') + ('<lambda>' if nm == 'lambda' else nm)
            rec(ch, sub_node, sub_qual)

    def rec_comp(tbl, node, qual):
        for s in tbl.get_symbols():
            nm = s.get_name()
            if s.is_referenced() and s.is_global() and nm not in bound and nm not in _BUILTINS and nm not in _MODULE_ATTRS:
                nodes = loads_in_scope(node, nm) if node is not None else []
                if not any(u.scope == (qual or '<module>') and u.name == nm for u in out):
                    out.append(Unbound(mod, qual or '<module>', nm, nodes))
        for ch in tbl.get_children():
            rec_comp(ch, node, qual)

    rec(top, mod.tree, '')
    return out
