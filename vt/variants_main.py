"""Variants for rules added after the refactoring experiment (findings F14, F15)."""
from .variants import B, T, S, C, R, A, E, ST, CK, STATS, GZ, CC, PF, RS, FL, META, CE

# ---- R15.e nullable header attributes (F15)
_CT_FIX = ("            content_type = resp.content_type or ''\n"
           "            if not (content_type.startswith('text/') or\n                    'javascript' in content_type):\n")
B('m15_content_type_deref', ['C15'], 'R15.e',
  (GZ, _CT_FIX, "            if not (resp.content_type.startswith('text/') or\n                    'javascript' in resp.content_type):\n"))
B('m15_content_type_local_deref', ['C15'], 'R15.e',
  (GZ, "            content_type = resp.content_type or ''\n", "            content_type = resp.content_type\n"))
B('m15_stats_mimetype_deref', ['C15'], 'R15.e',
  (GZ, "        if resp.content_encoding or not request.accept_encodings['gzip']:\n",
       "        if resp.content_encoding.strip() or not request.accept_encodings['gzip']:\n"))
T('m15_twin_guarded_by_test', ['C15'],
  (GZ, _CT_FIX, "            content_type = resp.content_type\n            if content_type and not (content_type.startswith('text/') or\n                    'javascript' in content_type):\n"))
T('m15_twin_short_circuit', ['C15'],
  (GZ, _CT_FIX, "            if resp.content_type and not (resp.content_type.startswith('text/') or\n                    'javascript' in resp.content_type):\n"))
T('m15_twin_is_not_none', ['C15'],
  (GZ, _CT_FIX, "            content_type = resp.content_type\n            if content_type is None:\n                content_type = ''\n            if not (content_type.startswith('text/') or\n                    'javascript' in content_type):\n"))

# ---- R13.d application-level middlewares are wrapper sources (F14)
B('m13_wrappers_from_routes_only', ['C13'], 'R13.d',
  (A, '        all_mws = _get_all_middlewares(self.routes, self.middlewares)\n', '        all_mws = _get_all_middlewares(self.routes)\n'))
B('m13_app_middlewares_inside_routes_loop', ['C13'], 'R13',
  (A, "    for mw in app_middlewares:\n        if mw not in all_mw:\n            all_mw.append(mw)\n\n    for broute in reversed(bound_routes):\n",
      "    for broute in reversed(bound_routes):\n        for mw in app_middlewares:\n            if mw not in all_mw:\n                all_mw.append(mw)\n"))
B('m13_app_middlewares_not_deduplicated', ['C13'], 'R13.b',
  (A, "    for mw in app_middlewares:\n        if mw not in all_mw:\n            all_mw.append(mw)\n", "    for mw in app_middlewares:\n        all_mw.append(mw)\n"))
B('m13_app_middlewares_after_routes', ['C13'], 'R13.b',
  (A, "    for mw in app_middlewares:\n        if mw not in all_mw:\n            all_mw.append(mw)\n\n", ""),
  (A, "                all_mw.append(mw)\n\n    return all_mw\n",
      "                all_mw.append(mw)\n\n    for mw in app_middlewares:\n        if mw not in all_mw:\n            all_mw.append(mw)\n\n    return all_mw\n"))
T('m13_twin_keyword_argument', ['C13'],
  (A, '        all_mws = _get_all_middlewares(self.routes, self.middlewares)\n', '        all_mws = _get_all_middlewares(self.routes, app_middlewares=self.middlewares)\n'))
T('m13_twin_inline_reversed', ['C13'],
  (A, '        all_mws = _get_all_middlewares(self.routes, self.middlewares)\n        for mw in reversed(all_mws):\n',
      '        for mw in reversed(_get_all_middlewares(self.routes, self.middlewares)):\n'))

# ---- R20.l the failsafe page is handed to the response as bytes from a total encoding (F18)
AT = 'clastic/render/ashes_templates.py'
_F18 = ("            if isinstance(content, unicode):\n"
        "                # context values can carry any text, including lone surrogates\n"
        "                content = content.encode('utf-8', 'backslashreplace')\n")
B('m20_page_text_handed_over_as_str', ['C20'], 'R20.l', (AT, _F18, ""))
B('m20_page_text_encoded_strictly', ['C20'], 'R20.l',
  (AT, _F18, "            if isinstance(content, unicode):\n                content = content.encode('utf-8')\n"))
B('m20_page_text_strict_handler_named', ['C20'], 'R20.l',
  (AT, "content.encode('utf-8', 'backslashreplace')", "content.encode('utf-8', errors='strict')"))
B('m20_page_text_rejoined_after_encoding', ['C20'], 'R20.l',
  (AT, "            return Response(content, status=status, mimetype=mimetype)",
       "            return Response('%s\\n' % template.render(context), status=status, mimetype=mimetype)"))
T('m20_twin_unconditional_encode', ['C20'],
  (AT, _F18, "            content = content.encode('utf-8', errors='replace')\n"))
T('m20_twin_encode_in_the_call', ['C20'],
  (AT, _F18, ""),
  (AT, "            return Response(content, status=status, mimetype=mimetype)",
       "            return Response(content.encode('utf-8', 'xmlcharrefreplace'), status=status, mimetype=mimetype)"))
T('m20_twin_named_temporary', ['C20'],
  (AT, _F18, "            body = content.encode('utf-8', 'backslashreplace')\n"),
  (AT, "            return Response(content, status=status, mimetype=mimetype)",
       "            return Response(body, status=status, mimetype=mimetype)"))

# ---- R08.h the body of an error response is produced by a total encoding (F16)
_F16_INIT = "        body = self._encode(self.to_text())\n        super(HTTPException, self).__init__(response=body,\n"
_F16_ADAPT = "        self.data = self._encode(_method())\n"
_F16_ENC = "        return text.encode(self.charset, 'backslashreplace')\n"
B('m08_error_text_handed_over_as_str', ['C08'], 'R08.h',
  (E, _F16_INIT, "        super(HTTPException, self).__init__(response=self.to_text(),\n"))
B('m08_adapted_text_handed_over_as_str', ['C08'], 'R08.h', (E, _F16_ADAPT, "        self.data = _method()\n"))
B('m08_error_text_encoded_strictly', ['C08'], 'R08.h', (E, _F16_ENC, "        return text.encode(self.charset)\n"))
B('m08_error_text_strict_handler_named', ['C08'], 'R08.h', (E, _F16_ENC, "        return text.encode(self.charset, errors='strict')\n"))
B('m08_surrogateescape_is_not_total', ['C08'], 'R08.h', (E, _F16_ENC, "        return text.encode(self.charset, 'surrogateescape')\n"))
B('m08_set_data_with_text', ['C08'], 'R08.h', (E, _F16_ADAPT, "        self.set_data(_method())\n"))
B('m08_encoding_skipped_for_html', ['C08'], 'R08.h',
  (E, _F16_ADAPT, "        body = _method()\n        if fmt_name != 'html':\n            body = self._encode(body)\n        self.data = body\n"))
T('m08_twin_replace_handler', ['C08'], (E, _F16_ENC, "        return text.encode(self.charset, errors='replace')\n"))
T('m08_twin_inline_encode', ['C08'],
  (E, _F16_ADAPT, "        self.data = _method().encode(self.charset, 'backslashreplace')\n"))
T('m08_twin_set_data_encoded', ['C08'], (E, _F16_ADAPT, "        self.set_data(self._encode(_method()))\n"))
T('m08_twin_named_temporaries', ['C08'],
  (E, _F16_ADAPT, "        serialized = _method()\n        encoded = self._encode(serialized)\n        self.data = encoded\n"))
T('m08_twin_module_level_encoder', ['C08'],
  (E, "    def _encode(self, text):\n", "    def _encode_unused(self, text):\n"),
  (E, "class HTTPException(BaseResponse, Exception):", "def _to_body(text, charset='utf-8'):\n    if isinstance(text, bytes):\n        return text\n    return text.encode(charset, 'xmlcharrefreplace')\n\n\nclass HTTPException(BaseResponse, Exception):"),
  (E, "body = self._encode(self.to_text())", "body = _to_body(self.to_text())"),
  (E, _F16_ADAPT, "        self.data = _to_body(_method(), self.charset)\n"))
