"""Variants for rules added after the refactoring experiment (findings F14, F15)."""
from .variants import B, T, S, C, R, A, E, ST, CK, STATS, GZ, CC, PF, RS, FL, META, CE

# ---- R15.e nullable header attributes (F15)
_CT_FIX = ("            content_type = resp.content_type or ''\n"
           "            if not (content_type.startswith('text/') or\n                    'javascript' in content_type):\n")
B('m15_content_type_deref', ['C15'], 'R15.e',
  (GZ, _CT_FIX, "            if not (resp.content_type.startswith('text/') or\n                    'javascript' in resp.content_type):\n"))
B('m15_content_type_local_deref', ['C15'], 'R15.e',
  (GZ, "            content_type = resp.content_type or ''\n", "            content_type = resp.content_type\n"))
B('m15_stats_mimetype_deref', ['C15'], 'R15.e',
  (GZ, "        if resp.content_encoding or not request.accept_encodings['gzip']:\n",
       "        if resp.content_encoding.strip() or not request.accept_encodings['gzip']:\n"))
T('m15_twin_guarded_by_test', ['C15'],
  (GZ, _CT_FIX, "            content_type = resp.content_type\n            if content_type and not (content_type.startswith('text/') or\n                    'javascript' in content_type):\n"))
T('m15_twin_short_circuit', ['C15'],
  (GZ, _CT_FIX, "            if resp.content_type and not (resp.content_type.startswith('text/') or\n                    'javascript' in resp.content_type):\n"))
T('m15_twin_is_not_none', ['C15'],
  (GZ, _CT_FIX, "            content_type = resp.content_type\n            if content_type is None:\n                content_type = ''\n            if not (content_type.startswith('text/') or\n                    'javascript' in content_type):\n"))

# ---- R13.d application-level middlewares are wrapper sources (F14)
B('m13_wrappers_from_routes_only', ['C13'], 'R13.d',
  (A, '        all_mws = _get_all_middlewares(self.routes, self.middlewares)\n', '        all_mws = _get_all_middlewares(self.routes)\n'))
B('m13_app_middlewares_inside_routes_loop', ['C13'], 'R13',
  (A, "    for mw in app_middlewares:\n        if mw not in all_mw:\n            all_mw.append(mw)\n\n    for broute in reversed(bound_routes):\n",
      "    for broute in reversed(bound_routes):\n        for mw in app_middlewares:\n            if mw not in all_mw:\n                all_mw.append(mw)\n"))
B('m13_app_middlewares_not_deduplicated', ['C13'], 'R13.b',
  (A, "    for mw in app_middlewares:\n        if mw not in all_mw:\n            all_mw.append(mw)\n", "    for mw in app_middlewares:\n        all_mw.append(mw)\n"))
B('m13_app_middlewares_after_routes', ['C13'], 'R13.b',
  (A, "    for mw in app_middlewares:\n        if mw not in all_mw:\n            all_mw.append(mw)\n\n", ""),
  (A, "                all_mw.append(mw)\n\n    return all_mw\n",
      "                all_mw.append(mw)\n\n    for mw in app_middlewares:\n        if mw not in all_mw:\n            all_mw.append(mw)\n\n    return all_mw\n"))
T('m13_twin_keyword_argument', ['C13'],
  (A, '        all_mws = _get_all_middlewares(self.routes, self.middlewares)\n', '        all_mws = _get_all_middlewares(self.routes, app_middlewares=self.middlewares)\n'))
T('m13_twin_inline_reversed', ['C13'],
  (A, '        all_mws = _get_all_middlewares(self.routes, self.middlewares)\n        for mw in reversed(all_mws):\n',
      '        for mw in reversed(_get_all_middlewares(self.routes, self.middlewares)):\n'))

# ---- R20.l the failsafe page is handed to the response as bytes from a total encoding (F18)
AT = 'clastic/render/ashes_templates.py'
_F18 = ("            if isinstance(content, unicode):\n"
        "                # context values can carry any text, including lone surrogates\n"
        "                content = content.encode('utf-8', 'backslashreplace')\n")
B('m20_page_text_handed_over_as_str', ['C20'], 'R20.l', (AT, _F18, ""))
B('m20_page_text_encoded_strictly', ['C20'], 'R20.l',
  (AT, _F18, "            if isinstance(content, unicode):\n                content = content.encode('utf-8')\n"))
B('m20_page_text_strict_handler_named', ['C20'], 'R20.l',
  (AT, "content.encode('utf-8', 'backslashreplace')", "content.encode('utf-8', errors='strict')"))
B('m20_page_text_rejoined_after_encoding', ['C20'], 'R20.l',
  (AT, "            return Response(content, status=status, mimetype=mimetype)",
       "            return Response('%s\\n' % template.render(context), status=status, mimetype=mimetype)"))
T('m20_twin_unconditional_encode', ['C20'],
  (AT, _F18, "            content = content.encode('utf-8', errors='replace')\n"))
T('m20_twin_encode_in_the_call', ['C20'],
  (AT, _F18, ""),
  (AT, "            return Response(content, status=status, mimetype=mimetype)",
       "            return Response(content.encode('utf-8', 'xmlcharrefreplace'), status=status, mimetype=mimetype)"))
T('m20_twin_named_temporary', ['C20'],
  (AT, _F18, "            body = content.encode('utf-8', 'backslashreplace')\n"),
  (AT, "            return Response(content, status=status, mimetype=mimetype)",
       "            return Response(body, status=status, mimetype=mimetype)"))
