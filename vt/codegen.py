"""E6b -- analysis of Python-code templates.

String-building expressions that reach ``compile_code`` are evaluated to a *template*: a list of
literal text parts and symbolic holes (parameters, repeats of an indent unit, joins over an
iterable with an element template, recursive calls).  The template is then rendered with
placeholder identifiers and parsed with ``ast``, so rules inspect the *generated* code's syntax
tree.  The evaluator handles the expression kinds the builders use (literals, ``+``, ``%``,
``*`` by an int, ``str.join``, ``str.format``, calls to helpers of the same module inlined one
level, single-assignment locals); anything else becomes an opaque hole, and an opaque hole in a
position the rules need is reported as ANALYSIS-ERROR by the rule.
"""
import ast
import re

from .core import AnalysisError, norm
from .astutil import stmts_of, assigned_value


class Sym(object):
    def __init__(self, kind, **kw):
        self.kind = kind
        self.__dict__.update(kw)

    def __repr__(self):
        return '<Sym %s %s>' % (self.kind, dict((k, (norm(v) if isinstance(v, ast.AST) else v))
                                                 for k, v in self.__dict__.items() if k != 'kind'))


class Elem(object):
    """Element variable of an iterable (comprehension variable), identified by its base iterable."""

    def __init__(self, base_expr, base_text, index=None):
        self.base_expr, self.base_text, self.index = base_expr, base_text, index

    def key(self):
        return (self.base_text, self.index)

    def __repr__(self):
        return '<Elem of %s%s>' % (self.base_text, '' if self.index is None else '[%s]' % self.index)


class TemplateEval(object):
    def __init__(self, repo, fi):
        self.repo, self.fi, self.mod = repo, fi, fi.mod
        self.params = set(fi.params())
        self._local_cache = {}
        self.comp_env = {}     # comprehension variable -> Elem / tuple of Elem

    # -- locals --------------------------------------------------------------
    def local_def(self, name):
        """The single value expression assigned to a local (last textual assignment wins when the
        name is re-bound from itself, e.g. ``inner_args = ', '.join(... inner_args ...)``)."""
        vals = [(st, v, idx) for st, v, idx in assigned_value(self.fi.node, name) if idx is None and isinstance(st, ast.Assign)]
        return vals

    def resolve_local(self, name, at_line=None):
        vals = self.local_def(name)
        if not vals:
            return None
        if at_line is not None:
            before = [x for x in vals if x[0].lineno < at_line]
            if before:
                return before[-1]
        return vals[-1]

    # -- evaluation ------------------------------------------------------------
    def ev(self, e, at_line=None, depth=0):
        """-> list of parts (str | Sym | Elem)."""
        if depth > 30:
            return [Sym('expr', expr=e)]
        at = getattr(e, 'lineno', at_line) or at_line
        if isinstance(e, ast.Constant):
            if isinstance(e.value, str):
                return [e.value]
            return [Sym('const', value=e.value)]
        if isinstance(e, ast.Name):
            if e.id in self.comp_env:
                v = self.comp_env[e.id]
                return [v] if not isinstance(v, tuple) else [Sym('tuple', items=v)]
            d = self.resolve_local(e.id, at)
            if d is not None:
                st, v, idx = d
                return self.ev(v, st.lineno, depth + 1)
            if e.id in self.params:
                return [Sym('param', name=e.id)]
            try:
                val = self.repo.fold(e, self.mod)
                if isinstance(val, str):
                    return [val]
            except Exception:
                pass
            return [Sym('expr', expr=e)]
        if isinstance(e, ast.BinOp):
            if isinstance(e.op, ast.Add):
                return self.ev(e.left, at, depth + 1) + self.ev(e.right, at, depth + 1)
            if isinstance(e.op, ast.Mult):
                l = self.ev(e.left, at, depth + 1)
                if len(l) == 1 and isinstance(l[0], str):
                    return [Sym('repeat', unit=l[0], count=e.right)]
                r = self.ev(e.right, at, depth + 1)
                if len(r) == 1 and isinstance(r[0], str):
                    return [Sym('repeat', unit=r[0], count=e.left)]
            if isinstance(e.op, ast.Mod):
                l = self.ev(e.left, at, depth + 1)
                if all(isinstance(p, str) for p in l):
                    fmt = ''.join(l)
                    if isinstance(e.right, ast.Tuple):
                        ops = [self.ev(x, at, depth + 1) for x in e.right.elts]
                    else:
                        r = self.ev(e.right, at, depth + 1)
                        if len(r) == 1 and isinstance(r[0], Sym) and r[0].kind == 'tuple':
                            ops = [[x] for x in r[0].items]
                        else:
                            ops = [r]
                    pieces = re.split(r'(%[srd])', fmt)
                    out, i = [], 0
                    for p in pieces:
                        if p in ('%s', '%r', '%d'):
                            if i >= len(ops):
                                return [Sym('expr', expr=e)]
                            out.extend(ops[i])
                            i += 1
                        elif p:
                            out.append(p.replace('%%', '%'))
                    if i != len(ops):
                        return [Sym('expr', expr=e)]
                    return out
            return [Sym('expr', expr=e)]
        if isinstance(e, ast.Call):
            f = e.func
            if isinstance(f, ast.Attribute) and f.attr == 'join' and len(e.args) == 1:
                sep = self.ev(f.value, at, depth + 1)
                if all(isinstance(p, str) for p in sep):
                    sep = ''.join(sep)
                    a = e.args[0]
                    if isinstance(a, (ast.List, ast.Tuple)):
                        out = []
                        for i, x in enumerate(a.elts):
                            if i and sep:
                                out.append(sep)
                            out.extend(self.ev(x, at, depth + 1))
                        return out
                    if isinstance(a, (ast.ListComp, ast.GeneratorExp)):
                        return [self._join_comp(sep, a, at, depth)]
                    if isinstance(a, ast.Name):
                        # a local list written as a literal and extended by straight-line ``.append(x)`` statements
                        items = self.list_build(a.id, at)
                        if items is not None:
                            out = []
                            for i, (x, ln) in enumerate(items):
                                if i and sep:
                                    out.append(sep)
                                out.extend(self.ev(x, ln, depth + 1))
                            return out
                    return [Sym('join', sep=sep, elt=None, iter=a, filters=[], base=self.base_of(a, at))]
            if isinstance(f, ast.Attribute) and f.attr == 'format' and not any(isinstance(x, ast.Starred) for x in e.args):
                t = self.ev(f.value, at, depth + 1)
                if all(isinstance(p, str) for p in t):
                    fmt = ''.join(t)
                    kw = dict((k.arg, self.ev(k.value, at, depth + 1)) for k in e.keywords if k.arg)
                    for k in e.keywords:
                        if k.arg is None:
                            # ``**fields`` with fields a dict display / dict(k=v) (possibly a single-assignment local)
                            more = self._str_keyed_dict(k.value, at)
                            if more is None:
                                return [Sym('expr', expr=e)]
                            for name, (v, ln) in more.items():
                                kw.setdefault(name, self.ev(v, ln, depth + 1))
                    pos = [self.ev(x, at, depth + 1) for x in e.args]
                    out = []
                    auto = 0
                    for p in re.split(r'(\{[A-Za-z_0-9]*\})', fmt):
                        name = p[1:-1] if len(p) >= 2 and p[0] == '{' and p[-1] == '}' else None
                        if name is not None and name in kw:
                            out.extend(kw[name])
                        elif name is not None and pos and (name == '' or name.isdigit()):
                            i = auto if name == '' else int(name)
                            if name == '':
                                auto += 1
                            if i >= len(pos):
                                return [Sym('expr', expr=e)]
                            out.extend(pos[i])
                        elif p:
                            out.append(p.replace('{{', '{').replace('}}', '}'))
                    return out
            if isinstance(f, ast.Name):
                if f.id == self.fi.name and f.id in self.mod.functions:
                    return [Sym('rec', call=e)]
                if f.id in self.mod.functions and f.id != self.fi.name:
                    callee = self.mod.functions[f.id]
                    rets = [s for s in stmts_of(callee.node) if isinstance(s, ast.Return)]
                    if len(rets) == 1 and rets[0].value is not None and len(callee.node.body) <= 3:
                        sub = TemplateEval(self.repo, callee)
                        # bind callee params to caller argument *expressions* (by name for base tracking)
                        ps = callee.params()
                        sub.arg_map = dict(zip(ps, e.args))
                        sub.caller = self
                        sub.caller_line = at
                        return sub.ev(rets[0].value, None, depth + 1)
                if f.id in ('str', 'repr') and len(e.args) == 1:
                    return self.ev(e.args[0], at, depth + 1)
            return [Sym('expr', expr=e)]
        if isinstance(e, ast.Subscript):
            # kv[0] / kv[1] of a pair-shaped comprehension variable
            if isinstance(e.value, ast.Name) and e.value.id in self.comp_env and isinstance(self.comp_env[e.value.id], tuple) \
                    and isinstance(e.slice, ast.Constant) and isinstance(e.slice.value, int):
                items = self.comp_env[e.value.id]
                if 0 <= e.slice.value < len(items):
                    return [items[e.slice.value]]
            return [Sym('expr', expr=e)]
        if isinstance(e, ast.JoinedStr):
            out = []
            for v in e.values:
                if isinstance(v, ast.Constant):
                    out.append(v.value)
                elif isinstance(v, ast.FormattedValue):
                    out.extend(self.ev(v.value, at, depth + 1))
            return out
        return [Sym('expr', expr=e)]

    # -- locals built in several statements -----------------------------------------
    def list_build(self, name, at_line=None):
        """[(element expr, line)] of a local list that is bound once to a list display in the function's top-level
        statement sequence and afterwards only changed by top-level ``name.append(x)`` statements (every other use is a
        read) -- the elements in order, as far as line ``at_line``.  None for any other way of building it."""
        body = self.fi.node.body
        defs = [(st, v, idx) for st, v, idx in assigned_value(self.fi.node, name)]
        if len(defs) != 1 or defs[0][2] is not None or not isinstance(defs[0][1], (ast.List, ast.Tuple)) or defs[0][0] not in body \
                or name in self.params or any(isinstance(x, ast.Starred) for x in defs[0][1].elts):
            return None
        items = [(x, defs[0][0].lineno) for x in defs[0][1].elts]
        top_appends = {}
        for st in body:
            if isinstance(st, ast.Expr) and isinstance(st.value, ast.Call) and isinstance(st.value.func, ast.Attribute) and \
                    isinstance(st.value.func.value, ast.Name) and st.value.func.value.id == name and st.value.func.attr == 'append' and \
                    len(st.value.args) == 1 and not st.value.keywords:
                top_appends[id(st.value)] = st
        # any other mutation / escape of the list makes the element sequence unknown
        for n in ast.walk(self.fi.node):
            if isinstance(n, ast.Call) and isinstance(n.func, ast.Attribute) and isinstance(n.func.value, ast.Name) and n.func.value.id == name:
                if id(n) not in top_appends and n.func.attr not in ('index', 'count', 'copy'):
                    return None
            if isinstance(n, (ast.Subscript, ast.Attribute)) and isinstance(n.ctx, (ast.Store, ast.Del)) and isinstance(n.value, ast.Name) and n.value.id == name:
                return None
            if isinstance(n, ast.AugAssign) and isinstance(n.target, ast.Name) and n.target.id == name:
                return None
        for st in body:
            if id(getattr(st, 'value', None)) in top_appends and st.lineno > defs[0][0].lineno and (at_line is None or st.lineno <= at_line):
                items.append((st.value.args[0], st.lineno))
            elif id(getattr(st, 'value', None)) in top_appends and st.lineno <= defs[0][0].lineno:
                return None
        return items

    def _str_keyed_dict(self, d, at_line=None):
        """{key: (value expr, line)} of a dict display / ``dict(k=v, ...)`` with constant string keys, looking through a
        single-assignment local; None otherwise."""
        ln = at_line
        if isinstance(d, ast.Name):
            vals = self.local_def(d.id)
            if len(vals) != 1 or d.id in self.params:
                return None
            for n in ast.walk(self.fi.node):      # the dict must not be changed after it was written
                if isinstance(n, ast.Call) and isinstance(n.func, ast.Attribute) and isinstance(n.func.value, ast.Name) and n.func.value.id == d.id \
                        and n.func.attr not in ('get', 'keys', 'values', 'items', 'copy'):
                    return None
                if isinstance(n, ast.Subscript) and isinstance(n.ctx, (ast.Store, ast.Del)) and isinstance(n.value, ast.Name) and n.value.id == d.id:
                    return None
            ln = vals[0][0].lineno
            d = vals[0][1]
        if isinstance(d, ast.Dict):
            if not all(isinstance(k, ast.Constant) and isinstance(k.value, str) for k in d.keys):
                return None
            return dict((k.value, (v, ln)) for k, v in zip(d.keys, d.values))
        if isinstance(d, ast.Call) and isinstance(d.func, ast.Name) and d.func.id == 'dict' and not d.args and all(k.arg for k in d.keywords):
            return dict((k.arg, (k.value, ln)) for k in d.keywords)
        return None

    # -- iterables ---------------------------------------------------------------
    def base_of(self, it, at_line=None, depth=0):
        """Describe an iterable: ('base', text, expr) after looking through sorted/list/tuple and local aliases;
        for pair-shaped iterables also the element shape."""
        shape = self.shape_of(it, at_line, depth)
        return shape

    def shape_of(self, it, at_line=None, depth=0):
        """-> (base_expr_text, base_expr, elem) where elem is Elem or tuple of Elem."""
        if depth > 12:
            return (norm(it), it, Elem(it, norm(it)))
        if isinstance(it, ast.Call) and isinstance(it.func, ast.Name) and it.func.id in ('sorted', 'list', 'tuple', 'set', 'reversed', 'iter') \
                and it.args:
            return self.shape_of(it.args[0], at_line, depth + 1)
        if isinstance(it, ast.Call) and isinstance(it.func, ast.Attribute) and it.func.attr == 'items' and not it.args:
            inner = it.func.value
            d = inner
            if isinstance(inner, ast.Name):
                r = self.resolve_local(inner.id, at_line)
                if r is not None:
                    d = r[1]
                    at_line = r[0].lineno
            pair = self._dict_pair_shape(d, at_line, depth + 1)
            if pair is not None:
                return pair
            return (norm(it), it, Elem(it, norm(it)))
        if isinstance(it, ast.Name):
            if hasattr(self, 'arg_map') and it.id in self.arg_map:
                return self.caller.shape_of(self.arg_map[it.id], self.caller_line, depth + 1)
            r = self.resolve_local(it.id, at_line)
            if r is not None:
                return self.shape_of(r[1], r[0].lineno, depth + 1)
        return (norm(it), it, Elem(it, norm(it)))

    def _dict_pair_shape(self, d, at_line, depth):
        """dict([(a, a) for a in X]) / {a: a for a in X} / dict(zip(X, X)) -> (base, expr, (Elem k, Elem v))."""
        comp = None
        if isinstance(d, ast.Call) and isinstance(d.func, ast.Name) and d.func.id == 'dict' and len(d.args) == 1 and not d.keywords:
            a = d.args[0]
            if isinstance(a, (ast.ListComp, ast.GeneratorExp)) and isinstance(a.elt, ast.Tuple) and len(a.elt.elts) == 2:
                comp, k, v = a, a.elt.elts[0], a.elt.elts[1]
        if isinstance(d, ast.DictComp):
            comp, k, v = d, d.key, d.value
        if comp is None or len(comp.generators) != 1 or not isinstance(comp.generators[0].target, ast.Name):
            return None
        g = comp.generators[0]
        base_text, base_expr, el = self.shape_of(g.iter, at_line, depth + 1)
        var = g.target.id

        def side(x, idx):
            if isinstance(x, ast.Name) and x.id == var and isinstance(el, Elem):
                return Elem(el.base_expr, el.base_text, None)
            return Elem(x, 'f(%s):%s' % (base_text, norm(x)), idx)
        return (base_text, base_expr, (side(k, 0), side(v, 1)))

    def _join_comp(self, sep, comp, at_line, depth):
        if len(comp.generators) != 1:
            return Sym('expr', expr=comp)
        g = comp.generators[0]
        base_text, base_expr, el = self.shape_of(g.iter, at_line, depth + 1)
        saved = dict(self.comp_env)
        try:
            if isinstance(g.target, ast.Name):
                self.comp_env[g.target.id] = el
            elif isinstance(g.target, ast.Tuple) and isinstance(el, tuple) and len(el) == len(g.target.elts):
                for t, x in zip(g.target.elts, el):
                    if isinstance(t, ast.Name):
                        self.comp_env[t.id] = x
            elt = self.ev(comp.elt, at_line, depth + 1)
            filters = []
            for c in g.ifs:
                filters.append(self._filter_desc(c, at_line, depth))
        finally:
            self.comp_env = saved
        return Sym('join', sep=sep, elt=elt, iter=g.iter, filters=filters, base=(base_text, base_expr, el))

    def _filter_desc(self, c, at_line, depth):
        """Describe a comprehension filter ``<elem part> in <name>`` -> ('in', Elem-or-None, container text, raw)."""
        if isinstance(c, ast.Compare) and len(c.ops) == 1 and isinstance(c.ops[0], (ast.In, ast.NotIn)):
            l = self.ev(c.left, at_line, depth + 1)
            who = l[0] if len(l) == 1 and isinstance(l[0], Elem) else None
            return ('in' if isinstance(c.ops[0], ast.In) else 'notin', who, norm(c.comparators[0]), c)
        return ('other', None, norm(c), c)


# ---- rendering ---------------------------------------------------------------------

class Rendered(object):
    def __init__(self):
        self.text = ''
        self.holes = {}      # placeholder identifier -> Sym / Elem
        self.n = 0

    def ident(self, obj, hint):
        self.n += 1
        name = '__H%d_%s__' % (self.n, re.sub(r'\W', '_', hint)[:24])
        self.holes[name] = obj
        return name


def render(parts, level_param=None, level_value=0):
    """Render a template to concrete text.  ``repeat`` holes whose count mentions the level parameter
    are rendered for level_value; joins are rendered with two representative elements."""
    r = Rendered()
    out = []
    elem_names = {}

    def elem_ident(el, which):
        k = (el.key(), which)
        if k not in elem_names:
            elem_names[k] = r.ident(el, 'E%s_%s' % (which, el.base_text))
        return elem_names[k]

    def emit(parts, which):
        for p in parts:
            if isinstance(p, str):
                out.append(p)
            elif isinstance(p, Elem):
                out.append(elem_ident(p, which))
            elif p.kind == 'param':
                if level_param and p.name == level_param:
                    out.append(str(level_value))
                else:
                    out.append(r.ident(p, 'P_' + p.name))
            elif p.kind == 'const':
                out.append(str(p.value))
            elif p.kind == 'repeat':
                cnt = _count_value(p.count, level_param, level_value)
                if cnt is None:
                    raise AnalysisError('cannot render repeat count %s' % norm(p.count))
                out.append(p.unit * cnt)
            elif p.kind == 'join':
                if p.elt is None:
                    a = r.ident(p, 'J1')
                    b = r.ident(p, 'J2')
                    out.append(a + p.sep + b)
                else:
                    for i in (1, 2):
                        if i > 1:
                            out.append(p.sep)
                        emit(p.elt, '%d_%d' % (id(p) % 1000, i))
                    r.holes['__JOIN%d__' % (id(p) % 100000)] = p
            elif p.kind == 'rec':
                out.append(REC_MARK)
                r.holes[REC_MARK] = p
            elif p.kind == 'tuple':
                raise AnalysisError('tuple value in string position')
            else:
                out.append(r.ident(p, 'X'))
    emit(parts, '0')
    r.text = ''.join(out)
    return r


REC_MARK = '\x00REC\x00'


def _count_value(expr, level_param, level_value):
    """Evaluate ``level`` / ``level + 1`` style counts for a concrete level."""
    if isinstance(expr, ast.Constant) and isinstance(expr.value, int):
        return expr.value
    if isinstance(expr, ast.Name) and expr.id == level_param:
        return level_value
    if isinstance(expr, ast.BinOp) and isinstance(expr.op, (ast.Add, ast.Sub)):
        l = _count_value(expr.left, level_param, level_value)
        r = _count_value(expr.right, level_param, level_value)
        if l is None or r is None:
            return None
        return l + r if isinstance(expr.op, ast.Add) else l - r
    return None


def flatten_syms(parts):
    out = []
    for p in parts:
        if isinstance(p, Sym):
            out.append(p)
            if p.kind == 'join' and p.elt:
                out.extend(flatten_syms(p.elt))
    return out
