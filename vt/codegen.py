"""E6b -- analysis of Python-code templates.

String-building expressions that reach ``compile_code`` are evaluated to a *template*: a list of
literal text parts and symbolic holes (parameters, repeats of an indent unit, joins over an
iterable with an element template, recursive calls).  The template is then rendered with
placeholder identifiers and parsed with ``ast``, so rules inspect the *generated* code's syntax
tree.  The evaluator handles the expression kinds the builders use (literals, ``+``, ``%``,
``*`` by an int, ``str.join``, ``str.format``, calls to helpers of the same module inlined one
level, single-assignment locals); anything else becomes an opaque hole, and an opaque hole in a
position the rules need is reported as ANALYSIS-ERROR by the rule.
"""
import ast
import copy
import re

from .core import AnalysisError, norm
from .astutil import stmts_of, assigned_value


class Sym(object):
    def __init__(self, kind, **kw):
        self.kind = kind
        self.__dict__.update(kw)

    def __repr__(self):
        return '<Sym %s %s>' % (self.kind, dict((k, (norm(v) if isinstance(v, ast.AST) else v))
                                                 for k, v in self.__dict__.items() if k != 'kind'))


class Elem(object):
    """Element variable of an iterable (comprehension variable), identified by its base iterable."""

    def __init__(self, base_expr, base_text, index=None):
        self.base_expr, self.base_text, self.index = base_expr, base_text, index

    def key(self):
        return (self.base_text, self.index)

    def __repr__(self):
        return '<Elem of %s%s>' % (self.base_text, '' if self.index is None else '[%s]' % self.index)


class Coll(object):
    """A symbolic collection: the elements of ``base_expr`` (after looking through sorted/list/set/..., local aliases and
    identity comprehensions) that pass ``filters``.  ``elem`` is the Elem standing for one element (a pair of Elems for
    dict items); ``elt_parts`` is the string template each element was mapped to (None: the element itself)."""

    def __init__(self, base_text, base_expr, elem, filters=None, elt_parts=None, pending=None, order_ops=None):
        self.base_text, self.base_expr, self.elem = base_text, base_expr, elem
        self.filters = list(filters or [])
        self.elt_parts = elt_parts
        self.pending = list(pending or [])     # filter events of a lazy (generator) collection, not yet evaluated
        self.order_ops = list(order_ops or [])  # sorted / set / reversed ... applied on the way: the order is not the base's

    def __repr__(self):
        return '<Coll of %s filters=%r>' % (self.base_text, [f[:3] for f in self.filters])


class Tmpl(object):
    """A string value: list of parts (str | Sym | Elem)."""

    def __init__(self, parts):
        self.parts = list(parts)

    def __repr__(self):
        return '<Tmpl %r>' % (self.parts,)


class Ex(object):
    """A value we only know as an expression over the function's parameters (locals substituted)."""

    def __init__(self, node):
        self.node = node
        self.text = norm(node)

    def __repr__(self):
        return '<Ex %s>' % self.text


class SDict(object):
    def __init__(self, items=None, comp=None):
        self.items = dict(items or {})    # constant key -> value
        self.comp = comp                  # Coll of (key Elem, value Elem) pairs for {k: v for ...}


class SList(object):
    def __init__(self, items, kind='list'):
        self.items, self.kind = list(items), kind


class LoopSeq(object):
    """The strings a depth loop (``for d in range(len(funcs))``) appends to one list: ``items`` is what one iteration
    appends (evaluated for a symbolic iteration, see TemplateEval._depth_loop); the whole list is those items for
    d = 0, 1, ... in order -- or, with ``rev``, the reverse of that."""

    def __init__(self, loop, items, rev=False, origin=None):
        self.loop, self.items, self.rev = loop, list(items), rev
        self.origin = origin if origin is not None else self      # the list of the loop this is a (possibly reversed) copy of


class LoopCat(object):
    def __init__(self, seqs):
        self.seqs = list(seqs)


class _Return(Exception):
    pass


class _Resolver(ast.NodeTransformer):
    def __init__(self, ev):
        self.ev = ev
        self.shadow = set()

    def visit_Name(self, node):
        if isinstance(node.ctx, ast.Load) and node.id not in self.shadow and node.id not in self.ev.comp_env:
            if node.id in self.ev.root.raw_dead and self.ev.fi is self.ev.root.fi:
                raise AnalysisError('%s: parameter %s is read after its default was filled in under another name'
                                    % (self.ev.fi.qualname, node.id))
            v = self.ev.env.get(node.id)
            if isinstance(v, Ex):
                return ast.copy_location(copy.deepcopy(v.node), node)
        return node

    def visit_BinOp(self, node):
        node = self.generic_visit(node)
        if isinstance(node.op, ast.Add):
            for a, b in ((node.left, node.right), (node.right, node.left)):
                if isinstance(b, ast.Constant) and b.value == 0 and isinstance(b.value, int) and not isinstance(b.value, bool):
                    return a
        return node

    def _comp(self, node):
        saved = set(self.shadow)
        for g in node.generators:
            self.shadow |= set(n.id for n in ast.walk(g.target) if isinstance(n, ast.Name))
        node = self.generic_visit(node)
        self.shadow = saved
        return node

    visit_ListComp = visit_SetComp = visit_GeneratorExp = visit_DictComp = _comp

    def visit_Lambda(self, node):
        saved = set(self.shadow)
        self.shadow |= set(a.arg for a in node.args.posonlyargs + node.args.args + node.args.kwonlyargs)
        node = self.generic_visit(node)
        self.shadow = saved
        return node


_WRAPPERS = ('sorted', 'list', 'tuple', 'set', 'frozenset', 'reversed', 'iter')
_REORDER = ('sorted', 'set', 'frozenset', 'reversed')
_FMT_FIELD = re.compile(r'(\{\{|\}\}|\{[^{}]*\})')


class TemplateEval(object):
    """Symbolic execution of a code-generating function.

    The body is executed statement by statement (straight-line code, guard clauses, ``if p is None: p = ...`` defaults);
    strings are evaluated to templates, lists of strings / dict literals / tuples are tracked as such, comprehensions
    over an iterable become symbolic collections with their filters, and every other value is an expression over the
    parameters in which local aliases have been substituted (``cur_func`` -> ``funcs[0]``).  Calls of helper
    functions of the same module are executed the same way (bounded depth); a call of the function itself is a
    ``rec`` hole.  ``events`` lists, in execution order, the scope-set updates (``X.update(Y)``), the evaluations of
    membership filters and the recursive calls: ordering rules are decided on that trace.
    Loops and other control flow are outside the modelled subset (AnalysisError)."""

    WATCH = ('compile_code',)

    def __init__(self, repo, fi, env=None, parent=None):
        self.repo, self.fi, self.mod = repo, fi, fi.mod
        self.parent = parent
        self.root = parent.root if parent is not None else self
        self.depth = parent.depth + 1 if parent is not None else 0
        self.params = set(fi.params())
        self.env = {}
        if env is None:
            for p in fi.params():
                self.env[p] = Ex(ast.Name(id=p, ctx=ast.Load()))
        else:
            self.env.update(env)
        self.comp_env = {}
        self.events = parent.events if parent is not None else []
        self.sinks = parent.sinks if parent is not None else []
        self.guards = []       # (If statement, test) of guard clauses passed on the way
        self.inits = {}        # name -> (If statement, value node) of ``if name is None: name = value``
        self.returns = []      # (Return statement, value) in execution order: guard returns first, the main one last
        self.notes = []
        self._done = False
        self._stop_at = None
        self._loop_guard = None     # during the symbolic iteration of a depth loop: names the body binds / has bound so far
        self.raw_dead = set()       # parameters whose defaulted value lives under another local (see _if): not to be read bare
        self._loop_rec = None

    # -- compat API -----------------------------------------------------------------------------------------
    def ev(self, e, at_line=None, depth=0):
        """Template parts of expression ``e`` of the function body, evaluated where it stands (a fresh symbolic run of
        the statements before the one containing ``e``)."""
        te = TemplateEval(self.repo, self.fi)
        te._stop_at = e
        te.env_at = None
        te.run()
        self.last = te
        if te.env_at is not None:
            return te.env_at
        return te.to_parts(te.eval(e))

    # -- running -----------------------------------------------------------------------------------------------
    def run(self):
        if self._done:
            return self
        self._done = True
        try:
            self.exec_block(self.fi.node.body)
        except _Return:
            pass
        return self

    def main_return(self):
        """(statement, value) of the return reached when no guard clause fires."""
        if not self.returns:
            return None
        return self.returns[-1]

    def exec_block(self, stmts):
        for st in stmts:
            self.exec_stmt(st)

    def _contains_stop(self, st):
        return self._stop_at is not None and any(n is self._stop_at for n in ast.walk(st))

    def exec_stmt(self, st):
        if self._contains_stop(st) and not isinstance(st, (ast.If, ast.With, ast.Try)):
            self.env_at = self.to_parts(self.eval(self._stop_at))
            raise _Return()
        if isinstance(st, ast.Expr):
            v = st.value
            if isinstance(v, ast.Constant):
                return
            if isinstance(v, ast.Call) and isinstance(v.func, ast.Attribute) and self._method_stmt(st, v):
                return
            self.eval(v)
            return
        if isinstance(st, ast.Assign):
            if len(st.targets) == 1 and isinstance(st.targets[0], ast.Name) and self._union_update(st, st.targets[0].id, st.value):
                return
            val = self.eval(st.value)
            for t in st.targets:
                self.bind(t, val)
            return
        if isinstance(st, ast.AnnAssign):
            if st.value is not None:
                self.bind(st.target, self.eval(st.value))
            return
        if isinstance(st, ast.AugAssign):
            if isinstance(st.target, ast.Name) and isinstance(st.op, ast.BitOr) and isinstance(self.env.get(st.target.id), Ex) and \
                    self.env[st.target.id].text == st.target.id:
                self._update_event(st, st.target.id, st.value, 'update')      # s |= t: in place, like s.update(t)
                return
            if isinstance(st.target, ast.Name) and isinstance(st.op, ast.Add):
                cur = self.env.get(st.target.id)
                add = self.eval(st.value)
                if isinstance(cur, SList) and isinstance(add, SList):
                    cur.items.extend(add.items)
                    return
                if isinstance(cur, (Tmpl, Elem)) or isinstance(add, (Tmpl, Elem)):
                    self.env[st.target.id] = Tmpl(self.to_parts(cur) + self.to_parts(add))
                    return
            if isinstance(st.target, ast.Name):
                self.env[st.target.id] = Ex(self.resolve(ast.BinOp(left=ast.Name(id=st.target.id, ctx=ast.Load()), op=st.op, right=st.value)))
            return
        if isinstance(st, ast.Return):
            val = self.eval(st.value) if st.value is not None else Ex(ast.Constant(value=None))
            if isinstance(val, Tmpl) and any(isinstance(p, Sym) and p.kind == 'loop' for p in val.parts):
                val = self._nest(val, st)
            self.returns.append((st, val))
            raise _Return()
        if isinstance(st, ast.Raise):
            raise _Return()
        if isinstance(st, ast.If):
            return self._if(st)
        if isinstance(st, (ast.Pass, ast.Import, ast.ImportFrom, ast.Global, ast.Nonlocal, ast.Assert, ast.Delete)):
            return
        if isinstance(st, (ast.FunctionDef, ast.AsyncFunctionDef, ast.ClassDef)):
            self.env[st.name] = Ex(ast.Name(id=st.name, ctx=ast.Load()))
            return
        if isinstance(st, ast.With):
            for it in st.items:
                if it.optional_vars is not None:
                    self.bind(it.optional_vars, Ex(self.resolve(it.context_expr)))
            return self.exec_block(st.body)
        if isinstance(st, ast.For) and self.parent is None and self._loop_rec is None:
            return self._depth_loop(st)
        if isinstance(st, (ast.For, ast.While, ast.AsyncFor)):
            raise AnalysisError('%s: loop in a code generator (%s) -- symbolic template evaluation follows straight-line '
                                'builders only' % (self.fi.qualname, norm(st)[:60]))
        raise AnalysisError('%s: statement outside the modelled subset of code generators: %s' % (self.fi.qualname, norm(st)[:60]))

    def _depth_loop(self, st):
        """``for d in range(len(funcs)): ...`` / ``for d, func in enumerate(funcs): ...`` in place of the recursion over
        ``funcs[1:]`` (``func`` is ``funcs[d]``; a local ``L = level`` that the body advances by one as its last use of it is
        ``level + d``).

        The loop is executed for one *symbolic* iteration in the frame of the equivalent recursive activation: inside
        the body ``<list param>[d]`` is that activation's ``<list param>[0]`` and ``<level param> + d`` its
        ``<level param>``.  That reading is valid when the index occurs in no other way, the indexed / shifted
        parameters are not used otherwise in the body, no local is carried between iterations (every local the body
        binds is bound before it is read) and the lists the body appends to start out empty.  The lists become
        LoopSeq values; ``''.join(defs + tails[::-1])`` then is, by induction on the number of functions, the nested
        text ``defs(0) + <the same for funcs[1:]> + tails(0)`` (see _nest)."""
        def fail(why):
            return AnalysisError('%s: loop in a code generator (%s) -- %s' % (self.fi.qualname, norm(st)[:50], why))
        if st.orelse:
            raise fail('symbolic template evaluation follows straight-line builders and depth loops only')
        # header: ``for d in range(len(P))`` or ``for d, x in enumerate(P)`` (x is P[d]) over a list parameter P
        it = st.iter
        d = elem_var = seq_expr = None
        if isinstance(st.target, ast.Name):
            ok = isinstance(it, ast.Call) and isinstance(it.func, ast.Name) and it.func.id == 'range' and len(it.args) == 1 and not it.keywords
            ln = it.args[0] if ok else None
            if ok and isinstance(ln, ast.Call) and isinstance(ln.func, ast.Name) and ln.func.id == 'len' and len(ln.args) == 1 and not ln.keywords:
                d, seq_expr = st.target.id, ln.args[0]
        elif isinstance(st.target, (ast.Tuple, ast.List)) and len(st.target.elts) == 2 and all(isinstance(x, ast.Name) for x in st.target.elts) and \
                isinstance(it, ast.Call) and isinstance(it.func, ast.Name) and it.func.id == 'enumerate' and len(it.args) == 1 and not it.keywords \
                and st.target.elts[0].id != st.target.elts[1].id:
            d, elem_var, seq_expr = st.target.elts[0].id, st.target.elts[1].id, it.args[0]
        seqp = norm(self.resolve(seq_expr)) if seq_expr is not None else None
        if d is None or seqp not in self.params or 'range' in self.env or 'len' in self.env or 'enumerate' in self.env:
            raise fail('only "for d in range(len(<list parameter>))" / "for d, x in enumerate(<list parameter>)" can be read as the '
                       'recursion over its tail')
        for s_ in st.body:
            for n in ast.walk(s_):
                if isinstance(n, (ast.Break, ast.Continue, ast.Return, ast.For, ast.While, ast.Try, ast.With, ast.Yield, ast.YieldFrom,
                                  ast.FunctionDef, ast.Lambda, ast.Global, ast.Nonlocal, ast.NamedExpr)):
                    raise fail('the loop body is not straight-line code (%s)' % type(n).__name__)
        par = {}
        for s_ in st.body:
            for p_ in ast.walk(s_):
                for ch in ast.iter_child_nodes(p_):
                    par[ch] = p_
        indexed, shifted = set(), set()
        if elem_var is not None:
            indexed.add(seqp)
        names = [n for s_ in st.body for n in ast.walk(s_) if isinstance(n, ast.Name)]
        # induction locals: ``L = <level parameter>`` before the loop, ``L += 1`` once per iteration (a top-level statement of
        # the body, nothing reads L behind it): inside the body L is ``<level parameter> + d``, i.e. the level of the
        # equivalent recursive activation
        induction, inc_stmts = {}, []
        for i_, s_ in enumerate(st.body):
            L = None
            if isinstance(s_, ast.AugAssign) and isinstance(s_.target, ast.Name) and isinstance(s_.op, ast.Add) and \
                    isinstance(s_.value, ast.Constant) and s_.value.value == 1 and type(s_.value.value) is int:
                L = s_.target.id
            elif isinstance(s_, ast.Assign) and len(s_.targets) == 1 and isinstance(s_.targets[0], ast.Name) and \
                    isinstance(s_.value, ast.BinOp) and isinstance(s_.value.op, ast.Add):
                a_, b_ = s_.value.left, s_.value.right
                for x_, y_ in ((a_, b_), (b_, a_)):
                    if isinstance(x_, ast.Name) and x_.id == s_.targets[0].id and isinstance(y_, ast.Constant) and y_.value == 1 and \
                            type(y_.value) is int:
                        L = s_.targets[0].id
            if L is None:
                continue
            cur = self.env.get(L)
            if not (isinstance(cur, Ex) and isinstance(cur.node, ast.Name) and cur.node.id in self.params):
                continue
            stores = [n for n in names if n.id == L and isinstance(n.ctx, (ast.Store, ast.Del))]
            later = [n for s2 in st.body[i_ + 1:] for n in ast.walk(s2) if isinstance(n, ast.Name) and n.id == L]
            if len(stores) != 1 or later or L in induction or L == d or L == elem_var:
                raise fail('the counter %s is not advanced exactly once, at the end of each iteration' % L)
            induction[L] = cur.node.id
            inc_stmts.append(s_)
        for L, p_ in induction.items():
            if p_ in indexed or list(induction.values()).count(p_) != 1:
                raise fail('parameter %s is counted in more than one way' % p_)
            shifted.add(p_)
        inc_nodes = set(id(n) for s_ in inc_stmts for n in ast.walk(s_))
        for n in names:
            if elem_var is not None and n.id == elem_var and not isinstance(n.ctx, ast.Load):
                raise fail('the loop element is re-bound in the body')
            if n.id != d:
                continue
            p_ = par.get(n)
            if not isinstance(n.ctx, ast.Load):
                raise fail('the loop index is re-bound in the body')
            if isinstance(p_, ast.Subscript) and p_.slice is n and isinstance(p_.value, ast.Name) and p_.value.id in self.params and \
                    isinstance(p_.ctx, ast.Load):
                indexed.add(p_.value.id)
            elif isinstance(p_, ast.BinOp) and isinstance(p_.op, ast.Add) and \
                    isinstance(p_.right if p_.left is n else p_.left, ast.Name) and (p_.right if p_.left is n else p_.left).id in self.params:
                if (p_.right if p_.left is n else p_.left).id in induction.values():
                    raise fail('parameter %s is counted in more than one way' % (p_.right if p_.left is n else p_.left).id)
                shifted.add((p_.right if p_.left is n else p_.left).id)
            else:
                raise fail('the loop index is used other than as <list parameter>[d] or <level parameter> + d')
        if seqp not in indexed or (indexed & shifted):
            raise fail('the loop does not index the list it is bounded by')
        for n in names:
            if n.id in induction or id(n) in inc_nodes:
                continue          # reads of a counter stand for <level parameter> + d (see above)
            if n.id in indexed or n.id in shifted:
                p_ = par.get(n)
                good = (n.id in indexed and isinstance(p_, ast.Subscript) and p_.value is n and isinstance(p_.slice, ast.Name) and p_.slice.id == d) or \
                    (n.id in shifted and isinstance(p_, ast.BinOp) and isinstance(p_.op, ast.Add) and
                     isinstance(p_.right if p_.left is n else p_.left, ast.Name) and (p_.right if p_.left is n else p_.left).id == d)
                if not good or not isinstance(n.ctx, ast.Load):
                    raise fail('parameter %s is used in the body other than through the loop index' % n.id)
        for p_ in indexed | shifted:
            v = self.env.get(p_)
            if not (isinstance(v, Ex) and isinstance(v.node, ast.Name) and v.node.id == p_):
                raise fail('parameter %s is re-bound before the loop' % p_)
        lists = dict((k, v) for k, v in self.env.items() if isinstance(v, SList) and v.kind == 'list')
        stored = set(n.id for n in names if isinstance(n.ctx, (ast.Store, ast.Del))) - set(induction)
        if stored & set(self.params):
            raise fail('the body re-binds a parameter')
        before = dict((k, len(v.items)) for k, v in lists.items())
        self._loop_guard = {'stored': stored, 'assigned': set(), 'lists': set(id(v) for v in lists.values())}
        self.env[d] = Ex(ast.Constant(value=0))
        if elem_var is not None:
            self.env[elem_var] = Ex(ast.Subscript(value=ast.Name(id=seqp, ctx=ast.Load()), slice=ast.Constant(value=0), ctx=ast.Load()))
        try:
            self.exec_block([s_ for s_ in st.body if not any(s_ is x for x in inc_stmts)])
        finally:
            self._loop_guard = None
        self.env[d] = Ex(ast.Name(id='<last %s>' % d, ctx=ast.Load()))
        if elem_var is not None:
            self.env[elem_var] = Ex(ast.Name(id='<last %s>' % elem_var, ctx=ast.Load()))
        for L in induction:
            self.env[L] = Ex(ast.Name(id='<%s after the loop>' % L, ctx=ast.Load()))
        for k_ in stored:
            self.env[k_] = Ex(ast.Name(id='<%s of the last iteration>' % k_, ctx=ast.Load()))
        seq_of = {}         # one LoopSeq per list object: two names of one list keep naming one list
        for k, v in lists.items():
            if self.env.get(k) is not v:
                raise fail('list %s is re-bound in the body' % k)
            if len(v.items) > before[k]:
                if before[k]:
                    raise fail('list %s is not empty when the loop starts' % k)
                if id(v) not in seq_of:
                    seq_of[id(v)] = LoopSeq(st, v.items)
                self.env[k] = seq_of[id(v)]
        ps = self.fi.params()
        argmap = dict((p_, '%s[1:]' % p_ if p_ in indexed else ('%s + 1' % p_ if p_ in shifted else p_)) for p_ in ps)
        self.events.append({'kind': 'rec', 'node': st, 'argmap': argmap, 'owner': self.fi.qualname})
        self._loop_rec = Sym('rec', call=st, argmap=argmap)

    def _nest(self, val, st):
        """``''.join(defs + tails[::-1])`` over the LoopSeqs of one depth loop -> defs(0) + <rec> + reversed(tails(0))."""
        loops = [p for p in val.parts if isinstance(p, Sym) and p.kind == 'loop']
        ok = len(val.parts) == 2 and len(loops) == 2 and not loops[0].seq.rev and loops[1].seq.rev and \
            loops[0].seq.loop is loops[1].seq.loop and self._loop_rec is not None and loops[0].seq.origin is not loops[1].seq.origin
        if not ok:
            raise AnalysisError('%s: the strings built by the depth loop are not assembled as <heads in order> + <tails reversed> '
                                '(the nested form of the recursive generator)' % self.fi.qualname)
        out = []
        for x in loops[0].seq.items:
            out.extend(self.to_parts(x))
        out.append(self._loop_rec)
        for x in reversed(loops[1].seq.items):
            out.extend(self.to_parts(x))
        return Tmpl(out)

    def _terminates(self, stmts):
        return bool(stmts) and isinstance(stmts[-1], (ast.Return, ast.Raise))

    def _if(self, st):
        t = st.test
        # ``if p is None: p = <default>``  (also ``p = <default> if p is None else p``, which the loader spells as if/else)
        def one_assign(block):
            if len(block) == 1 and isinstance(block[0], ast.Assign) and len(block[0].targets) == 1 and isinstance(block[0].targets[0], ast.Name):
                return block[0].targets[0].id, block[0].value
            return None, None
        if isinstance(t, ast.Compare) and len(t.ops) == 1 and isinstance(t.left, ast.Name) and isinstance(t.comparators[0], ast.Constant) \
                and t.comparators[0].value is None and isinstance(t.ops[0], (ast.Is, ast.Eq, ast.IsNot, ast.NotEq)):
            name = t.left.id
            none_branch, other = (st.body, st.orelse) if isinstance(t.ops[0], (ast.Is, ast.Eq)) else (st.orelse, st.body)
            n1, v1 = one_assign(none_branch)
            n2, v2 = one_assign(other) if other else (name, ast.Name(id=name, ctx=ast.Load()))
            if n1 == name and n2 == name and isinstance(v2, ast.Name) and v2.id == name and isinstance(self.env.get(name), Ex) and \
                    self.env[name].text == name:
                self.inits[name] = (st, v1)
                return
            # ``q = p`` .. ``if p is None: q = <default>``: the local q is p with its default filled in.  q keeps standing for
            # p (as in the spelling above, where p itself is re-bound); the bare p -- possibly None -- may not be used any more
            if n1 is not None and n1 != name and not other and n1 not in self.params and isinstance(self.env.get(n1), Ex) and \
                    isinstance(self.env[n1].node, ast.Name) and self.env[n1].node.id == name and isinstance(self.env.get(name), Ex) and \
                    self.env[name].text == name and name in self.params and name not in self.inits:
                self.inits[name] = (st, v1)
                self.root.raw_dead.add(name)
                return
        if self._terminates(st.body) and not self._contains_stop(st):
            # guard clause: the rest of the function is the other path
            sub = TemplateEval(self.repo, self.fi, env=dict(self.env), parent=self)
            sub.events, sub.sinks = [], []
            try:
                sub.exec_block(st.body)
            except _Return:
                pass
            except AnalysisError:
                pass
            self.guards.append((st, t, [r for r in sub.returns]))
            if st.orelse:
                self.exec_block(st.orelse)
            return
        if self._terminates(st.orelse) and not st.body == [] and not self._contains_stop(st):
            sub = TemplateEval(self.repo, self.fi, env=dict(self.env), parent=self)
            sub.events, sub.sinks = [], []
            try:
                sub.exec_block(st.orelse)
            except (_Return, AnalysisError):
                pass
            self.guards.append((st, ast.UnaryOp(op=ast.Not(), operand=t), [r for r in sub.returns]))
            self.exec_block(st.body)
            return
        # a conditional that binds nothing and only makes plain calls (``if verbose: print(code)``)
        stores = set()
        for n in ast.walk(st):
            if isinstance(n, ast.Name) and isinstance(n.ctx, (ast.Store, ast.Del)):
                stores.add(n.id)
        muts = [n for n in ast.walk(st) if isinstance(n, ast.Call) and isinstance(n.func, ast.Attribute) and
                isinstance(n.func.value, ast.Name) and n.func.value.id in self.env]
        if self._contains_stop(st):
            raise AnalysisError('%s: the analysed expression sits inside a conditional (%s)' % (self.fi.qualname, norm(t)[:60]))
        if not stores and not muts:
            return
        raise AnalysisError('%s: conditional construction in a code generator (if %s) is outside the modelled subset'
                            % (self.fi.qualname, norm(t)[:60]))

    def _update_event(self, st, name, arg, kind):
        a = arg
        while isinstance(a, ast.Call) and isinstance(a.func, ast.Name) and a.func.id in ('set', 'frozenset', 'list', 'tuple') and len(a.args) == 1:
            a = a.args[0]
        self.events.append({'kind': kind, 'target': name, 'arg': norm(self.resolve(a)), 'node': st, 'stmt': st, 'owner': self.fi.qualname,
                            'rebinds': isinstance(st, ast.Assign)})

    def _union_update(self, st, name, value):
        """``s = s | t`` / ``s = s.union(t)`` for a set we only know by name: the set gains t (a new object is bound)."""
        cur = self.env.get(name)
        if not (isinstance(cur, Ex) and cur.text == name):
            return False
        if isinstance(value, ast.BinOp) and isinstance(value.op, ast.BitOr):
            for a, b in ((value.left, value.right), (value.right, value.left)):
                if isinstance(a, ast.Name) and a.id == name:
                    self._update_event(st, name, b, 'update')
                    return True
        if isinstance(value, ast.Call) and isinstance(value.func, ast.Attribute) and value.func.attr == 'union' and \
                isinstance(value.func.value, ast.Name) and value.func.value.id == name and len(value.args) == 1 and not value.keywords:
            self._update_event(st, name, value.args[0], 'update')
            return True
        return False

    def _method_stmt(self, st, call):
        """``name.method(...)`` as a statement; True when handled."""
        f = call.func
        if not isinstance(f.value, ast.Name):
            return False
        cur = self.env.get(f.value.id)
        if isinstance(cur, SList):
            g = self.root._loop_guard
            if g is not None and id(cur) in g.get('lists', ()) and f.attr not in ('append', 'extend'):
                # a list that lives across the iterations of a depth loop: one symbolic iteration says what is appended per
                # iteration, not what re-ordering the whole list every time round amounts to
                raise AnalysisError('%s: loop in a code generator: %s.%s() on a list that outlives the iteration'
                                    % (self.root.fi.qualname, f.value.id, f.attr))
            if f.attr == 'append' and len(call.args) == 1:
                cur.items.append(self.eval(call.args[0]))
                return True
            if f.attr == 'extend' and len(call.args) == 1:
                v = self.eval(call.args[0])
                if isinstance(v, SList):
                    cur.items.extend(v.items)
                    return True
                raise AnalysisError('%s: %s.extend(%s) with a value that is not a known list' % (self.fi.qualname, f.value.id, norm(call.args[0])))
            if f.attr == 'insert' and len(call.args) == 2 and isinstance(call.args[0], ast.Constant) and isinstance(call.args[0].value, int):
                cur.items.insert(call.args[0].value, self.eval(call.args[1]))
                return True
            if f.attr == 'reverse' and not call.args:
                cur.items.reverse()
                return True
            raise AnalysisError('%s: list method %s.%s() outside the modelled subset' % (self.fi.qualname, f.value.id, f.attr))
        if isinstance(cur, LoopSeq):
            # a list a depth loop filled: ``tails.reverse()`` (in place: every name of that list sees it) is ``tails[::-1]``;
            # anything else that could change the list after the loop is not followed
            if f.attr == 'reverse' and not call.args and not call.keywords:
                cur.rev = not cur.rev
                return True
            raise AnalysisError('%s: list method %s.%s() on a list built by the depth loop is outside the modelled subset'
                                % (self.fi.qualname, f.value.id, f.attr))
        if isinstance(cur, SDict):
            if f.attr == 'update':
                for a in call.args:
                    v = self.eval(a)
                    if not isinstance(v, SDict) or v.comp is not None:
                        raise AnalysisError('%s: %s.update(%s) with an unknown mapping' % (self.fi.qualname, f.value.id, norm(a)))
                    cur.items.update(v.items)
                for k in call.keywords:
                    if k.arg is None:
                        raise AnalysisError('%s: %s.update(**...)' % (self.fi.qualname, f.value.id))
                    cur.items[k.arg] = self.eval(k.value)
                return True
            if f.attr == 'setdefault' and len(call.args) == 2 and isinstance(call.args[0], ast.Constant):
                cur.items.setdefault(call.args[0].value, self.eval(call.args[1]))
                return True
            raise AnalysisError('%s: dict method %s.%s() outside the modelled subset' % (self.fi.qualname, f.value.id, f.attr))
        if isinstance(cur, Ex) or cur is None:
            if f.attr in ('update', 'add', 'discard', 'remove', 'difference_update', 'intersection_update', 'clear', 'append', 'extend'):
                args = [self.resolve(a) for a in call.args]
                self.events.append({'kind': f.attr, 'target': norm(self.resolve(f.value)), 'arg': norm(args[0]) if args else '',
                                    'node': call, 'stmt': st, 'owner': self.fi.qualname})
                return True
        return False

    def bind(self, target, val):
        if isinstance(target, ast.Name):
            self.env[target.id] = val
            if self._loop_guard is not None:
                self._loop_guard['assigned'].add(target.id)
            return
        if isinstance(target, (ast.Tuple, ast.List)):
            if isinstance(val, SList) and len(val.items) == len(target.elts) and not any(isinstance(t, ast.Starred) for t in target.elts):
                for t, v in zip(target.elts, val.items):
                    self.bind(t, v)
                return
            base = val.node if isinstance(val, Ex) else None
            for i, t in enumerate(target.elts):
                if isinstance(t, ast.Starred):
                    t = t.value
                if base is not None:
                    self.bind(t, Ex(ast.Subscript(value=copy.deepcopy(base), slice=ast.Constant(value=i), ctx=ast.Load())))
                else:
                    self.bind(t, Ex(ast.Name(id='<unpacked %d>' % i, ctx=ast.Load())))
            return
        # attribute / subscript stores do not bind locals
        return

    # -- expressions ---------------------------------------------------------------------------------------------
    def resolve(self, node):
        """Copy of ``node`` with locals that name plain expressions substituted."""
        return ast.fix_missing_locations(_Resolver(self).visit(copy.deepcopy(node)))

    def is_stringy(self, v):
        return isinstance(v, (Tmpl, Elem))

    def to_parts(self, v):
        if isinstance(v, Tmpl):
            return list(v.parts)
        if isinstance(v, Elem):
            return [v]
        if isinstance(v, Ex):
            n = v.node
            if isinstance(n, ast.Constant):
                if isinstance(n.value, str):
                    return [n.value]
                return [Sym('const', value=n.value)]
            if isinstance(n, ast.Name) and n.id in self.root.params:
                return [Sym('param', name=n.id)]
            return [Sym('expr', expr=n)]
        if isinstance(v, SList) and v.kind == 'tuple':
            return [Sym('tuple', items=[self.to_parts(x) for x in v.items])]
        if isinstance(v, tuple):
            return [Sym('tuple', items=[self.to_parts(x) for x in v])]
        if v is None:
            return [Sym('expr', expr=ast.Constant(value=None))]
        return [Sym('expr', expr=ast.Name(id='<%s>' % type(v).__name__, ctx=ast.Load()))]

    def eval(self, e):
        if isinstance(e, ast.Constant):
            if isinstance(e.value, str):
                return Tmpl([e.value])
            return Ex(e)
        if isinstance(e, ast.Name):
            if e.id in self.comp_env:
                return self.comp_env[e.id]
            if e.id in self.root.raw_dead and self.fi is self.root.fi:
                raise AnalysisError('%s: parameter %s is read after its default was filled in under another name'
                                    % (self.fi.qualname, e.id))
            g = self.root._loop_guard
            if g is not None and e.id in g['stored'] and e.id not in g['assigned']:
                raise AnalysisError('%s: loop in a code generator: local %s is carried from one iteration to the next'
                                    % (self.root.fi.qualname, e.id))
            if e.id in self.env:
                return self.env[e.id]
            try:
                val = self.repo.fold(e, self.mod)
                if isinstance(val, str):
                    return Tmpl([val])
            except Exception:
                pass
            return Ex(e)
        if isinstance(e, ast.JoinedStr):
            out = []
            for v in e.values:
                if isinstance(v, ast.Constant):
                    out.append(v.value)
                elif isinstance(v, ast.FormattedValue):
                    if v.format_spec is not None:
                        out.append(Sym('expr', expr=self.resolve(v)))
                    else:
                        out.extend(self.to_parts(self.eval(v.value)))
            return Tmpl(out)
        if isinstance(e, ast.BinOp):
            return self._binop(e)
        if isinstance(e, ast.Call):
            return self._call(e)
        if isinstance(e, ast.Subscript):
            v = self.eval(e.value)
            idx = e.slice
            if isinstance(idx, ast.Constant) and isinstance(idx.value, int):
                if isinstance(v, tuple) and -len(v) <= idx.value < len(v):
                    return v[idx.value]
                if isinstance(v, SList) and -len(v.items) <= idx.value < len(v.items):
                    return v.items[idx.value]
            if isinstance(v, SDict) and isinstance(idx, ast.Constant) and idx.value in v.items:
                return v.items[idx.value]
            if isinstance(v, LoopSeq) and isinstance(idx, ast.Slice) and idx.lower is None and idx.upper is None:
                if idx.step is None:
                    return LoopSeq(v.loop, v.items, v.rev, v.origin)
                if isinstance(idx.step, ast.UnaryOp) and isinstance(idx.step.op, ast.USub) and isinstance(idx.step.operand, ast.Constant) \
                        and idx.step.operand.value == 1:
                    return LoopSeq(v.loop, v.items, not v.rev, v.origin)
            if isinstance(v, SList) and isinstance(idx, ast.Slice) and idx.lower is None and idx.upper is None:
                if idx.step is None:
                    return SList(v.items, v.kind)
                if isinstance(idx.step, ast.UnaryOp) and isinstance(idx.step.op, ast.USub) and isinstance(idx.step.operand, ast.Constant) \
                        and idx.step.operand.value == 1:
                    return SList(list(reversed(v.items)), v.kind)
            return Ex(self.resolve(e))
        if isinstance(e, ast.Tuple):
            return SList([self.eval(x) for x in e.elts], 'tuple')
        if isinstance(e, ast.List):
            if any(isinstance(x, ast.Starred) for x in e.elts):
                return Ex(self.resolve(e))
            return SList([self.eval(x) for x in e.elts], 'list')
        if isinstance(e, ast.Dict):
            if all(isinstance(k, ast.Constant) for k in e.keys):
                return SDict(dict((k.value, self.eval(v)) for k, v in zip(e.keys, e.values)))
            if all(k is None or isinstance(k, ast.Constant) for k in e.keys):
                out = {}
                for k, v in zip(e.keys, e.values):
                    if k is None:
                        sub = self.eval(v)
                        if not isinstance(sub, SDict) or sub.comp is not None:
                            return Ex(self.resolve(e))
                        out.update(sub.items)
                    else:
                        out[k.value] = self.eval(v)
                return SDict(out)
            return Ex(self.resolve(e))
        if isinstance(e, ast.DictComp):
            c = self._comp(e, pair=(e.key, e.value))
            if c is not None:
                return SDict(comp=c)
            return Ex(self.resolve(e))
        if isinstance(e, (ast.ListComp, ast.GeneratorExp, ast.SetComp)):
            c = self._comp(e, lazy=isinstance(e, ast.GeneratorExp))
            if c is not None:
                return c
            return Ex(self.resolve(e))
        if isinstance(e, ast.Starred):
            return self.eval(e.value)
        return Ex(self.resolve(e))

    def _binop(self, e):
        if isinstance(e.op, ast.Add):
            l, r = self.eval(e.left), self.eval(e.right)
            if isinstance(l, SList) and isinstance(r, SList) and l.kind == r.kind:
                return SList(l.items + r.items, l.kind)
            if isinstance(l, (LoopSeq, LoopCat)) and isinstance(r, (LoopSeq, LoopCat)):
                return LoopCat((l.seqs if isinstance(l, LoopCat) else [l]) + (r.seqs if isinstance(r, LoopCat) else [r]))
            if self.is_stringy(l) or self.is_stringy(r):
                return Tmpl(self.to_parts(l) + self.to_parts(r))
            return Ex(self.resolve(e))
        if isinstance(e.op, ast.Mult):
            l, r = self.eval(e.left), self.eval(e.right)
            for a, b, bn in ((l, r, e.right), (r, l, e.left)):
                if isinstance(a, Tmpl) and len(a.parts) == 1 and isinstance(a.parts[0], str) and isinstance(b, Ex):
                    return Tmpl([Sym('repeat', unit=a.parts[0], count=b.node)])
            return Ex(self.resolve(e))
        if isinstance(e.op, ast.Mod):
            l = self.eval(e.left)
            if isinstance(l, Tmpl) and all(isinstance(p, str) for p in l.parts):
                fmt = ''.join(l.parts)
                r = self.eval(e.right)
                if isinstance(r, SList) and r.kind == 'tuple':
                    ops = [self.to_parts(x) for x in r.items]
                elif isinstance(r, tuple):
                    ops = [self.to_parts(x) for x in r]
                elif isinstance(r, SDict):
                    if r.comp is not None:
                        return Tmpl([Sym('expr', expr=self.resolve(e))])
                    out = []
                    for p in re.split(r'(%%|%\([A-Za-z_][A-Za-z_0-9]*\)[srd])', fmt):
                        if p == '%%':
                            out.append('%')
                        elif p.startswith('%(') and p[2:-2] in r.items:
                            out.extend(self.to_parts(r.items[p[2:-2]]))
                        elif '%' in p:
                            return Tmpl([Sym('expr', expr=self.resolve(e))])
                        elif p:
                            out.append(p)
                    return Tmpl(out)
                else:
                    ops = [self.to_parts(r)]
                pieces = re.split(r'(%%|%[srd])', fmt)
                out, i = [], 0
                for p in pieces:
                    if p in ('%s', '%r', '%d'):
                        if i >= len(ops):
                            return Tmpl([Sym('expr', expr=self.resolve(e))])
                        out.extend(ops[i])
                        i += 1
                    elif p == '%%':
                        out.append('%')
                    elif p:
                        if '%' in p:
                            return Tmpl([Sym('expr', expr=self.resolve(e))])
                        out.append(p)
                if i != len(ops):
                    return Tmpl([Sym('expr', expr=self.resolve(e))])
                return Tmpl(out)
            if isinstance(l, Tmpl):
                return Tmpl([Sym('expr', expr=self.resolve(e))])
            return Ex(self.resolve(e))
        return Ex(self.resolve(e))

    # -- collections -------------------------------------------------------------------------------------------------
    def as_coll(self, v, node=None):
        """View a value as a collection to iterate."""
        if isinstance(v, Coll):
            return v
        if isinstance(v, Ex):
            n = v.node
            ops = []
            # look through sorted(...) / list(...) wrappers
            while isinstance(n, ast.Call) and isinstance(n.func, ast.Name) and n.func.id in _WRAPPERS and n.args:
                if n.func.id in _REORDER:
                    ops.append(n.func.id)
                n = n.args[0]
            return Coll(norm(n), n, Elem(n, norm(n)), order_ops=ops)
        if isinstance(v, SDict) and v.comp is not None:
            # iterating a dict yields its keys
            c = v.comp
            return Coll(c.base_text, c.base_expr, c.elem[0] if isinstance(c.elem, tuple) else c.elem, c.filters, None, c.pending,
                        c.order_ops)
        return None

    def flush(self, c):
        """The collection is materialised here: its membership filters are evaluated now."""
        if isinstance(c, Coll) and c.pending:
            self.events.extend(c.pending)
            c.pending = []

    def _comp(self, comp, pair=None, lazy=False):
        if len(comp.generators) != 1 or comp.generators[0].is_async:
            return None
        g = comp.generators[0]
        src = self.as_coll(self.eval(g.iter), g.iter)
        if src is None:
            return None
        if not lazy:
            self.flush(src)
        if src.elt_parts is not None:
            el = Tmpl(src.elt_parts)
        else:
            el = src.elem
        saved = dict(self.comp_env)
        try:
            if isinstance(g.target, ast.Name):
                self.comp_env[g.target.id] = el
            elif isinstance(g.target, (ast.Tuple, ast.List)) and isinstance(el, tuple) and len(el) == len(g.target.elts):
                for t, x in zip(g.target.elts, el):
                    if isinstance(t, ast.Name):
                        self.comp_env[t.id] = x
                    else:
                        return None
            else:
                return None
            filters, events = [], []
            for c in g.ifs:
                fd = self._filter_desc(c)
                filters.append(fd)
                events.append({'kind': 'filter', 'container': fd[2], 'op': fd[0], 'node': c, 'owner': self.fi.qualname})
            if pair is not None:
                k, v = self.eval(pair[0]), self.eval(pair[1])

                def side(x, expr, idx):
                    if isinstance(x, Elem):
                        return x
                    return Elem(expr, 'f(%s):%s' % (src.base_text, norm(expr)), idx)
                elem = (side(k, pair[0], 0), side(v, pair[1], 1))
                elt_parts = None
            else:
                val = self.eval(comp.elt)
                if isinstance(val, Elem) and val is el:
                    elem, elt_parts = src.elem, src.elt_parts
                elif isinstance(val, tuple) and val is el:
                    elem, elt_parts = src.elem, None
                elif self.is_stringy(val):
                    elem, elt_parts = src.elem, self.to_parts(val)
                elif isinstance(val, SList) and val.kind == 'tuple' and len(val.items) == 2 and all(isinstance(x, Elem) for x in val.items):
                    elem, elt_parts = (val.items[0], val.items[1]), None
                else:
                    ex = self.resolve(comp.elt)
                    elem, elt_parts = Elem(ex, 'f(%s):%s' % (src.base_text, norm(ex))), None
        finally:
            self.comp_env = saved
        out = Coll(src.base_text, src.base_expr, elem, src.filters + filters, elt_parts,
                   pending=(src.pending + events) if lazy else [],
                   order_ops=src.order_ops + (['set'] if isinstance(comp, ast.SetComp) else []))
        if not lazy:
            self.events.extend(events)
        return out

    def _filter_desc(self, c):
        """``<elem> in <container>`` -> ('in' | 'notin', Elem or None, container text, node)."""
        if isinstance(c, ast.Compare) and len(c.ops) == 1 and isinstance(c.ops[0], (ast.In, ast.NotIn)):
            l = self.eval(c.left)
            who = l if isinstance(l, Elem) else None
            return ('in' if isinstance(c.ops[0], ast.In) else 'notin', who, norm(self.resolve(c.comparators[0])), c)
        return ('other', None, norm(self.resolve(c)), c)

    # -- calls -----------------------------------------------------------------------------------------------------------
    def _call(self, e):
        f = e.func
        if isinstance(f, ast.Attribute):
            if f.attr == 'join' and len(e.args) == 1 and not e.keywords:
                sep = self.eval(f.value)
                if isinstance(sep, Tmpl) and all(isinstance(p, str) for p in sep.parts):
                    return self._join(''.join(sep.parts), e.args[0], e)
            if f.attr == 'format':
                t = self.eval(f.value)
                if isinstance(t, Tmpl) and all(isinstance(p, str) for p in t.parts):
                    return self._format(''.join(t.parts), e)
                if isinstance(t, Tmpl):
                    return Tmpl([Sym('expr', expr=self.resolve(e))])
            if f.attr == 'items' and not e.args:
                v = self.eval(f.value)
                if isinstance(v, SDict) and v.comp is not None:
                    return v.comp
                if isinstance(v, Ex):
                    n = self.resolve(e)
                    return Coll(norm(n), n, (Elem(n, norm(n), 0), Elem(n, norm(n), 1)))
            if f.attr in ('keys', 'copy') and not e.args:
                v = self.eval(f.value)
                if isinstance(v, SDict):
                    return v if f.attr == 'copy' else (self.as_coll(v) or Ex(self.resolve(e)))
            if f.attr in ('strip', 'rstrip', 'lstrip', 'encode', 'decode', 'lower', 'upper', 'replace') :
                v = self.eval(f.value)
                if self.is_stringy(v):
                    return Tmpl([Sym('expr', expr=self.resolve(e))])
            return Ex(self.resolve(e))
        if isinstance(f, ast.Name):
            if f.id in _WRAPPERS and len(e.args) >= 1:
                v = self.eval(e.args[0])
                if isinstance(v, SDict) and v.comp is not None:
                    v = self.as_coll(v)
                if isinstance(v, Coll):
                    self.flush(v)
                    return Coll(v.base_text, v.base_expr, v.elem, v.filters, v.elt_parts,
                                order_ops=v.order_ops + ([f.id] if f.id in _REORDER else []))
                if isinstance(v, SList) and f.id in ('list', 'tuple'):
                    return SList(v.items, 'list' if f.id == 'list' else 'tuple')
                if isinstance(v, SList) and f.id == 'reversed':
                    return SList(list(reversed(v.items)), v.kind)
                if isinstance(v, LoopSeq) and f.id in ('list', 'tuple', 'iter', 'reversed'):
                    return LoopSeq(v.loop, v.items, (not v.rev) if f.id == 'reversed' else v.rev, v.origin)
                if isinstance(v, Ex):
                    return self.as_coll(Ex(self.resolve(e)))
                return Ex(self.resolve(e))
            if f.id == 'dict':
                if not e.args and all(k.arg is not None for k in e.keywords):
                    return SDict(dict((k.arg, self.eval(k.value)) for k in e.keywords))
                if len(e.args) == 1:
                    base = self.eval(e.args[0])
                    if isinstance(base, SDict) and base.comp is None and all(k.arg is not None for k in e.keywords):
                        out = dict(base.items)
                        out.update((k.arg, self.eval(k.value)) for k in e.keywords)
                        return SDict(out)
                    if isinstance(base, SDict) and not e.keywords:
                        return SDict(base.items, base.comp)
                    if isinstance(base, Coll) and isinstance(base.elem, tuple) and not e.keywords:
                        return SDict(comp=base)
                    # dict(zip(X, X))
                    a = e.args[0]
                    if isinstance(a, ast.Call) and isinstance(a.func, ast.Name) and a.func.id == 'zip' and len(a.args) == 2 and not e.keywords:
                        c1, c2 = self.as_coll(self.eval(a.args[0])), self.as_coll(self.eval(a.args[1]))
                        if c1 is not None and c2 is not None and c1.base_text == c2.base_text and not c1.filters and not c2.filters \
                                and isinstance(c1.elem, Elem) and c1.elt_parts is None and c2.elt_parts is None:
                            return SDict(comp=Coll(c1.base_text, c1.base_expr, (c1.elem, c1.elem)))
                return Ex(self.resolve(e))
            if f.id in ('str', 'repr') and len(e.args) == 1 and not e.keywords:
                v = self.eval(e.args[0])
                if self.is_stringy(v) and f.id == 'str':
                    return v
                return Tmpl(self.to_parts(v)) if isinstance(v, Ex) else Tmpl([Sym('expr', expr=self.resolve(e))])
            if f.id in self.WATCH:
                args = [self.eval(a) for a in e.args]
                kw = dict((k.arg, self.eval(k.value)) for k in e.keywords if k.arg)
                self.sinks.append({'name': f.id, 'node': e, 'args': args, 'kw': kw, 'owner': self.fi.qualname})
                return Ex(self.resolve(e))
            if f.id == self.root.fi.name and self.root.fi.name in self.mod.functions and self.mod is self.root.mod:
                ps = self.root.fi.params()
                argmap = dict(zip(ps, [norm(self.resolve(a)) for a in e.args if not isinstance(a, ast.Starred)]))
                argmap.update((k.arg, norm(self.resolve(k.value))) for k in e.keywords if k.arg)
                self.events.append({'kind': 'rec', 'node': e, 'argmap': argmap, 'owner': self.fi.qualname})
                return Tmpl([Sym('rec', call=e, argmap=argmap)])
            callee = self.mod.functions.get(f.id)
            if callee is None and f.id in self.mod.imports and f.id not in self.env:
                # a helper that lives in another module of the analysed package and is imported under this name
                try:
                    kind_, cmod_, obj_ = self.repo.resolve(self.mod, f.id)
                except Exception:
                    kind_ = None
                if kind_ == 'func' and cmod_ is not None and not cmod_.external:
                    callee = obj_
            if callee is not None and self.depth < 3 and not any(isinstance(a, ast.Starred) for a in e.args) and \
                    not any(k.arg is None for k in e.keywords):
                r = self._exec_callee(callee, e)
                if r is not None:
                    return r
        return Ex(self.resolve(e))

    def _exec_callee(self, callee, call):
        a = callee.node.args
        if a.vararg or a.kwarg or a.posonlyargs:
            return None
        if any(isinstance(n, (ast.Yield, ast.YieldFrom, ast.For, ast.While, ast.Try, ast.FunctionDef, ast.Lambda)) for n in ast.walk(callee.node)
               if n is not callee.node):
            return None
        names = [x.arg for x in a.args]
        env = {}
        if len(call.args) > len(names):
            return None
        for n, v in zip(names, call.args):
            env[n] = self.eval(v)
        kwonly = [x.arg for x in a.kwonlyargs]
        for k in call.keywords:
            if k.arg in env or k.arg not in names + kwonly:
                return None
            env[k.arg] = self.eval(k.value)
        sub = TemplateEval(self.repo, callee, env=env, parent=self)
        defaults = dict(zip(names[len(names) - len(a.defaults):], a.defaults))
        defaults.update((n, d) for n, d in zip(kwonly, a.kw_defaults) if d is not None)
        for n in names + kwonly:
            if n not in env:
                if n not in defaults:
                    return None
                sub.env[n] = sub.eval(defaults[n]) if isinstance(defaults[n], ast.Constant) else Ex(defaults[n])
        ev0, sk0 = len(self.events), len(self.sinks)
        try:
            sub.run()
        except AnalysisError:
            del self.events[ev0:]
            del self.sinks[sk0:]
            return None
        if sub.guards or len(sub.returns) != 1:
            del self.events[ev0:]
            del self.sinks[sk0:]
            return None
        r = sub.returns[0][1]
        if isinstance(r, Ex):
            # a value we could only restate in terms of the helper's internals: keep the call as written
            return None
        return r

    def _join(self, sep, arg, call):
        v = self.eval(arg)
        if isinstance(v, (LoopSeq, LoopCat)):
            if sep != '':
                raise AnalysisError('%s: loop-built strings joined with a separator' % self.fi.qualname)
            # (a snapshot: a later in-place ``.reverse()`` of the list does not change the string joined here)
            return Tmpl([Sym('loop', seq=LoopSeq(q.loop, q.items, q.rev, q.origin)) for q in (v.seqs if isinstance(v, LoopCat) else [v])])
        if isinstance(v, SList):
            out = []
            for i, x in enumerate(v.items):
                if i and sep:
                    out.append(sep)
                out.extend(self.to_parts(x))
            return Tmpl(out)
        c = self.as_coll(v, arg)
        if c is None:
            return Tmpl([Sym('expr', expr=self.resolve(call))])
        self.flush(c)
        return Tmpl([Sym('join', sep=sep, elt=c.elt_parts, iter=c.base_expr, filters=list(c.filters),
                         base=(c.base_text, c.base_expr, c.elem), node=call, order_ops=list(c.order_ops))])

    def _format(self, fmt, call):
        pos = []
        for a in call.args:
            if isinstance(a, ast.Starred):
                v = self.eval(a.value)
                if isinstance(v, SList):
                    pos.extend(self.to_parts(x) for x in v.items)
                    continue
                return Tmpl([Sym('expr', expr=self.resolve(call))])
            pos.append(self.to_parts(self.eval(a)))
        kw = {}
        for k in call.keywords:
            if k.arg is None:
                v = self.eval(k.value)
                if isinstance(v, SDict) and v.comp is None:
                    for kk, vv in v.items.items():
                        kw[kk] = self.to_parts(vv)
                    continue
                return Tmpl([Sym('expr', expr=self.resolve(call))])
            kw[k.arg] = self.to_parts(self.eval(k.value))
        out, auto = [], 0
        for p in _FMT_FIELD.split(fmt):
            if p == '{{':
                out.append('{')
            elif p == '}}':
                out.append('}')
            elif len(p) >= 2 and p[0] == '{' and p[-1] == '}':
                field = p[1:-1]
                name, _, spec = field.partition(':')
                name, _, conv = name.partition('!')
                if spec or '.' in name or '[' in name:
                    out.append(Sym('expr', expr=ast.Constant(value=p)))
                    continue
                if name == '':
                    idx = auto
                    auto += 1
                    val = pos[idx] if idx < len(pos) else None
                elif name.isdigit():
                    val = pos[int(name)] if int(name) < len(pos) else None
                else:
                    val = kw.get(name)
                if val is None:
                    return Tmpl([Sym('expr', expr=self.resolve(call))])
                out.extend(val)
            elif p:
                out.append(p)
        return Tmpl(out)


# ---- rendering ---------------------------------------------------------------------

class Rendered(object):
    def __init__(self):
        self.text = ''
        self.holes = {}      # placeholder identifier -> Sym / Elem
        self.n = 0

    def ident(self, obj, hint):
        self.n += 1
        name = '__H%d_%s__' % (self.n, re.sub(r'\W', '_', hint)[:24])
        self.holes[name] = obj
        return name


def render(parts, level_param=None, level_value=0):
    """Render a template to concrete text.  ``repeat`` holes whose count mentions the level parameter
    are rendered for level_value; joins are rendered with two representative elements."""
    r = Rendered()
    out = []
    elem_names = {}

    def elem_ident(el, which):
        k = (el.key(), which)
        if k not in elem_names:
            elem_names[k] = r.ident(el, 'E%s_%s' % (which, el.base_text))
        return elem_names[k]

    def emit(parts, which):
        for p in parts:
            if isinstance(p, str):
                out.append(p)
            elif isinstance(p, Elem):
                out.append(elem_ident(p, which))
            elif p.kind == 'param':
                if level_param and p.name == level_param:
                    out.append(str(level_value))
                else:
                    out.append(r.ident(p, 'P_' + p.name))
            elif p.kind == 'const':
                out.append(str(p.value))
            elif p.kind == 'repeat':
                cnt = _count_value(p.count, level_param, level_value)
                if cnt is None:
                    raise AnalysisError('cannot render repeat count %s' % norm(p.count))
                out.append(p.unit * cnt)
            elif p.kind == 'join':
                if p.elt is None:
                    a = r.ident(p, 'J1')
                    b = r.ident(p, 'J2')
                    out.append(a + p.sep + b)
                else:
                    for i in (1, 2):
                        if i > 1:
                            out.append(p.sep)
                        emit(p.elt, '%d_%d' % (id(p) % 1000, i))
                    r.holes['__JOIN%d__' % (id(p) % 100000)] = p
            elif p.kind == 'rec':
                out.append(REC_MARK)
                r.holes[REC_MARK] = p
            elif p.kind == 'tuple':
                raise AnalysisError('tuple value in string position')
            else:
                out.append(r.ident(p, 'X'))
    emit(parts, '0')
    r.text = ''.join(out)
    return r


REC_MARK = '\x00REC\x00'


def _count_value(expr, level_param, level_value):
    """Evaluate ``level`` / ``level + 1`` style counts for a concrete level."""
    if isinstance(expr, ast.Constant) and isinstance(expr.value, int):
        return expr.value
    if isinstance(expr, ast.Name) and expr.id == level_param:
        return level_value
    if isinstance(expr, ast.BinOp) and isinstance(expr.op, (ast.Add, ast.Sub)):
        l = _count_value(expr.left, level_param, level_value)
        r = _count_value(expr.right, level_param, level_value)
        if l is None or r is None:
            return None
        return l + r if isinstance(expr.op, ast.Add) else l - r
    return None


def flatten_syms(parts):
    out = []
    for p in parts:
        if isinstance(p, Sym):
            out.append(p)
            if p.kind == 'join' and p.elt:
                out.extend(flatten_syms(p.elt))
    return out
