"""E5b -- layer order of dict construction / merge (later layer wins)."""
import ast

from .core import AnalysisError, norm
from .astutil import stmts_of


class Layer(object):
    def __init__(self, kind, text, node, keys=None, values=None, below=False):
        self.kind, self.text, self.node, self.keys, self.values, self.below = kind, text, node, keys, values, below

    def __repr__(self):
        return '<Layer %s %s>' % (self.kind, self.text if self.keys is None else sorted(self.keys))


def _kw_layer(call):
    keys, values = [], {}
    for k in call.keywords:
        if k.arg is not None:
            keys.append(k.arg)
            values[k.arg] = k.value
    if keys:
        return Layer('literal', '{%s}' % ', '.join(keys), call, keys, values)
    return None


def layers_of_expr(e):
    """Layers contributed by a dict-valued expression, in order."""
    if isinstance(e, ast.Dict):
        out, keys, values = [], [], {}
        for k, v in zip(e.keys, e.values):
            if k is None:
                if keys:
                    out.append(Layer('literal', '{%s}' % ', '.join(keys), e, keys, values))
                    keys, values = [], {}
                out.append(Layer('source', norm(v), v))
            elif isinstance(k, ast.Constant):
                keys.append(k.value)
                values[k.value] = v
            else:
                raise AnalysisError('dict literal with computed key %s' % norm(k))
        if keys or not out:
            out.append(Layer('literal', '{%s}' % ', '.join(map(str, keys)), e, keys, values))
        return out
    if isinstance(e, ast.Call) and isinstance(e.func, ast.Name) and e.func.id == 'dict':
        out = []
        for a in e.args:
            out.append(Layer('source', norm(a), a))
        kl = _kw_layer(e)
        # keyword arguments and ** unpackings apply in source order, after the positional mapping
        for k in e.keywords:
            if k.arg is None:
                out.append(Layer('source', norm(k.value), k.value))
            elif kl is not None:
                out.append(kl)
                kl = None
        return out
    return [Layer('source', norm(e), e)]


def layers_of_var(fnode, var, _depth=0):
    """Ordered layers of the dict held in ``var`` (a Name id or an attribute text like 'self.resources')."""
    out = []
    for st in stmts_of(fnode):
        if isinstance(st, ast.Assign) and any(norm(t) == var for t in st.targets):
            out = layers_of_expr(st.value)
        elif isinstance(st, ast.Expr) and isinstance(st.value, ast.Call) and isinstance(st.value.func, ast.Attribute) \
                and norm(st.value.func.value) == var:
            c = st.value
            if c.func.attr == 'update':
                for a in c.args:
                    out.append(Layer('source', norm(a), a))
                kl = _kw_layer(c)
                if kl:
                    out.append(kl)
                for k in c.keywords:
                    if k.arg is None:
                        out.append(Layer('source', norm(k.value), k.value))
            elif c.func.attr == 'setdefault' and c.args and isinstance(c.args[0], ast.Constant):
                out.insert(0, Layer('literal', '{%s}' % c.args[0].value, c, [c.args[0].value],
                                    {c.args[0].value: c.args[1] if len(c.args) > 1 else None}, below=True))
            elif c.func.attr in ('pop', 'clear', 'popitem'):
                raise AnalysisError('%s.%s() in a layered dict' % (var, c.func.attr))
        elif isinstance(st, ast.Assign) and any(isinstance(t, ast.Subscript) and norm(t.value) == var for t in st.targets):
            for t in st.targets:
                if isinstance(t, ast.Subscript) and norm(t.value) == var:
                    if isinstance(t.slice, ast.Constant):
                        out.append(Layer('literal', '{%s}' % t.slice.value, st, [t.slice.value], {t.slice.value: st.value}))
                    else:
                        out.append(Layer('source', '[%s]' % norm(t.slice), st))
    return _expand_sources(fnode, out, var, _depth)


def layers_of_value(fnode, expr):
    """Ordered layers of a dict-valued *expression* of the function: a name / attribute is looked up (layers_of_var), a
    display or dict(...) call is taken apart where it stands (``f(**{**a, **b})``, ``inject(g, dict(a, **b))``)."""
    if isinstance(expr, (ast.Name, ast.Attribute)):
        return layers_of_var(fnode, norm(expr))
    return _expand_sources(fnode, layers_of_expr(expr), None, 0)


def _expand_sources(fnode, out, var, _depth):
    # a source that is itself a local built once in this function (``builtins = {...}; d = dict(builtins)``) is
    # replaced by that local's own layers; a local that merely names another object (``res = self.resources;
    # d.update(res)``) stands for that object
    if _depth < 3:
        all_stmts = stmts_of(fnode)

        def single_assign(name):
            asg = [st for st in all_stmts if isinstance(st, ast.Assign) and any(norm(t) == name for t in st.targets)]
            other = [st for st in all_stmts if isinstance(st, (ast.AugAssign, ast.For, ast.AnnAssign)) and
                     name in [n.id for n in ast.walk(st.target) if isinstance(n, ast.Name)]]
            unpack = [st for st in all_stmts if isinstance(st, ast.Assign) and any(isinstance(t, (ast.Tuple, ast.List)) and
                      name in [n.id for n in ast.walk(t) if isinstance(n, ast.Name)] for t in st.targets)]
            return asg[0] if len(asg) == 1 and not other and not unpack and len(asg[0].targets) == 1 else None
        expanded = []
        for l in out:
            if l.kind == 'source' and isinstance(l.node, ast.Name) and l.node.id != var:
                node = l.node
                for _ in range(3):
                    a = single_assign(node.id) if isinstance(node, ast.Name) else None
                    if a is not None and _plain_ref(a.value) and norm(a.value) != var:
                        node = a.value
                    else:
                        break
                a = single_assign(node.id) if isinstance(node, ast.Name) else None
                if a is not None and (isinstance(a.value, ast.Dict) or (isinstance(a.value, ast.Call) and norm(a.value.func) == 'dict')):
                    try:
                        expanded.extend(layers_of_var(fnode, node.id, _depth + 1))
                        continue
                    except AnalysisError:
                        pass
                if node is not l.node:
                    expanded.append(Layer('source', norm(node), node))
                    continue
                # a mapping that is never assigned here (a parameter such as **kwargs) but is given defaults / entries
                # in place before it is copied: its in-place layers travel with it
                if isinstance(node, ast.Name) and not any(isinstance(st, ast.Assign) and any(norm(t) == node.id for t in st.targets)
                                                          for st in all_stmts):
                    try:
                        sub = layers_of_var(fnode, node.id, _depth + 1)
                    except AnalysisError:
                        sub = []
                    if sub:
                        expanded.extend([x for x in sub if x.below])
                        expanded.append(l)
                        expanded.extend([x for x in sub if not x.below])
                        continue
            expanded.append(l)
        out = expanded
    return out


def _plain_ref(e):
    """A name or attribute chain (no call, no subscript): evaluating it yields an existing object."""
    while isinstance(e, ast.Attribute):
        e = e.value
    return isinstance(e, ast.Name)


def index_of(layers, pred):
    for i, l in enumerate(layers):
        if pred(l):
            return i
    return None
