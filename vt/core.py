"""Reports, obligations, known findings, evidence files, exit codes."""
import ast
import json
import re
import os
import sys
import time

VERIF_DIR = os.path.dirname(os.path.dirname(os.path.abspath(__file__)))
EVIDENCE_DIR = os.path.join(VERIF_DIR, 'evidence')
KNOWN_FINDINGS = os.path.join(VERIF_DIR, 'known_findings.json')

EXIT_OK, EXIT_VIOLATION, EXIT_ANALYSIS = 0, 1, 2


class AnalysisError(Exception):
    """The analysis cannot be carried out (anchor vanished, construct outside
    the modelled subset, instance floor not reached).  Never a pass, never a
    violation: exit code 2."""


def norm(node):
    """Normalised source text of a node: the key material for findings."""
    if node is None:
        return ''
    if isinstance(node, str):
        return ' '.join(node.split())
    try:
        return ' '.join(ast.unparse(node).split())
    except Exception:  # pragma: no cover
        return repr(node)


def short(node, n=110):
    s = norm(node)
    return s if len(s) <= n else s[:n - 3] + '...'


class Obligation(object):
    __slots__ = ('rule', 'key', 'ok', 'detail', 'where')

    def __init__(self, rule, key, ok, detail, where):
        self.rule, self.key, self.ok, self.detail, self.where = rule, key, ok, detail, where

    def to_json(self):
        return {'rule': self.rule, 'key': self.key, 'discharged': bool(self.ok),
                'detail': self.detail, 'where': self.where}


class Report(object):
    """Collects obligations (rule instances) for one property run."""

    def __init__(self, pid, tier, repo):
        self.pid = pid
        self.tier = tier
        self.repo = repo
        self.obligations = []
        self.assumptions = []
        self.declined = []
        self.decided = []
        self.notes = []
        self.floors = {}
        self.gaps = []
        self.extra = {}
        self.t0 = time.time()
        self.rule_docs = {}

    # -- recording -------------------------------------------------------
    def where(self, mod, node=None):
        path = getattr(mod, 'relpath', None) or str(mod)
        line = getattr(node, 'lineno', None) if node is not None else None
        return '%s:%s' % (path, line) if line else path

    def rule(self, rule, doc):
        self.rule_docs[rule] = doc

    def check(self, rule, key, ok, detail, mod=None, node=None):
        """Record one obligation. ``key`` must not contain line numbers."""
        ob = Obligation(rule, key, bool(ok), detail, self.where(mod, node) if mod is not None else None)
        self.obligations.append(ob)
        return bool(ok)

    def ok(self, rule, key, detail, mod=None, node=None):
        return self.check(rule, key, True, detail, mod, node)

    def fail(self, rule, key, detail, mod=None, node=None):
        return self.check(rule, key, False, detail, mod, node)

    def floor(self, rule, n, what=''):
        """Instance floor: fewer matches than confirmed by hand => analysis broken."""
        got = sum(1 for o in self.obligations if o.rule == rule)
        self.floors[rule] = (n, got)
        if not hasattr(self, '_known'):
            self._known = set((k[1], k[2]) for k in known_set(self.pid))
        if got < n and not any(not o.ok and (o.rule, known_key(o.key)) not in self._known for o in self.obligations):
            # (when the rule already reports a violation, later instances may have been cut short;
            #  the floor only guards against *vacuous passes*)
            raise AnalysisError('rule %s matched %d instance(s), floor is %d %s'
                                % (rule, got, n, what))

    def guard(self, fn, *args, **kw):
        """Run one group of rules; an AnalysisError inside it is recorded as an analysis *gap* and the other
        groups still run.  At the end: violations => exit 1; no violation but a gap => ANALYSIS-ERROR, exit 2."""
        try:
            return fn(*args, **kw)
        except AnalysisError as e:
            self.gaps.append('%s: %s' % (getattr(fn, '__name__', 'rule group'), e))
            return None
        except (KeyboardInterrupt, SystemExit):
            raise
        except Exception as e:      # a rule tripping over a shape it did not expect must not crash the check
            import traceback
            tb = traceback.extract_tb(e.__traceback__)
            loc = '%s:%s' % (os.path.basename(tb[-1].filename), tb[-1].lineno) if tb else '?'
            self.gaps.append('%s: internal error in the rule (%s: %s at %s) -- construct not recognised'
                             % (getattr(fn, '__name__', 'rule group'), type(e).__name__, e, loc))
            return None

    def assume(self, text):
        if text not in self.assumptions:
            self.assumptions.append(text)

    def decline(self, text):
        self.declined.append(text)

    def decide(self, text):
        self.decided.append(text)


def known_key(key):
    """The part of an obligation key that identifies a known finding: the key without its leading module component
    (``clastic.sinter::get_fb::kind positional-only`` -> ``get_fb::kind positional-only``), so that a recorded finding stays
    recognised when its function moves to another module of the package."""
    head, sep, tail = key.partition('::')
    return tail if sep and re.match(r'^[A-Za-z_][A-Za-z0-9_.]*$', head) else key


def known_set(pid=None):
    """{(property, rule, module-free key): entry} of the recorded known findings."""
    out = {}
    for k in load_known().get('known', []):
        if pid is None or k['property'] == pid:
            out[(k['property'], k['rule'], known_key(k['key']))] = k
    return out


def is_known(pid, rule, key, table=None):
    table = known_set() if table is None else table
    return (pid, rule, known_key(key)) in table


def load_known():
    try:
        with open(KNOWN_FINDINGS) as f:
            data = json.load(f)
    except FileNotFoundError:
        return {'known': [], 'fixed': []}
    return data


def finish(rep, seed=0, quiet=False):
    """Print the verdict, write evidence, return the exit code."""
    known_keys = known_set()
    viols, knowns = [], []
    for ob in rep.obligations:
        if ob.ok:
            continue
        kk = (rep.pid, ob.rule, known_key(ob.key))
        if kk in known_keys:
            knowns.append((ob, known_keys[kk]))
        else:
            viols.append(ob)
    wall = time.time() - rep.t0
    # evidence of the registered checks is about /repo; runs against scratch copies (--root) write elsewhere
    evdir = EVIDENCE_DIR
    if os.path.realpath(rep.repo.root) != os.path.realpath(os.environ.get('VT_ROOT', '/repo')) or os.environ.get('VT_EVIDENCE_DIR'):
        import tempfile
        evdir = os.environ.get('VT_EVIDENCE_DIR') or os.path.join(tempfile.gettempdir(), 'vt_evidence_scratch')
    os.makedirs(evdir, exist_ok=True)
    replay = os.path.join(evdir, '%s.violation.json' % rep.pid)
    out = []
    for ob, k in knowns:
        out.append('KNOWN-FINDING: property=%s rule=%s %s -- %s' % (rep.pid, ob.rule, ob.key, k.get('what', ob.detail)))
    for ob in viols:
        out.append('%s: [%s] %s -- %s' % (ob.where or rep.pid, ob.rule, ob.key, ob.detail))
    if viols:
        with open(replay, 'w') as f:
            json.dump({'property': rep.pid, 'root': rep.repo.root,
                       'violations': [o.to_json() for o in viols]}, f, indent=1)
        out.append('VIOLATION property=%s replay=%s' % (rep.pid, replay))
    else:
        try:
            os.unlink(replay)
        except OSError:
            pass
    n_ob = len(rep.obligations)
    n_ok = sum(1 for o in rep.obligations if o.ok)
    distinct = len(set((o.rule, o.key) for o in rep.obligations))
    per_rule = {}
    for o in rep.obligations:
        d = per_rule.setdefault(o.rule, {'instances': 0, 'discharged': 0})
        d['instances'] += 1
        d['discharged'] += 1 if o.ok else 0
    for r, d in per_rule.items():
        if r in rep.rule_docs:
            d['rule'] = rep.rule_docs[r]
        if r in rep.floors:
            d['floor'] = rep.floors[r][0]
    # samples: a few obligations per rule, written out
    samples, seen = [], {}
    for o in rep.obligations:
        c = seen.get(o.rule, 0)
        if c < 3 or not o.ok:
            samples.append(o.to_json())
        seen[o.rule] = c + 1
    mods = rep.repo.analysed()
    explanation = (
        'Static analysis of the working tree at %s (ast/symtable/re._parser; nothing is imported or run). '
        '%d obligations (rule instances) over %d parsed modules; %d discharged, %d reported as known findings, %d violations. '
        'Decided clauses: %s. NOT decided (declined, need runtime values): %s.'
        % (rep.repo.root, n_ob, len(mods), n_ok, len(knowns), len(viols),
           '; '.join(rep.decided) or '-', '; '.join(rep.declined) or '-'))
    ev = {
        'property_id': rep.pid,
        'tier': rep.tier,
        'seed': int(seed),
        'level': 'other',
        'coverage': {
            'explanation': explanation,
            'obligations': n_ob,
            'discharged': n_ok,
            'evaluations': n_ob,
            'distinct_nontrivial': distinct,
            'rule': 'one evaluation = one rule instance (obligation) located by role in the parsed source; '
                    'distinct = distinct (rule id, construct key) pairs; every instance is non-trivial in the '
                    'sense that the rule had to inspect a concrete construct of /repo (floors make vacuous passes impossible)',
            'samples': samples,
            'rules': per_rule,
            'modules_analysed': mods,
            'functions_analysed': sorted(rep.repo.functions_touched),
            'checker_cmd': '/venv/bin/python -m vt check %s --tier %s' % (rep.pid, rep.tier),
            'trusted_base': ['CPython 3.12 ast/symtable/re._parser', 'transfer functions and model tables in /verif/vt',
                             'pinned third-party sources under site-packages mean what their syntax says',
                             'Python scoping and exception semantics'],
            'known_findings_reported': ['%s %s' % (o.rule, o.key) for o, _ in knowns],
            'exhaustive': False,
        },
        'assumptions': rep.assumptions,
        'wall_s': round(wall, 3),
        'violations': len(viols),
    }
    ev['coverage'].update(rep.extra)
    if rep.gaps:
        ev['coverage']['analysis_gaps'] = list(rep.gaps)
    ev['coverage']['normalisation'] = dict((m.relpath, m.inlined_calls) for m in rep.repo._mods.values()
                                           if getattr(m, 'inlined_calls', 0))
    with open(os.path.join(evdir, '%s.json' % rep.pid), 'w') as f:
        json.dump(ev, f, indent=1, sort_keys=True, default=str)
    if not quiet:
        for line in out:
            print(line)
        for g in rep.gaps:
            print('ANALYSIS-ERROR property=%s %s' % (rep.pid, g))
        print('%s %s: %d obligations, %d discharged, %d known, %d violations%s (%.2fs)'
              % (rep.pid, rep.tier, n_ob, n_ok, len(knowns), len(viols),
                 ', %d rule group(s) could not be analysed' % len(rep.gaps) if rep.gaps else '', wall))
    if viols:
        return EXIT_VIOLATION
    return EXIT_ANALYSIS if rep.gaps else EXIT_OK
