"""E3 -- per-function statement CFG with exception edges and path queries.

Nodes are integers.  Every simple statement and every compound-statement header
is one node; each ``if``/``while`` test gets two synthetic *branch nodes*
(test, True) / (test, False) so that "condition c holds at S" is a dominance
question; ``finally`` bodies are copied per way of leaving the ``try`` (normal,
exceptional, return/break/continue), so one AST statement can own several
nodes.  Queries are reachability questions on the graph with a node set removed
(the graphs are tiny):

    must_pass(T, src, dst)  <=>  dst is unreachable from src once T is removed
"""
import ast

from .core import AnalysisError, norm
from .astutil import names_stored

_SIMPLE_SAFE = (ast.Pass, ast.Break, ast.Continue, ast.Global, ast.Nonlocal)


def expr_may_raise(e):
    if e is None:
        return False
    for n in ast.walk(e):
        if isinstance(n, (ast.Call, ast.Subscript, ast.Attribute, ast.BinOp, ast.Await, ast.Yield, ast.YieldFrom,
                          ast.Starred, ast.ListComp, ast.SetComp, ast.DictComp, ast.GeneratorExp, ast.JoinedStr)):
            return True
        if isinstance(n, ast.Compare):
            return True
        if isinstance(n, ast.UnaryOp) and not isinstance(n.op, ast.Not):
            return True
    return False


def stmt_may_raise(st):
    if isinstance(st, _SIMPLE_SAFE):
        return False
    if isinstance(st, (ast.Raise, ast.Assert, ast.Import, ast.ImportFrom, ast.Delete)):
        return True
    if isinstance(st, (ast.FunctionDef, ast.AsyncFunctionDef, ast.ClassDef)):
        return bool(st.decorator_list)
    if isinstance(st, ast.Return):
        return expr_may_raise(st.value)
    if isinstance(st, ast.Assign):
        if expr_may_raise(st.value):
            return True
        return any(not isinstance(t, ast.Name) for t in st.targets)
    if isinstance(st, ast.AugAssign):
        return True
    if isinstance(st, ast.AnnAssign):
        return expr_may_raise(st.value) or not isinstance(st.target, ast.Name)
    if isinstance(st, ast.Expr):
        return expr_may_raise(st.value)
    if isinstance(st, ast.If):
        return expr_may_raise(st.test)
    if isinstance(st, ast.While):
        return expr_may_raise(st.test)
    if isinstance(st, (ast.For, ast.AsyncFor, ast.With, ast.AsyncWith)):
        return True
    return True


class Node(object):
    __slots__ = ('id', 'kind', 'stmt', 'test', 'pol', 'tag', 'handler')

    def __init__(self, id, kind, stmt=None, test=None, pol=None, tag='', handler=None):
        self.id, self.kind, self.stmt, self.test, self.pol, self.tag, self.handler = id, kind, stmt, test, pol, tag, handler

    def __repr__(self):
        if self.kind == 'branch':
            return '<%d %s %s=%s>' % (self.id, self.kind, norm(self.test)[:40], self.pol)
        if self.stmt is not None:
            return '<%d %s L%s %s>' % (self.id, self.kind, getattr(self.stmt, 'lineno', '?'), norm(self.stmt)[:40])
        return '<%d %s>' % (self.id, self.kind)


class _Ctx(object):
    """Build context: where exceptions go, and the frames a jump has to unwind."""

    def __init__(self, exc_target, frames, tag):
        self.exc_target = exc_target
        self.frames = frames      # list of ('loop', header, breaks) / ('finally', finalbody, outer_ctx)
        self.tag = tag

    def with_(self, exc_target=None, push=None, tag=None):
        return _Ctx(self.exc_target if exc_target is None else exc_target,
                    self.frames + [push] if push else list(self.frames),
                    self.tag if tag is None else tag)


class CFG(object):
    def __init__(self, fnode):
        self.fnode = fnode
        self.nodes = []
        self.succ = {}
        self.pred = {}
        self.exc_edges = set()
        self.raise_nodes = set()     # explicit ``raise`` statements: their exceptional edge is definite
        self.entry = self._new('entry')
        self.exit = self._new('exit')
        self.raise_exit = self._new('raise')
        ctx = _Ctx(self.raise_exit, [], '')
        body = fnode.body
        out = self._block(body, [self.entry], ctx)
        for n in out:
            self._edge(n, self.exit)
        self._by_stmt = {}
        for nd in self.nodes:
            if nd.stmt is not None and nd.kind in ('stmt', 'head'):
                self._by_stmt.setdefault(id(nd.stmt), []).append(nd.id)

    # -- construction ------------------------------------------------------
    def _new(self, kind, **kw):
        n = Node(len(self.nodes), kind, **kw)
        self.nodes.append(n)
        self.succ[n.id] = []
        self.pred[n.id] = []
        return n.id

    def _edge(self, a, b):
        if b not in self.succ[a]:
            self.succ[a].append(b)
            self.pred[b].append(a)

    def _link(self, preds, n):
        for p in preds:
            self._edge(p, n)

    def _block(self, stmts, preds, ctx):
        for st in stmts:
            preds = self._stmt(st, preds, ctx)
        return preds

    def _raise_edge(self, n, ctx):
        self._edge(n, ctx.exc_target)
        self.exc_edges.add((n, ctx.exc_target))

    def _unwind(self, preds, ctx, kind):
        """Run the finally-bodies a return/break/continue leaves; returns (preds, loop frame or None)."""
        frames = ctx.frames
        i = len(frames) - 1
        while i >= 0:
            fr = frames[i]
            if fr[0] == 'loop':
                if kind in ('break', 'continue'):
                    return preds, fr
            elif fr[0] == 'finally':
                _, finalbody, outer_ctx, tagbase = fr
                preds = self._block(finalbody, preds, outer_ctx.with_(tag=tagbase + '/' + kind))
            i -= 1
        return preds, None

    def _stmt(self, st, preds, ctx):
        if isinstance(st, ast.If):
            h = self._new('head', stmt=st, tag=ctx.tag)
            self._link(preds, h)
            if stmt_may_raise(st):
                self._raise_edge(h, ctx)
            t = self._new('branch', stmt=st, test=st.test, pol=True, tag=ctx.tag)
            f = self._new('branch', stmt=st, test=st.test, pol=False, tag=ctx.tag)
            cv = _const_truth(st.test)
            if cv is not False:
                self._edge(h, t)
            if cv is not True:
                self._edge(h, f)
            out = self._block(st.body, [t], ctx)
            out = out + self._block(st.orelse, [f], ctx)
            return out
        if isinstance(st, ast.While):
            h = self._new('head', stmt=st, tag=ctx.tag)
            self._link(preds, h)
            if stmt_may_raise(st):
                self._raise_edge(h, ctx)
            t = self._new('branch', stmt=st, test=st.test, pol=True, tag=ctx.tag)
            f = self._new('branch', stmt=st, test=st.test, pol=False, tag=ctx.tag)
            cv = _const_truth(st.test)
            if cv is not False:
                self._edge(h, t)
            if cv is not True:
                self._edge(h, f)
            breaks = []
            body_out = self._block(st.body, [t], ctx.with_(push=('loop', h, breaks)))
            self._link(body_out, h)
            out = self._block(st.orelse, [f], ctx)
            return out + breaks
        if isinstance(st, (ast.For, ast.AsyncFor)):
            h = self._new('head', stmt=st, tag=ctx.tag)
            self._link(preds, h)
            self._raise_edge(h, ctx)
            it = self._new('iter', stmt=st, tag=ctx.tag)     # one more element
            ex = self._new('exhaust', stmt=st, tag=ctx.tag)  # iterator exhausted
            self._edge(h, it)
            self._edge(h, ex)
            breaks = []
            body_out = self._block(st.body, [it], ctx.with_(push=('loop', h, breaks)))
            self._link(body_out, h)
            out = self._block(st.orelse, [ex], ctx)
            return out + breaks
        if isinstance(st, (ast.With, ast.AsyncWith)):
            h = self._new('head', stmt=st, tag=ctx.tag)
            self._link(preds, h)
            self._raise_edge(h, ctx)
            return self._block(st.body, [h], ctx)
        if isinstance(st, ast.Try) or (hasattr(ast, 'TryStar') and isinstance(st, ast.TryStar)):
            return self._try(st, preds, ctx)
        if isinstance(st, ast.Match):
            h = self._new('head', stmt=st, tag=ctx.tag)
            self._link(preds, h)
            self._raise_edge(h, ctx)
            out = [h]
            for c in st.cases:
                out = out + self._block(c.body, [h], ctx)
            return out
        # simple statements
        n = self._new('stmt', stmt=st, tag=ctx.tag)
        self._link(preds, n)
        if isinstance(st, ast.Return):
            if stmt_may_raise(st):
                self._raise_edge(n, ctx)
            ps, _ = self._unwind([n], ctx, 'return')
            self._link(ps, self.exit)
            return []
        if isinstance(st, ast.Raise):
            self._raise_edge(n, ctx)
            self.raise_nodes.add(n)
            return []
        if isinstance(st, (ast.Break, ast.Continue)):
            kind = 'break' if isinstance(st, ast.Break) else 'continue'
            ps, fr = self._unwind([n], ctx, kind)
            if fr is None:
                raise AnalysisError('%s outside loop' % kind)
            if kind == 'break':
                fr[2].extend(ps)
            else:
                self._link(ps, fr[1])
            return []
        if stmt_may_raise(st):
            self._raise_edge(n, ctx)
        return [n]

    def _try(self, st, preds, ctx):
        tagbase = ctx.tag + '/try%d' % st.lineno
        has_finally = bool(st.finalbody)
        outer_exc = ctx.exc_target
        if has_finally:
            # exceptional way through the finally body
            pe = self._new('pending-exc', stmt=st, tag=ctx.tag)
            fin_exc_out = self._block(st.finalbody, [pe], ctx.with_(tag=tagbase + '/exc'))
            for n in fin_exc_out:
                self._edge(n, outer_exc)
            inner_exc = pe
            fin_frame = ('finally', st.finalbody, ctx, tagbase)
            inner_ctx_base = ctx.with_(exc_target=inner_exc, push=fin_frame)
        else:
            inner_exc = outer_exc
            inner_ctx_base = ctx
        disp = self._new('dispatch', stmt=st, tag=ctx.tag)
        body_ctx = inner_ctx_base.with_(exc_target=disp)
        body_out = self._block(st.body, preds, body_ctx)
        catch_all = False
        normal = []
        for h in st.handlers:
            hn = self._new('handler', stmt=st, handler=h, tag=ctx.tag)
            self._edge(disp, hn)
            if h.type is None or norm(h.type) in ('BaseException',):
                catch_all = True
            normal += self._block(h.body, [hn], inner_ctx_base)
        if not catch_all:
            self._edge(disp, inner_exc)
        normal += self._block(st.orelse, body_out, inner_ctx_base) if st.orelse else body_out
        if has_finally:
            normal = self._block(st.finalbody, normal, ctx.with_(tag=tagbase + '/normal'))
        return normal

    # -- queries -----------------------------------------------------------
    def nodes_of(self, stmt):
        return list(self._by_stmt.get(id(stmt), []))

    def nodes_of_all(self, stmts):
        out = []
        for s in stmts:
            out.extend(self.nodes_of(s))
        return out

    def branch_nodes(self, test, pol):
        return [n.id for n in self.nodes if n.kind == 'branch' and n.test is test and n.pol is pol]

    def branches(self):
        """[(node id, test with leading ``not``s stripped, effective polarity)] for every branch node."""
        out = []
        for n in self.nodes:
            if n.kind != 'branch':
                continue
            t, p = n.test, n.pol
            while isinstance(t, ast.UnaryOp) and isinstance(t.op, ast.Not):
                t, p = t.operand, not p
            out.append((n.id, t, p))
        return out

    def handler_nodes(self, handler):
        return [n.id for n in self.nodes if n.kind == 'handler' and n.handler is handler]

    def reach(self, srcs, avoid=(), include_src=True, normal_only=False, exc_from=()):
        """Nodes reachable from srcs without entering ``avoid``.  With include_src=False a source
        is only in the result if it lies on a cycle.  normal_only: do not follow raise edges,
        except those leaving a node of ``exc_from`` (the statements assumed able to raise)."""
        avoid = set(avoid)
        seen = set()
        todo = [s for s in srcs if s not in avoid]
        if include_src:
            seen.update(todo)
        while todo:
            n = todo.pop()
            for m in self.succ[n]:
                if m in avoid or m in seen:
                    continue
                if normal_only and (n, m) in self.exc_edges and n not in exc_from and n not in self.raise_nodes:
                    continue
                seen.add(m)
                todo.append(m)
        return seen

    def coreach(self, dsts, avoid=()):
        avoid = set(avoid)
        seen = set(d for d in dsts if d not in avoid)
        todo = list(seen)
        while todo:
            n = todo.pop()
            for m in self.pred[n]:
                if m in avoid or m in seen:
                    continue
                seen.add(m)
                todo.append(m)
        return seen

    def reachable(self, node):
        return node in self.reach([self.entry])

    def must_pass(self, through, src=None, dst=None, normal_only=False, exc_from=()):
        """Every path src->dst visits a node of ``through`` (vacuously true if dst unreachable)."""
        src = self.entry if src is None else src
        dst = self.exit if dst is None else dst
        srcs = src if isinstance(src, (list, set, tuple)) else [src]
        dsts = dst if isinstance(dst, (list, set, tuple)) else [dst]
        through = set(through)
        r = self.reach([s for s in srcs], avoid=through, normal_only=normal_only, exc_from=exc_from)
        return not any(d in r for d in dsts if d not in through)

    def between(self, a_nodes, b_nodes):
        """Nodes lying on some path from a node of A to a node of B."""
        return self.reach(a_nodes) & self.coreach(b_nodes)

    def _kills(self, test, nodes):
        names = set(n.id for n in ast.walk(test) if isinstance(n, ast.Name))
        for nid in nodes:
            nd = self.nodes[nid]
            if nd.stmt is None or nd.kind not in ('stmt', 'head'):
                continue
            st = nd.stmt
            if nd.kind == 'head':
                if isinstance(st, (ast.For, ast.AsyncFor)):
                    stored = names_stored(st.target)
                elif isinstance(st, (ast.With, ast.AsyncWith)):
                    stored = set()
                    for it in st.items:
                        if it.optional_vars is not None:
                            stored |= names_stored(it.optional_vars)
                else:
                    stored = set()
            else:
                if isinstance(st, (ast.FunctionDef, ast.AsyncFunctionDef, ast.ClassDef)):
                    stored = {st.name}
                else:
                    stored = names_stored(st)
            if stored & names:
                return True
        return False

    def conds_at(self, node, expand=True):
        """[(test_expr, polarity)] that hold whenever control is at ``node``."""
        out = []
        seen = set()
        for nd in self.nodes:
            if nd.kind != 'branch' or id(nd.test) in seen:
                continue
            seen.add(id(nd.test))
            for pol in (True, False):
                b = self.branch_nodes(nd.test, pol)
                nb = self.branch_nodes(nd.test, not pol)
                if node in b:
                    continue
                if not self.must_pass(b, self.entry, node):
                    continue
                # the *last* evaluation before node had this polarity
                if node in self.reach(nb, avoid=b):
                    continue
                # statements between the *last* evaluation of the test and node
                after_b = [m for x in b for m in self.succ[x]]
                mid = (self.reach(after_b, avoid=b) & self.coreach([node], avoid=b)) - {node}
                if self._kills(nd.test, mid):
                    continue
                out.append((nd.test, pol))
        if expand:
            out = expand_conds(out)
            out = self._expand_named(out, node)
        return out

    def _expand_named(self, conds, node, depth=0):
        """A condition on a local that names a boolean expression (``flag = a and not b`` ... ``if flag:``) also
        gives the condition on that expression, provided the local has exactly one assignment, that assignment
        dominates ``node`` and nothing in between re-binds a name the expression reads."""
        if depth > 3:
            return conds
        extra = []
        for t, p in conds:
            if not isinstance(t, ast.Name):
                continue
            asg = [nd for nd in self.nodes if nd.kind == 'stmt' and isinstance(nd.stmt, ast.Assign) and len(nd.stmt.targets) == 1
                   and isinstance(nd.stmt.targets[0], ast.Name) and nd.stmt.targets[0].id == t.id]
            stmts = set(id(nd.stmt) for nd in asg)
            others = [nd for nd in self.nodes if nd.kind in ('stmt', 'head') and nd.stmt is not None and id(nd.stmt) not in stmts
                      and self._kills(t, [nd.id])]
            if others:
                continue
            if len(stmts) != 1:
                extra.extend(self._expand_flag(t, p, node, asg))
                continue
            val = asg[0].stmt.value
            if not isinstance(val, (ast.BoolOp, ast.Compare, ast.UnaryOp, ast.Call, ast.Attribute, ast.Name)):
                continue
            ids = [nd.id for nd in asg]
            if not self.must_pass(ids, self.entry, node):
                continue
            after = [m for x in ids for m in self.succ[x]]
            mid = (self.reach(after, avoid=ids) & self.coreach([node], avoid=ids)) - {node}
            if self._kills(val, mid):
                continue
            extra.append((val, p))
        if not extra:
            return conds
        extra = expand_conds(extra)
        known = set((norm(t), p) for t, p in conds)
        new = [(t, p) for t, p in extra if (norm(t), p) not in known]
        if not new:
            return conds
        return conds + self._expand_named(new, node, depth + 1)

    def _expand_flag(self, t, p, node, asg):
        """A local bound only by ``flag = <constant>`` statements (the shape a predicate with several
        ``return True`` / ``return False`` exits takes once it is inlined, or a hand-written flag).  When
        (flag, p) holds at ``node`` the binding executed last had a constant of truthiness ``p`` and no other
        binding of the flag ran after it.  For such a binding site: what holds at the site still holds at ``node``
        (unless a statement on the way re-binds a name the condition reads), and so does every branch that all
        binding-free paths from the site to ``node`` take.  What is common to all sites that reach ``node`` is
        returned."""
        if getattr(self, '_flag_depth', 0) >= 3:
            return []
        if not asg or not all(isinstance(nd.stmt.value, ast.Constant) for nd in asg):
            return []
        ids = [nd.id for nd in asg]
        common = None
        self._flag_depth = getattr(self, '_flag_depth', 0) + 1
        try:
            for nd in asg:
                if bool(nd.stmt.value.value) is not p:
                    continue
                fwd = self.reach(self.succ[nd.id], avoid=ids)
                if node not in fwd:
                    continue       # overwritten before (or never reaching) node
                mid = (fwd & self.coreach([node], avoid=ids)) - {node}
                here = {}
                for ct, cp in self.conds_at(nd.id):
                    if isinstance(ct, ast.Name) and ct.id == t.id:
                        continue
                    if self._kills(ct, mid):
                        continue
                    here[(norm(ct), cp)] = (ct, cp)
                for ct, cp in expand_conds(self._conds_between(self.succ[nd.id], node, ids)):
                    if not (isinstance(ct, ast.Name) and ct.id == t.id):
                        here[(norm(ct), cp)] = (ct, cp)
                common = here if common is None else dict((k, v) for k, v in common.items() if k in here)
        finally:
            self._flag_depth -= 1
        return list((common or {}).values())

    def _conds_between(self, srcs, node, avoid=()):
        """[(test, polarity)] of the branches every path from ``srcs`` to ``node`` that stays clear of ``avoid`` takes
        (last evaluation before ``node``, nothing in between re-binding a name the test reads)."""
        avoid = set(avoid)
        out = []
        seen = set()
        srcs = [x for x in srcs if x not in avoid]
        for nd in self.nodes:
            if nd.kind != 'branch' or id(nd.test) in seen:
                continue
            seen.add(id(nd.test))
            for pol in (True, False):
                b = self.branch_nodes(nd.test, pol)
                nb = self.branch_nodes(nd.test, not pol)
                if node in b or not b:
                    continue
                if node in self.reach([x for x in srcs if x not in b], avoid=set(b) | avoid) or node in srcs:
                    continue
                if node in self.reach(nb, avoid=set(b) | avoid):
                    continue
                after_b = [m for x in b for m in self.succ[x]]
                mid = (self.reach(after_b, avoid=set(b) | avoid) & self.coreach([node], avoid=set(b) | avoid)) - {node}
                if self._kills(nd.test, mid):
                    continue
                out.append((nd.test, pol))
        return out

    def conds_at_stmt(self, stmt, expand=True):
        """Conditions holding at every node of ``stmt`` (intersection over copies)."""
        res = None
        for n in self.nodes_of(stmt):
            if not self.reachable(n):
                continue
            cs = self.conds_at(n, expand)
            keyed = dict(((norm(t), p), (t, p)) for t, p in cs)
            if res is None:
                res = keyed
            else:
                res = dict((k, v) for k, v in res.items() if k in keyed)
        return list((res or {}).values())


def _const_truth(test):
    if isinstance(test, ast.Constant):
        return bool(test.value)
    return None


def expand_conds(conds):
    """Split conjunctions that are known true / disjunctions known false; strip ``not``."""
    out = []
    todo = list(conds)
    while todo:
        t, p = todo.pop(0)
        if isinstance(t, ast.UnaryOp) and isinstance(t.op, ast.Not):
            todo.append((t.operand, not p))
            continue
        if isinstance(t, ast.BoolOp):
            if isinstance(t.op, ast.And) and p is True:
                todo.extend((v, True) for v in t.values)
                out.append((t, p))
                continue
            if isinstance(t.op, ast.Or) and p is False:
                todo.extend((v, False) for v in t.values)
                out.append((t, p))
                continue
        out.append((t, p))
    return out


def enclosing_tries(mod, node, fnode=None):
    """[(Try, part)] from innermost outwards; part in body/handler/orelse/finalbody."""
    out = []
    cur = node
    while True:
        par = mod.parents.get(cur)
        if par is None or par is fnode or isinstance(par, (ast.FunctionDef, ast.AsyncFunctionDef, ast.Lambda, ast.ClassDef)):
            break
        if isinstance(par, ast.Try):
            part = None
            if cur in par.body:
                part = 'body'
            elif cur in par.orelse:
                part = 'orelse'
            elif cur in par.finalbody:
                part = 'finalbody'
            if part:
                out.append((par, part))
        elif isinstance(par, ast.ExceptHandler):
            gp = mod.parents.get(par)
            out.append((gp, 'handler'))
            cur = gp
            continue
        cur = par
    return out


def protecting_handlers(mod, node, exc, fnode=None):
    """Handlers (innermost first) of enclosing try-bodies that catch builtin exception ``exc``."""
    from .astutil import handler_catches
    out = []
    for tr, part in enclosing_tries(mod, node, fnode):
        if part != 'body':
            continue
        for h in tr.handlers:
            if handler_catches(h, exc):
                out.append(h)
                break
    return out
