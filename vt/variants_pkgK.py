"""Variants for C18 (meta application): shapes the value-flow rule R18.a and the helper-following rules R18.b / R18.c accept
(twins) and must keep rejecting (breaking)."""
from .variants import B, T, S, C, R, A, E, ST, CK, STATS, GZ, CC, PF, RS, FL, META, CE

GRI = '''def get_resource_info(_application):
    ret = []
    for key, val in _application.resources.items():
        if 'secret' in key:
            trunc_val = '[REDACTED]'
        else:
            trunc_val = _trunc(repr(val))
        ret.append({'key': key, 'value': trunc_val})
    return ret
'''

GMI = '''def get_mw_infos(_application):
    # TODO: what to do about render and endpoint provides?
    ret = []
    for mw in _application.middlewares:
        cur = {}
        cur['type_name'] = mw.__class__.__name__
        cur['provides'] = mw.provides
        cur['requires'] = mw.requires
        cur['repr'] = repr(mw)
        ret.append(cur)
    return ret
'''

GRAI = '''    arg_srcs = []
    for arg in r_args:
        arg_src = {'name': arg}
        source = None
        if arg in RESERVED_ARGS:
            source = 'builtin'
        elif arg in route.path_args:
            source = 'url'
        elif arg in route.resources:
            source = 'resources'
        else:
            for mw in route.middlewares:
                if arg in mw.provides:
                    source = 'middleware'
                    break
        if source is None:
            if arg in r_defaults:
                source = 'default'
        arg_src['source'] = source
        arg_srcs.append(arg_src)
    # TODO: trace to application if middleware/resource
    return arg_srcs
'''

GRIS = '''def get_route_infos(_application):
    app = _application
    ret = []
    for r in app.routes:
        if isinstance(r, NullRoute):
            continue
        r_info = {}
        r_info['url_pattern'] = r.pattern
        r_info['url_regex_pattern'] = r.regex.pattern
        r_info['endpoint'] = get_endpoint_info(r)
        r_info['render'] = get_render_info(r)
        r_info['args'] = get_route_arg_info(r)
        ret.append(r_info)
    return ret
'''

GMAIN = '''        for peri in self.peripherals:
            try:
                peri_ctx = inject(peri.get_context, kwargs)
            except Exception as e:
                peri_ctx = {'exc_content': repr(e)}
            full_ctx.setdefault(peri.group_key, {}).update(peri_ctx)
        return full_ctx
'''

# ---- R18.a: the resource listing in other shapes -------------------------------------------------------------------
_COMP_HELPER = '''_MARK = '[REDACTED]'
_FRAG = 'secret'


def _shown_value(key, val):
    if _FRAG in key:
        return _MARK
    return _trunc(repr(val))


def get_resource_info(_application):
    resources = _application.resources
    return [{'key': key, 'value': _shown_value(key, val)}
            for key, val in resources.items()]
'''
T('k18_comp_helper_consts', ['C18'], (META, GRI, _COMP_HELPER))
T('k18_comp_ifexp', ['C18'], (META, GRI, '''def get_resource_info(_application):
    return [{'key': key, 'value': '[REDACTED]' if 'secret' in key else _trunc(repr(val))}
            for key, val in _application.resources.items()]
'''))
T('k18_not_in_swapped', ['C18'], (META, "        if 'secret' in key:\n            trunc_val = '[REDACTED]'\n        else:\n            trunc_val = _trunc(repr(val))",
                                  "        if 'secret' not in key:\n            trunc_val = _trunc(repr(val))\n        else:\n            trunc_val = '[REDACTED]'"))
T('k18_guard_continue', ['C18'], (META, GRI, '''def get_resource_info(_application):
    ret = []
    for key, val in _application.resources.items():
        if 'secret' in key:
            ret.append({'key': key, 'value': '[REDACTED]'})
            continue
        ret.append({'key': key, 'value': _trunc(repr(val))})
    return ret
'''))
T('k18_predicate_helper', ['C18'], (META, GRI, '''def _names_a_secret(name):
    return 'secret' in name


def get_resource_info(_application):
    return [dict(key=key, value='[REDACTED]' if _names_a_secret(key) else _trunc(repr(val)))
            for key, val in _application.resources.items()]
'''))
T('k18_named_condition', ['C18'], (META, "        if 'secret' in key:\n            trunc_val = '[REDACTED]'", "        hidden = 'secret' in key\n        if hidden:\n            trunc_val = '[REDACTED]'"))
T('k18_pair_unpacked_in_body', ['C18'], (META, "    for key, val in _application.resources.items():\n", "    for item in list(_application.resources.items()):\n        key, val = item\n"))
T('k18_public_helper_in_loop', ['C18'], (META, GRI, '''def resource_display_value(key, val):
    if 'secret' in key:
        return '[REDACTED]'
    return _trunc(repr(val))


def get_resource_info(_application):
    ret = []
    for key, val in _application.resources.items():
        shown = resource_display_value(key=key, val=val)
        ret.append({'key': key, 'value': shown})
    return ret
'''))
T('k18_lookup_by_name', ['C18'], (META, GRI, '''def get_resource_info(_application):
    resources = _application.resources
    ret = []
    for key in resources:
        if 'secret' in key:
            ret.append({'key': key, 'value': '[REDACTED]'})
        else:
            ret.append({'key': key, 'value': _trunc(repr(resources[key]))})
    return ret
'''))
B('k18_helper_reprs_before_test', ['C18'], 'R18.a', (META, GRI, _COMP_HELPER.replace(
    "    if _FRAG in key:\n        return _MARK\n    return _trunc(repr(val))", "    shown = _trunc(repr(val))\n    if _FRAG in key:\n        return _MARK\n    return shown")))
B('k18_comp_ifexp_inverted', ['C18'], 'R18.a', (META, GRI, '''def get_resource_info(_application):
    return [{'key': key, 'value': '[REDACTED]' if 'secret' not in key else _trunc(repr(val))}
            for key, val in _application.resources.items()]
'''))
B('k18_fragment_constant_changed', ['C18'], 'R18.a', (META, GRI, _COMP_HELPER.replace("_FRAG = 'secret'", "_FRAG = 'Secret'")))
B('k18_helper_gets_cut_key', ['C18'], 'R18.a', (META, GRI, _COMP_HELPER.replace("_shown_value(key, val)}", "_shown_value(key[:40], val)}")))
B('k18_helper_rebinds_key', ['C18'], 'R18.a', (META, GRI, _COMP_HELPER.replace("    if _FRAG in key:\n", "    key = key[:40]\n    if _FRAG in key:\n")))
B('k18_helper_marker_shows_length', ['C18'], 'R18.a', (META, GRI, _COMP_HELPER.replace("        return _MARK\n", "        return _MARK + str(len(repr(val)))\n")))
B('k18_comp_filter_is_not_a_guard', ['C18'], 'R18.a', (META, GRI, '''def get_resource_info(_application):
    return [{'key': key, 'value': _trunc(repr(val))}
            for key, val in _application.resources.items() if 'secret' in key]
'''))
B('k18_lookup_unguarded', ['C18'], 'R18.a', (META, GRI, '''def get_resource_info(_application):
    resources = _application.resources
    ret = []
    for key in resources:
        shown = _trunc(repr(resources[key]))
        ret.append({'key': key, 'value': '[REDACTED]' if 'secret' in key else shown})
    return ret
'''))
B('k18_values_view_summarised', ['C18'], 'R18.a', (META, "        return {'resources': get_resource_info(_application)}",
                                                   "        return {'resources': get_resource_info(_application),\n                'total_size': sum(len(repr(v)) for v in _application.resources.values())}"))
B('k18_pair_value_by_index', ['C18'], 'R18.a', (META, "    for key, val in _application.resources.items():\n", "    for item in _application.resources.items():\n        key, val = item[0], item[1]\n"))
B('k18_no_marker', ['C18'], 'R18.a', (META, "            trunc_val = '[REDACTED]'\n", "            trunc_val = None\n"))

# ---- R18.a: parameter defaults / context objects through helpers ----------------------------------------------------
_ARGSRC = '''    return [{'name': arg, 'source': _arg_source(arg, route, r_defaults)} for arg in r_args]


def _arg_source(arg, route, defaults):
    if arg in RESERVED_ARGS:
        return 'builtin'
    if arg in route.path_args:
        return 'url'
    if arg in route.resources:
        return 'resources'
    for mw in route.middlewares:
        if arg in mw.provides:
            return 'middleware'
    if arg in defaults:
        return 'default'
    return None
'''
T('k18_arg_source_helper', ['C18'], (META, GRAI, _ARGSRC))
B('k18_arg_default_via_helper', ['C18'], 'R18.a', (META, GRAI, _ARGSRC.replace(
    "'source': _arg_source(arg, route, r_defaults)}", "'source': _arg_source(arg, route, r_defaults), 'default': _arg_default(arg, r_defaults)}") +
    "\n\ndef _arg_default(arg, defaults):\n    return defaults.get(arg)\n"))
_ROUTEROW = '''def _route_row(route):
    return {'url_pattern': route.pattern,
            'url_regex_pattern': route.regex.pattern,
            'endpoint': get_endpoint_info(route),
            'render': get_render_info(route),
            'args': get_route_arg_info(route)}


def get_route_infos(_application):
    return [_route_row(route) for route in _application.routes
            if not isinstance(route, NullRoute)]
'''
T('k18_route_row_helper', ['C18'], (META, GRIS, _ROUTEROW))
B('k18_route_row_keeps_route', ['C18'], 'R18.a', (META, GRIS, _ROUTEROW.replace("    return {'url_pattern': route.pattern,", "    return {'route': route, 'url_pattern': route.pattern,")))
B('k18_route_list_of_objects', ['C18'], 'R18.a', (META, GRIS, _ROUTEROW.replace("    return [_route_row(route) for route in", "    return [route for route in")))

# ---- R18.b: the middleware row built by a helper --------------------------------------------------------------------
_MWROW = '''def _mw_row(mw):
    return {'type_name': mw.__class__.__name__,
            'provides': mw.provides,
            'requires': mw.requires,
            'repr': repr(mw)}


def get_mw_infos(_application):
    return [_mw_row(mw) for mw in _application.middlewares]
'''
T('k18_mw_row_helper', ['C18'], (META, GMI, _MWROW))
T('k18_mw_list_named_first', ['C18'], (META, "    for mw in _application.middlewares:\n        cur = {}", "    mws = _application.middlewares\n    for mw in mws:\n        cur = {}"))
B('k18_mw_row_helper_dumps_vars', ['C18'], 'R18.b', (META, GMI, _MWROW.replace("            'repr': repr(mw)}", "            'repr': repr(mw),\n            'attrs': sorted(vars(mw))}")))
B('k18_mw_row_helper_reads_key', ['C18'], 'R18.b', (META, GMI, _MWROW.replace("            'repr': repr(mw)}", "            'repr': repr(mw),\n            'key': getattr(mw, 'secret_key', None)}")))

# ---- R18.c: the protected peripheral call in a helper ---------------------------------------------------------------
_PCTX = '''        for peri in self.peripherals:
            peri_ctx = self.peripheral_context(peri, kwargs)
            full_ctx.setdefault(peri.group_key, {}).update(peri_ctx)
        return full_ctx

    def peripheral_context(self, peri, injectables):
        try:
            return inject(peri.get_context, injectables)
        except Exception as e:
            return {'exc_content': repr(e)}
'''
T('k18_public_context_helper', ['C18'], (META, GMAIN, _PCTX))
B('k18_context_helper_unprotected', ['C18'], 'R18.c', (META, GMAIN, _PCTX.replace(
    "        try:\n            return inject(peri.get_context, injectables)\n        except Exception as e:\n            return {'exc_content': repr(e)}\n",
    "        return inject(peri.get_context, injectables)\n")))
B('k18_try_around_the_whole_loop', ['C18'], 'R18.c', (META, GMAIN, '''        try:
            for peri in self.peripherals:
                peri_ctx = inject(peri.get_context, kwargs)
                full_ctx.setdefault(peri.group_key, {}).update(peri_ctx)
        except Exception as e:
            full_ctx['exc_content'] = repr(e)
        return full_ctx
'''))
B('k18_route_row_keeps_renamed_route', ['C18'], 'R18.a', (META, GRIS, '''def _route_row(rt):
    return {'handle': rt,
            'url_pattern': rt.pattern,
            'url_regex_pattern': rt.regex.pattern,
            'endpoint': get_endpoint_info(rt),
            'render': get_render_info(rt),
            'args': get_route_arg_info(rt)}


def get_route_infos(_application):
    return [_route_row(bound) for bound in _application.routes
            if not isinstance(bound, NullRoute)]
'''))
B('k18_resources_in_lambda', ['C18'], 'R18.a', (META, "        return {'resources': get_resource_info(_application)}",
                                                "        return {'resources': get_resource_info(_application),\n                'first': glom(None, Call(lambda: repr(sorted(_application.resources.values())[:1])), skip_exc=Exception)}"))

# ---- further shapes of the same listings ----------------------------------------------------------------------------
T('k18_helper_takes_pair', ['C18'], (META, GRI, '''def _resource_row(item):
    name, value = item
    if 'secret' in name:
        return {'key': name, 'value': '[REDACTED]'}
    return {'key': name, 'value': _trunc(repr(value))}


def get_resource_info(_application):
    return [_resource_row(item) for item in _application.resources.items()]
'''))
T('k18_helper_returns_row_ifexp', ['C18'], (META, GRI, '''HIDDEN = '[REDACTED]'


def _resource_row(value, name):
    shown = HIDDEN if 'secret' in name else _trunc(repr(value))
    return dict(key=name, value=shown)


def get_resource_info(_application):
    rows = []
    for name, value in _application.resources.items():
        rows += [_resource_row(name=name, value=value)]
    return rows
'''))
T('k18_helper_ifexp_return', ['C18'], (META, GRI, '''def _shown(name, value):
    return '[REDACTED]' if 'secret' in name else _trunc(repr(value))


def get_resource_info(_application):
    return [{'key': k, 'value': _shown(k, v)} for (k, v) in _application.resources.items()]
'''))
T('k18_lowered_name_temp', ['C18'], (META, "        if 'secret' in key:\n            trunc_val = '[REDACTED]'", "        lowered = key.lower()\n        if 'secret' in lowered:\n            trunc_val = '[REDACTED]'"))
T('k18_peripherals_alias_enumerate', ['C18'], (META, "        for peri in self.peripherals:\n            try:\n                peri_ctx = inject(peri.get_context, kwargs)",
                                               "        peris = self.peripherals\n        for _i, peri in enumerate(peris):\n            try:\n                peri_ctx = inject(peri.get_context, kwargs)"))
T('k18_placeholder_via_dict_call', ['C18'], (META, "                peri_ctx = {'exc_content': repr(e)}", "                peri_ctx = dict(exc_content=repr(e))"))
T('k18_mw_rows_by_map', ['C18'], (META, GMI, _MWROW.replace("    return [_mw_row(mw) for mw in _application.middlewares]", "    return list(map(_mw_row, _application.middlewares))")))
B('k18_mw_rows_by_map_dumps_vars', ['C18'], 'R18.b', (META, GMI, _MWROW.replace("    return [_mw_row(mw) for mw in _application.middlewares]", "    return list(map(_mw_row, _application.middlewares))")
                                                      .replace("            'repr': repr(mw)}", "            'repr': repr(mw),\n            'attrs': repr(mw.__dict__)}")))
B('k18_pair_helper_shows_value', ['C18'], 'R18.a', (META, GRI, '''def _resource_row(item):
    name, value = item
    return {'key': name, 'value': '[REDACTED]' if 'secret' in name else _trunc(repr(value)), 'type': type(value).__name__}


def get_resource_info(_application):
    return [_resource_row(item) for item in _application.resources.items()]
'''))
T('k18_bound_method_named_first', ['C18'], (META, "                peri_ctx = inject(peri.get_context, kwargs)", "                get_ctx = peri.get_context\n                peri_ctx = inject(get_ctx, kwargs)"))
T('k18_render_section_helpers', ['C18'], (META, '''            cur = {'title': peri.title,
                   'group_key': peri.group_key}
            try:
                cur_context = context[peri.group_key]
                kwargs = {'context': cur_context}
                cur['content'] = inject(peri.render_main_page_html, kwargs)

                prev_exc = cur_context.get('exc_content')
                if prev_exc:
                    cur['exc_content'] = prev_exc
            except Exception as e:
                cur['exc_content'] = repr(e)
            try:
                cur_general_items = inject(peri.get_general_items, kwargs)
                cur_general_items = _process_items(cur_general_items)
            except Exception as e:
                cur_general_items = []
            context['sections'].append(cur)
            general_items.extend(cur_general_items)
        return self._main_page_render(context)
''', '''            cur, kwargs = self.render_section(peri, context)
            context['sections'].append(cur)
            general_items.extend(self.section_general_items(peri, kwargs))
        return self._main_page_render(context)

    def render_section(self, peri, context):
        cur = {'title': peri.title,
               'group_key': peri.group_key}
        kwargs = None
        try:
            cur_context = context[peri.group_key]
            kwargs = {'context': cur_context}
            cur['content'] = inject(peri.render_main_page_html, kwargs)
            prev_exc = cur_context.get('exc_content')
            if prev_exc:
                cur['exc_content'] = prev_exc
        except Exception as e:
            cur['exc_content'] = repr(e)
        return cur, kwargs

    def section_general_items(self, peri, kwargs):
        try:
            return _process_items(inject(peri.get_general_items, kwargs))
        except Exception:
            return []
'''))
T('k18_try_around_helper_call', ['C18'], (META, GMAIN, '''        for peri in self.peripherals:
            try:
                peri_ctx = self.call_peripheral(peri, kwargs)
            except Exception as e:
                peri_ctx = {'exc_content': repr(e)}
            full_ctx.setdefault(peri.group_key, {}).update(peri_ctx)
        return full_ctx

    def call_peripheral(self, peri, injectables):
        return inject(peri.get_context, injectables)
'''))
B('k18_helper_loops_inside_try', ['C18'], 'R18.c', (META, GMAIN, '''        full_ctx.update(self.peripheral_contexts(kwargs))
        return full_ctx

    def peripheral_contexts(self, injectables):
        ret = {}
        try:
            for peri in self.peripherals:
                ret.setdefault(peri.group_key, {}).update(inject(peri.get_context, injectables))
        except Exception as e:
            ret['exc_content'] = repr(e)
        return ret
'''))
B('k18_handler_narrowed', ['C18'], 'R18.c', (META, "            except Exception as e:\n                peri_ctx = {'exc_content': repr(e)}", "            except (KeyError, TypeError) as e:\n                peri_ctx = {'exc_content': repr(e)}"))
T('k18_providers_listed_locally', ['C18'], (META, '''            for mw in route.middlewares:
                if arg in mw.provides:
                    source = 'middleware'
                    break
''', '''            providers = [mw for mw in route.middlewares if arg in mw.provides]
            if providers:
                source = 'middleware'
'''))
T('k18_template_named_first', ['C18'], (META, "        self.loaded_template = arf.env.load(self.template_path)", "        path = self.template_path\n        template = arf.env.load(path)\n        self.loaded_template = template"),
  (META, "        self._main_page_render = self._arf('meta_base.html')", "        base_template = 'meta_base.html'\n        self._main_page_render = self._arf(base_template)"),
  (META, "        return self.loaded_template.render(context)", "        template = self.loaded_template\n        return template.render(context)"))
B('k18_template_from_argument', ['C18'], 'R18.d', (META, "    def __init__(self):\n        arf = AshesRenderFactory(_CUR_PATH, keep_whitespace=False)\n        self.loaded_template = arf.env.load(self.template_path)",
                                                   "    def __init__(self, template=None):\n        arf = AshesRenderFactory(_CUR_PATH, keep_whitespace=False)\n        self.loaded_template = arf.env.load(template or 'meta_raw.html')"))
B('k18_other_main_template', ['C18'], 'R18.d', (META, "        self._main_page_render = self._arf('meta_base.html')", "        self._main_page_render = self._arf('meta_proc_section.html')"))
T('k18_two_comprehensions_same_name', ['C18'], (META, GRI, '''def get_resource_info(_application):
    resources = _application.resources
    shown = dict((key, '[REDACTED]' if 'secret' in key else _trunc(repr(resources[key])))
                 for key in resources)
    return [{'key': key, 'value': shown[key]} for key in shown]
'''))
B('k18_lookup_key_rebound_in_loop', ['C18'], 'R18.a', (META, GRI, '''def get_resource_info(_application):
    resources = _application.resources
    ret = []
    for key in resources:
        val = resources[key]
        key = key[:40]
        ret.append({'key': key, 'value': '[REDACTED]' if 'secret' in key else _trunc(repr(val))})
    return ret
'''))
B('k18_exception_indexed_in_handler', ['C18'], 'R18.c', (META, "                peri_ctx = {'exc_content': repr(e)}", "                peri_ctx = {'exc_content': '%s: %s' % (type(e).__name__, e.args[0])}"))
T('k18_generator_rows_named_test', ['C18'], (META, GRI, '''def _iter_rows(resources):
    for name, obj in resources.items():
        is_secret = 'secret' in name
        yield {'key': name,
               'value': '[REDACTED]' if is_secret else _trunc(repr(obj))}


def get_resource_info(_application):
    return list(_iter_rows(_application.resources))
'''))
B('k18_named_test_assigned_after_use', ['C18'], 'R18.a', (META, GRI, '''def get_resource_info(_application):
    ret = []
    is_secret = False
    for name, obj in _application.resources.items():
        ret.append({'key': name, 'value': '[REDACTED]' if is_secret else _trunc(repr(obj))})
        is_secret = 'secret' in name
    return ret
'''))
T('k18_mw_rows_generator_helper', ['C18'], (META, GMI, '''def _iter_mw_rows(middlewares):
    for _i, mw in enumerate(middlewares):
        row = {}
        row['type_name'] = mw.__class__.__name__
        row['provides'], row['requires'] = mw.provides, mw.requires
        row['repr'] = '%r' % (mw,)
        yield row


def get_mw_infos(_application):
    return list(_iter_mw_rows(_application.middlewares))
'''))
B('k18_repr_reads_dynamic_attribute', ['C18'], 'R18.b', (CK, "        return ('%s(arg_name=%r, cookie_name=%r)'\n                % (cn, self.arg_name, self.cookie_name))",
                                                         "        shown = ['%s=%r' % (n, getattr(self, n, None)) for n in ('arg_name', 'cookie_name') + tuple(self.__init__.__code__.co_varnames[1:3])]\n        return '%s(%s)' % (cn, ', '.join(shown))"))

# ---- closures, defaults that are overridden, wrappers, thunks ---------------------------------------------------------
T('k18_nested_closure_helper', ['C18'], (META, GRI, '''def get_resource_info(_application):
    def displayed(key, val):
        hidden = 'secret' in key
        if not hidden:
            return _trunc(repr(val))
        else:
            return '[REDACTED]'

    rows = [(key, displayed(key, val)) for key, val in _application.resources.items()]
    return [dict(zip(('key', 'value'), row)) for row in rows]
'''))
B('k18_nested_closure_reads_value_first', ['C18'], 'R18.a', (META, GRI, '''def get_resource_info(_application):
    ret = []
    for key, val in _application.resources.items():
        def displayed():
            return _trunc(repr(val))
        shown = displayed()
        ret.append({'key': key, 'value': '[REDACTED]' if 'secret' in key else shown})
    return ret
'''))
T('k18_default_then_override', ['C18'], (META, "        if 'secret' in key:\n            trunc_val = '[REDACTED]'\n        else:\n            trunc_val = _trunc(repr(val))",
                                         "        trunc_val = '[REDACTED]'\n        if 'secret' not in key:\n            trunc_val = _trunc(repr(val))"))
B('k18_default_set_before_loop', ['C18'], 'R18.a', (META, "    ret = []\n    for key, val in _application.resources.items():\n        if 'secret' in key:\n            trunc_val = '[REDACTED]'\n        else:\n            trunc_val = _trunc(repr(val))",
                                                    "    ret = []\n    trunc_val = '[REDACTED]'\n    for key, val in _application.resources.items():\n        if 'secret' not in key:\n            trunc_val = _trunc(repr(val))"))
_TWOPASS = '''def get_resource_info(_application):
    resources = _application.resources
    names = list(resources)
    shown = dict.fromkeys(names, '[REDACTED]')
    for name in names:
        if 'secret' not in name:
            shown[name] = _trunc(repr(resources[name]))
    return [{'key': name, 'value': shown[name]} for name in names]
'''
T('k18_two_pass_fromkeys', ['C18'], (META, GRI, _TWOPASS))
B('k18_two_pass_overwrites_all', ['C18'], 'R18.a', (META, GRI, _TWOPASS.replace("        if 'secret' not in name:\n            shown[name] =", "        if name:\n            shown[name] =")))
T('k18_enumerate_sorted_sentinel', ['C18'], (META, GRI, '''def get_resource_info(_application):
    ret = []
    numbered = enumerate(_application.resources.items())
    for _num, (key, val) in sorted(numbered, key=lambda p: p[0]):
        hidden = 'secret' in key
        value = '[REDACTED]' if hidden else None
        if value is None:
            value = _trunc(repr(val))
        ret.append(dict([('key', key), ('value', value)]))
    return ret
'''))
B('k18_sentinel_on_wrong_branch', ['C18'], 'R18.a', (META, GRI, '''def get_resource_info(_application):
    ret = []
    for key, val in _application.resources.items():
        hidden = 'secret' in key
        value = None if hidden else '[REDACTED]'
        if value is None:
            value = _trunc(repr(val))
        ret.append({'key': key, 'value': value})
    return ret
'''))
T('k18_zip_names_with_generator', ['C18'], (META, GRI, '''def get_resource_info(_application):
    resources = _application.resources

    def displayed_values():
        for name in resources:
            if 'secret' in name:
                yield '[REDACTED]'
                continue
            yield _trunc(repr(resources[name]))

    ret = []
    for key, trunc_val in zip(resources, displayed_values()):
        ret.append({'key': key, 'value': trunc_val})
    return ret
'''))
T('k18_method_on_peripheral', ['C18'], (META, "    def get_extra_routes(self):\n        return []\n", '''    def get_extra_routes(self):
        return []

    def safe_get_context(self, injectables):
        try:
            return inject(self.get_context, injectables)
        except Exception as e:
            return {'exc_content': '%r' % (e,)}
'''), (META, GMAIN, '''        for peri in self.peripherals:
            peri_ctx = peri.safe_get_context(kwargs)
            full_ctx.setdefault(peri.group_key, {}).update(peri_ctx)
        return full_ctx
'''))
T('k18_thunk_helper', ['C18'], (META, GMAIN, '''        for peri in self.peripherals:
            ok, outcome = attempt(lambda: inject(peri.get_context, kwargs))
            peri_ctx = outcome if ok else {'exc_content': repr(outcome)}
            full_ctx.setdefault(peri.group_key, {}).update(peri_ctx)
        return full_ctx
'''), (META, "def _trunc(str_val, length=70, trailer='...'):", '''def attempt(thunk):
    try:
        return True, thunk()
    except Exception as e:
        return False, e


def _trunc(str_val, length=70, trailer='...'):'''))
B('k18_thunk_helper_narrow', ['C18'], 'R18.c', (META, GMAIN, '''        for peri in self.peripherals:
            ok, outcome = attempt(lambda: inject(peri.get_context, kwargs))
            peri_ctx = outcome if ok else {'exc_content': repr(outcome)}
            full_ctx.setdefault(peri.group_key, {}).update(peri_ctx)
        return full_ctx
'''), (META, "def _trunc(str_val, length=70, trailer='...'):", '''def attempt(thunk):
    try:
        return True, thunk()
    except LookupError as e:
        return False, e


def _trunc(str_val, length=70, trailer='...'):'''))
T('k18_partial_inject_preset_placeholder', ['C18'], (META, "        for peri in self.peripherals:\n            try:\n                peri_ctx = inject(peri.get_context, kwargs)\n            except Exception as e:\n                peri_ctx = {'exc_content': repr(e)}",
                                                     "        from functools import partial\n        call_injected = partial(inject, injectables=kwargs)\n        for peri in self.peripherals:\n            try:\n                peri_ctx = call_injected(peri.get_context)\n            except Exception as e:\n                peri_ctx = {'exc_content': repr(e)}"),
  (META, "            try:\n                cur_general_items = inject(peri.get_general_items, kwargs)\n                cur_general_items = _process_items(cur_general_items)\n            except Exception as e:\n                cur_general_items = []",
         "            cur_general_items = []\n            try:\n                raw_items = inject(peri.get_general_items, kwargs)\n                processed = _process_items(raw_items)\n            except Exception:\n                pass\n            else:\n                cur_general_items = processed"))
B('k18_handler_passes_without_preset', ['C18'], 'R18.c', (META, "            except Exception as e:\n                peri_ctx = {'exc_content': repr(e)}", "            except Exception as e:\n                pass"))
B('k18_generator_helper_outside_try', ['C18'], 'R18.c', (META, GMAIN, '''        for peri in self.peripherals:
            group_ctx = full_ctx.setdefault(peri.group_key, {})
            try:
                items = self.iter_context_items(peri, kwargs)
            except Exception as e:
                items = [('exc_content', repr(e))]
            group_ctx.update(items)
        return full_ctx

    def iter_context_items(self, peri, injectables):
        peri_ctx = inject(peri.get_context, injectables) or {}
        for key in peri_ctx:
            yield key, peri_ctx[key]
'''))
B('k18_context_function_chosen_per_route', ['C18'], 'R18.c', (META, GMAIN, '''        get_context = self.get_page_context if _route.render_arg == self.render_main_page_html else self.get_data_context
        for peri in self.peripherals:
            full_ctx.setdefault(peri.group_key, {}).update(get_context(peri, kwargs))
        return full_ctx

    def get_page_context(self, peri, injectables):
        try:
            return inject(peri.get_context, injectables)
        except Exception as e:
            return {'exc_content': repr(e)}

    def get_data_context(self, peri, injectables):
        return inject(peri.get_context, injectables)
'''))
B('k18_base_class_repr_dumps_vars', ['C18'], 'R18.b', (C, "class Middleware(object):\n", "class Middleware(object):\n    def __repr__(self):\n        return '%s(%s)' % (self.__class__.__name__, ', '.join('%s=%r' % kv for kv in sorted(vars(self).items())))\n\n"))
B('k18_providers_index_of_objects', ['C18'], 'R18.a', (META, GMI, '''def summarize_stack(stack):
    rows, providers = [], {}
    for depth, layer in enumerate(stack):
        rows.append({'type_name': layer.__class__.__name__, 'provides': layer.provides, 'requires': layer.requires, 'repr': repr(layer)})
        for arg_name in layer.provides:
            providers.setdefault(arg_name, []).append(layer)
    return rows, providers


def get_mw_infos(_application):
    return summarize_stack(_application.middlewares)[0]
'''), (META, "        return {'middlewares': get_mw_infos(_application)}", "        infos, providers = summarize_stack(_application.middlewares)\n        return {'middlewares': infos, 'mw_providers': providers}"))

# ---- big clean-up shapes ------------------------------------------------------------------------------------------------
T('k18_parallel_assignment_of_defaults', ['C18'], (META, "    r_args = fb.args\n    r_defaults = fb.get_defaults_dict()\n", "    r_args, r_defaults = fb.args, fb.get_defaults_dict()\n"))
_OO = '''class ResourcePeripheral(AshesMetaPeripheral):
    title = 'Application Resources'
    group_key = 'app'
    template_path = 'meta_resource_section.html'
    redacted_marker = '[REDACTED]'

    def get_context(self, _application):
        return {'resources': self.describe_resources(_application)}

    @classmethod
    def describe_resources(cls, app):
        return [{'key': key, 'value': cls.display_value(key, val)}
                for key, val in app.resources.items()]

    @classmethod
    def display_value(cls, key, val):
        if cls.is_sensitive(key):
            return cls.redacted_marker
        return _trunc(repr(val))

    @staticmethod
    def is_sensitive(key):
        return 'secret' in key
'''
_RP = '''class ResourcePeripheral(AshesMetaPeripheral):
    title = 'Application Resources'
    group_key = 'app'
    template_path = 'meta_resource_section.html'

    def get_context(self, _application):
        return {'resources': get_resource_info(_application)}
'''
T('k18_listing_in_classmethods', ['C18'], (META, _RP, _OO), (META, GRI, "def get_resource_info(_application):\n    return ResourcePeripheral.describe_resources(_application)\n"))
B('k18_classmethod_marker_is_value_type', ['C18'], 'R18.a', (META, _RP, _OO.replace("            return cls.redacted_marker\n", "            return cls.redacted_marker + ' ' + type(val).__name__\n")),
  (META, GRI, "def get_resource_info(_application):\n    return ResourcePeripheral.describe_resources(_application)\n"))
T('k18_thunk_closure_on_plain_branch', ['C18'], (META, GRI, '''def get_resource_info(_application):
    ret = []

    def add(key, shown):
        ret.append({'key': key, 'value': shown})

    for key, val in _application.resources.items():
        def shown_value():
            return _trunc(repr(val))

        add(key, '[REDACTED]' if 'secret' in key else shown_value())
    return ret
'''))
B('k18_thunk_closure_called_first', ['C18'], 'R18.a', (META, GRI, '''def get_resource_info(_application):
    ret = []
    for key, val in _application.resources.items():
        def shown_value():
            return _trunc(repr(val))

        shown = shown_value()
        ret.append({'key': key, 'value': '[REDACTED]' if 'secret' in key else shown})
    return ret
'''))
T('k18_sources_table_of_lambdas', ['C18'], (META, "def get_route_arg_info(route):\n", '''ARG_SOURCES = (('builtin', lambda route, arg: arg in RESERVED_ARGS),
               ('url', lambda route, arg: arg in route.path_args),
               ('resources', lambda route, arg: arg in route.resources),
               ('middleware', lambda route, arg: any(arg in mw.provides for mw in route.middlewares)))


def get_route_arg_info(route):
'''), (META, '''        if arg in RESERVED_ARGS:
            source = 'builtin'
        elif arg in route.path_args:
            source = 'url'
        elif arg in route.resources:
            source = 'resources'
        else:
            for mw in route.middlewares:
                if arg in mw.provides:
                    source = 'middleware'
                    break
''', '''        for label, applies in ARG_SOURCES:
            if applies(route, arg):
                source = label
                break
'''))
B('k18_sources_table_reads_resource', ['C18'], 'R18.a', (META, "def get_route_arg_info(route):\n", '''ARG_DETAILS = (('resources', lambda route, arg: repr(route.resources.get(arg))),)


def get_route_arg_info(route):
'''))
T('k18_start_time_key_constant', ['C18'], (META, "        start_time = _meta_application.resources['_meta_start_time']", "        start_time = _meta_application.resources[START_TIME_KEY]"),
  (META, "DEFAULT_PAGE_TITLE = 'Clastic'\n", "DEFAULT_PAGE_TITLE = 'Clastic'\nSTART_TIME_KEY = '_meta_start_time'\n"),
  (META, "        resources = {'_meta_start_time': datetime.datetime.utcnow(),", "        resources = {START_TIME_KEY: datetime.datetime.utcnow(),"))
T('k18_row_filled_by_update', ['C18'], (META, GRI, '''def get_resource_info(_application):
    ret = list()
    for key, val in _application.resources.items():
        cur = dict(key=key)
        if 'secret' in key:
            cur.update(value='[REDACTED]')
        else:
            cur.update(value=_trunc(str_val=repr(val)))
        ret.append(cur)
    return ret
'''))
T('k18_mw_listing_in_classmethod', ['C18'], (META, GMI, '''def get_mw_infos(_application):
    return MiddlewarePeripheral.describe_middlewares(_application)
'''), (META, "    def get_context(self, _application):\n        return {'middlewares': get_mw_infos(_application)}\n", '''    def get_context(self, _application):
        return {'middlewares': get_mw_infos(_application)}

    @classmethod
    def describe_middlewares(cls, app):
        return [cls.describe_middleware(mw) for mw in app.middlewares]

    @staticmethod
    def describe_middleware(mw):
        return dict(type_name=type(mw).__name__, provides=mw.provides, requires=mw.requires, repr=repr(mw))
'''))
T('k18_main_template_class_constant', ['C18'], (META, "        self._main_page_render = self._arf('meta_base.html')", "        self._main_page_render = self._arf(self.main_template_name)"),
  (META, "class MetaApplication(Application):\n", "class MetaApplication(Application):\n    main_template_name = 'meta_base.html'\n\n"))


# ---- fourth pass -------------------------------------------------------------------------------------------------------
# R18.a: the defaults mapping handed to a small class (constructor argument -> field -> read in the methods)
GRAI_FULL = '''def get_route_arg_info(route):
    fb = get_fb(route.endpoint)
    r_args = fb.args
    r_defaults = fb.get_defaults_dict()
''' + GRAI

_SRC_CLASS = '''class _SourceOf(object):
    LOOKUPS = (('builtin', 'in_builtins'), ('url', 'in_path'), ('resources', 'in_resources'),
               ('middleware', 'in_middlewares'), ('default', 'in_defaults'))

    def __init__(self, route, defaults):
        self.route = route
        self.known_defaults = defaults

    def in_builtins(self, arg):
        return arg in RESERVED_ARGS

    def in_path(self, arg):
        return arg in self.route.path_args

    def in_resources(self, arg):
        return arg in self.route.resources

    def in_middlewares(self, arg):
        return any(arg in mw.provides for mw in self.route.middlewares)

    def in_defaults(self, arg):
        return arg in self.known_defaults

    def __call__(self, arg):
        for label, meth in self.LOOKUPS:
            if getattr(self, meth)(arg):
                return label
        return None

    def row(self, arg):
        return {'name': arg, 'source': self(arg)}


def get_route_arg_info(route):
    fb = get_fb(route.endpoint)
    source_of = _SourceOf(route, defaults=fb.get_defaults_dict())
    return [source_of.row(arg) for arg in fb.args]
'''
T('k18_defaults_in_object_field', ['C18'], (META, GRAI_FULL, _SRC_CLASS))
T('k18_defaults_in_object_field_copy', ['C18'], (META, GRAI_FULL, _SRC_CLASS.replace('self.known_defaults = defaults', 'self.known_defaults = dict(defaults or {})')))
B('k18_object_field_value_read', ['C18'], 'R18.a', (META, GRAI_FULL, _SRC_CLASS.replace(
    "        return {'name': arg, 'source': self(arg)}", "        return {'name': arg, 'source': self(arg), 'default': self.known_defaults.get(arg)}")))
B('k18_object_field_read_outside', ['C18'], 'R18.a', (META, GRAI_FULL, _SRC_CLASS.replace(
    "    return [source_of.row(arg) for arg in fb.args]", "    return [dict(source_of.row(arg), defaults=source_of.known_defaults) for arg in fb.args]")))
B('k18_object_with_defaults_escapes', ['C18'], 'R18.a', (META, GRAI_FULL, _SRC_CLASS.replace(
    "    return [source_of.row(arg) for arg in fb.args]", "    return [source_of.row(arg) for arg in fb.args] + [{'name': '*', 'source': source_of}]")))
B('k18_object_field_by_table_getattr', ['C18'], 'R18.a', (META, GRAI_FULL, _SRC_CLASS.replace(
    "        return {'name': arg, 'source': self(arg)}",
    "        return {'name': arg, 'source': self(arg), 'known': [getattr(self, f) for f in ('route', 'known_defaults')]}")))
B('k18_object_instance_dict', ['C18'], 'R18.a', (META, GRAI_FULL, _SRC_CLASS.replace(
    "        return {'name': arg, 'source': self(arg)}", "        return dict(vars(self), name=arg, source=self(arg))")))

# R18.e: textual representations of objects of the tree / what the views call on host objects
_APP_REPR = '''        ret = ('<%s routes_count=%s resources_keys=%r middlewares=%r render_factory=%r slash_mode=%r debug=%r>'
               % (cn, len(self.routes), list(self.resources.keys()), self.middlewares,
                  self.render_factory, self.slash_mode, self.debug))
'''
_APP_REPR_DEF = "    def __repr__(self):\n        cn = self.__class__.__name__\n" + _APP_REPR + "        return ret\n"
B('k18e_repr_prints_resources', ['C18'], 'R18.e', (A, _APP_REPR, '''        ret = ('<%s routes_count=%s resources=%r middlewares=%r render_factory=%r slash_mode=%r debug=%r>'
               % (cn, len(self.routes), self.resources, self.middlewares,
                  self.render_factory, self.slash_mode, self.debug))
'''))
B('k18e_repr_prints_sorted_items', ['C18'], 'R18.e', (A, 'list(self.resources.keys()), self.middlewares,', 'sorted(self.resources.items()), self.middlewares,'))
B('k18e_repr_prints_values_fstring', ['C18'], 'R18.e', (A, _APP_REPR, "        ret = f'<{cn} routes_count={len(self.routes)} resources={list(self.resources.values())!r}>'\n"))
B('k18e_repr_format_method', ['C18'], 'R18.e', (A, _APP_REPR, "        ret = '<{0} routes_count={1} resources={2!r}>'.format(cn, len(self.routes), dict(self.resources))\n"))
B('k18e_str_prints_resources', ['C18'], 'R18.e', (A, _APP_REPR_DEF, _APP_REPR_DEF + '''
    def __str__(self):
        return '%s with resources %s' % (self.__class__.__name__, self.resources)
'''))
B('k18e_repr_via_helper_method', ['C18'], 'R18.e', (A, _APP_REPR_DEF, '''    def _summary(self):
        return {'routes_count': len(self.routes), 'resources': self.resources, 'debug': self.debug}

    def __repr__(self):
        return '<%s %r>' % (self.__class__.__name__, self._summary())
'''))
B('k18e_repr_instance_dict', ['C18'], 'R18.e', (A, _APP_REPR, "        ret = '<%s %r>' % (cn, vars(self))\n"))
B('k18e_repr_dunder_dict', ['C18'], 'R18.e', (A, _APP_REPR, "        ret = '<%s %s>' % (cn, ', '.join('%s=%r' % kv for kv in sorted(self.__dict__.items())))\n"))
B('k18e_repr_aliased_field', ['C18'], 'R18.e', (A, "        self.resources = dict(resources or {})\n", "        self.resources = dict(resources or {})\n        self._injectables = self.resources\n"),
  (A, 'list(self.resources.keys()), self.middlewares,', 'self._injectables, self.middlewares,'))
B('k18e_bound_route_repr_resources', ['C18'], 'R18.e', (R, "        return '<%s route=%r bound_app=%r>' % (cn, self.unbound_route, self.bound_apps[-1])",
                                                          "        return '<%s route=%r resources=%r>' % (cn, self.unbound_route, self.resources)"))
B('k18e_attrs_repr_field', ['C18'], 'R18.e', (A, "    wsgi_app = attr.ib()\n", "    wsgi_app = attr.ib()\n    resources = attr.ib(default=None)\n"))
B('k18e_attrs_repr_secret_field', ['C18'], 'R18.e', (A, "    wsgi_app = attr.ib()\n", "    wsgi_app = attr.ib()\n    secret_key = attr.ib(default=None)\n"))
B('k18e_nonmw_repr_key_material', ['C18'], 'R18.e', (A, "        return '<%s exceptions=%r allowed_methods=%r>' % args",
                                                      "        return '<%s exceptions=%r allowed_methods=%r key=%r>' % (args + (self.signing_key,))"))
B('k18e_view_calls_describe', ['C18'], 'R18.e', (A, _APP_REPR_DEF, _APP_REPR_DEF + '''
    def describe(self):
        return {'type': self.__class__.__name__, 'resources': dict(self.resources), 'debug': self.debug}
'''), (META, "        ret.append({'key': key, 'value': trunc_val})\n    return ret\n",
       "        ret.append({'key': key, 'value': trunc_val})\n    ret.append({'key': '(application)', 'value': _trunc(repr(_application.describe()))})\n    return ret\n"))
B('k18e_view_reads_vars', ['C18'], 'R18.e', (META, "    app = _application\n    ret = []\n", "    app = _application\n    ret = [{'url_pattern': '(application)', 'args': sorted(vars(app).items())}]\n"))
B('k18e_view_reads_dunder_dict', ['C18'], 'R18.e', (META, "        r_info['url_pattern'] = r.pattern\n", "        r_info['url_pattern'] = r.pattern\n        r_info['attrs'] = _trunc(repr(r.__dict__))\n"))
B('k18e_view_dynamic_getattr', ['C18'], 'R18.e', (META, "        r_info['url_pattern'] = r.pattern\n",
                                                   "        r_info['url_pattern'] = r.pattern\n        r_info['attrs'] = dict((a, repr(getattr(r, a))) for a in dir(r))\n"))
T('k18e_repr_names_sorted', ['C18'], (A, 'list(self.resources.keys()), self.middlewares,', 'sorted(self.resources), self.middlewares,'))
T('k18e_repr_names_joined_and_count', ['C18'], (A, _APP_REPR, '''        ret = ('<%s routes_count=%s resources_count=%s resources_keys=[%s] middlewares=%r debug=%r>'
               % (cn, len(self.routes), len(self.resources), ', '.join(self.resources), self.middlewares, self.debug))
'''))
T('k18e_str_names_only', ['C18'], (A, _APP_REPR_DEF, _APP_REPR_DEF + '''
    def __str__(self):
        return '%s (%d routes, resources: %s)' % (self.__class__.__name__, len(self.routes), ', '.join(sorted(self.resources.keys())))
'''))
T('k18e_repr_redacting_items', ['C18'], (A, 'list(self.resources.keys()), self.middlewares,',
                                         "[(k, '[REDACTED]' if 'secret' in k else type(v).__name__) for k, v in self.resources.items()], self.middlewares,"))
T('k18e_attrs_field_not_printed', ['C18'], (A, "    wsgi_app = attr.ib()\n", "    wsgi_app = attr.ib()\n    resources = attr.ib(default=None, repr=False)\n"))
T('k18e_view_calls_names_method', ['C18'], (A, _APP_REPR_DEF, _APP_REPR_DEF + '''
    def describe(self):
        return {'type': self.__class__.__name__, 'resource_names': sorted(self.resources), 'route_count': len(self.routes)}
'''), (META, "        ret.append({'key': key, 'value': trunc_val})\n    return ret\n",
       "        ret.append({'key': key, 'value': trunc_val})\n    ret.append({'key': '(application)', 'value': _trunc(repr(_application.describe()))})\n    return ret\n"))
T('k18e_view_constant_table_getattr', ['C18'], (META, "        r_info['url_pattern'] = r.pattern\n",
                                                 "        for a in ('pattern', 'methods'):\n            r_info['route_' + a] = repr(getattr(r, a))\n        r_info['url_pattern'] = r.pattern\n"))
T('k18e_repr_dict_of_plain_record', ['C18'], (A, "        return '<%s exceptions=%r allowed_methods=%r>' % args", "        return '<%s %r>' % (self.__class__.__name__, vars(self))"))

# R18.a: the listed value is a text made from the resource value, never the host object itself
B('k18_raw_value_listed', ['C18'], 'R18.a', (META, GRI, '''def get_resource_info(_application):
    ret = []
    for key, val in _application.resources.items():
        if 'secret' in key:
            ret.append({'key': key, 'value': '[REDACTED]'})
        else:
            ret.append({'key': key, 'value': val})
    return ret
'''))
B('k18_raw_value_in_comprehension', ['C18'], 'R18.a', (META, GRI, '''def get_resource_info(_application):
    return [{'key': key, 'value': '[REDACTED]' if 'secret' in key else val}
            for key, val in _application.resources.items()]
'''))
B('k18_raw_value_from_helper', ['C18'], 'R18.a', (META, GRI, '''def shown_resource_value(key, val):
    if 'secret' in key:
        return '[REDACTED]'
    return val


def get_resource_info(_application):
    return [{'key': key, 'value': shown_resource_value(key, val)} for key, val in _application.resources.items()]
'''))
B('k18_raw_value_row_update', ['C18'], 'R18.a', (META, "            trunc_val = _trunc(repr(val))\n        ret.append({'key': key, 'value': trunc_val})",
                                                  "            trunc_val = _trunc(repr(val))\n        cur = {'key': key, 'value': trunc_val}\n        if 'secret' not in key:\n            cur.update(raw=val)\n        ret.append(cur)"))
T('k18_value_percent_r', ['C18'], (META, "            trunc_val = _trunc(repr(val))", "            trunc_val = _trunc('%r' % (val,))"))
T('k18_value_format_r', ['C18'], (META, "            trunc_val = _trunc(repr(val))", "            trunc_val = _trunc('{0!r}'.format(val))"))
T('k18_value_fstring_r', ['C18'], (META, "            trunc_val = _trunc(repr(val))", "            trunc_val = _trunc(f'{val!r}')"))
T('k18_value_with_type_name', ['C18'], (META, "        ret.append({'key': key, 'value': trunc_val})",
                                        "        ret.append({'key': key, 'value': trunc_val, 'type': '?' if 'secret' in key else type(val).__name__})"))

# R18.f: kinds of the values put into the page contexts
B('k18f_class_object_attr', ['C18'], 'R18.f', (META, "        cur['type_name'] = mw.__class__.__name__\n", "        cur['type_name'] = mw.__class__.__name__\n        cur['type'] = mw.__class__\n"))
B('k18f_class_object_type_call', ['C18'], 'R18.f', (META, "            ret['arg'] = render_arg.__class__.__name__", "            ret['arg'] = type(render_arg)"))
B('k18f_endpoint_object', ['C18'], 'R18.f', (META, "        r_info['endpoint'] = get_endpoint_info(r)\n", "        r_info['endpoint'] = get_endpoint_info(r)\n        r_info['endpoint_obj'] = r.endpoint\n"))
B('k18f_exception_object', ['C18'], 'R18.f', (META, "                peri_ctx = {'exc_content': repr(e)}", "                peri_ctx = {'exc_content': repr(e), 'exc': e}"))
B('k18f_generator_stored', ['C18'], 'R18.f', (META, "    ret['version_info'] = list(sys.version_info)", "    ret['version_info'] = (int(v) for v in sys.version_info[:3])"))
B('k18f_map_stored', ['C18'], 'R18.f', (META, "    ret['version_info'] = list(sys.version_info)", "    ret['version_info'] = map(str, sys.version_info)"))
B('k18f_module_stored', ['C18'], 'R18.f', (META, "    ret['platform'] = platform.platform()", "    ret['platform'] = platform"))
B('k18f_function_stored', ['C18'], 'R18.f', (META, "    ret['rusage'] = get_rusage_dict()", "    ret['rusage'] = get_rusage_dict"))
B('k18f_bound_method_stored', ['C18'], 'R18.f', (META, "        full_ctx = {'page_title': self.page_title}", "        full_ctx = {'page_title': self.page_title, 'main': self.get_main}"))
B('k18f_class_via_helper_return', ['C18'], 'R18.f', (META, "def get_mw_infos(_application):\n", "def mw_type(mw):\n    return type(mw)\n\n\ndef get_mw_infos(_application):\n"),
  (META, "        cur['type_name'] = mw.__class__.__name__\n", "        cur['type_name'] = mw.__class__.__name__\n        cur['type'] = mw_type(mw)\n"))
B('k18f_instance_stored', ['C18'], 'R18.f', (META, "        return {'middlewares': get_mw_infos(_application)}", "        return {'middlewares': get_mw_infos(_application), 'section': MiddlewarePeripheral()}"))
B('k18f_generator_function_result', ['C18'], 'R18.f', (META, GMI, '''def iter_mw_infos(_application):
    for mw in _application.middlewares:
        yield {'type_name': mw.__class__.__name__, 'provides': mw.provides, 'requires': mw.requires, 'repr': repr(mw)}


def get_mw_infos(_application):
    return iter_mw_infos(_application)
'''))
T('k18f_type_name', ['C18'], (META, "        cur['type_name'] = mw.__class__.__name__\n", "        cur['type_name'] = type(mw).__name__\n        cur['module'] = type(mw).__module__\n"))
T('k18f_map_materialised', ['C18'], (META, "    ret['version_info'] = list(sys.version_info)", "    ret['version_info'] = list(map(int, sys.version_info[:3])) + [str(v) for v in sys.version_info[3:]]"))
T('k18f_generator_in_tuple_call', ['C18'], (META, "    ret['version_info'] = list(sys.version_info)", "    ret['version_info'] = tuple(v for v in sys.version_info)"))
T('k18f_exception_text', ['C18'], (META, "                peri_ctx = {'exc_content': repr(e)}", "                peri_ctx = {'exc_content': repr(e), 'exc_type': type(e).__name__, 'exc_text': str(e)}"))
T('k18f_function_name', ['C18'], (META, "    ret['rusage'] = get_rusage_dict()", "    ret['rusage'] = get_rusage_dict()\n    ret['rusage_source'] = get_rusage_dict.__name__"))
T('k18f_generator_function_listed', ['C18'], (META, GMI, '''def iter_mw_infos(_application):
    for mw in _application.middlewares:
        yield {'type_name': mw.__class__.__name__, 'provides': mw.provides, 'requires': mw.requires, 'repr': repr(mw)}


def get_mw_infos(_application):
    return list(iter_mw_infos(_application))
'''))

# R18.c: sibling views -- every routed method of the meta application that runs peripheral code does so per peripheral, fail-soft
_JSON_ROUTE = "                  ('/json/', self.get_main, render_json)]"
_GET_MAIN_DEF = "    def get_main(self, request, _application, _route, script_root):\n"
B('k18c_json_route_unprotected_endpoint', ['C18'], 'R18.c', (META, _JSON_ROUTE, "                  ('/json/', self.get_main_json, render_json)]"),
  (META, _GET_MAIN_DEF, '''    def get_main_json(self, request, _application, _route, script_root):
        kwargs = {'request': request, '_route': _route, '_application': _application,
                  '_meta_application': self, 'script_root': script_root}
        ret = {'page_title': self.page_title}
        for peri in self.peripherals:
            ret.setdefault(peri.group_key, {}).update(inject(peri.get_context, kwargs))
        return ret

''' + _GET_MAIN_DEF))
B('k18c_extra_section_route_unprotected', ['C18'], 'R18.c', (META, _JSON_ROUTE, "                  ('/json/', self.get_main, render_json),\n                  ('/json/<group_key>', self.get_group, render_json)]"),
  (META, _GET_MAIN_DEF, '''    def get_group(self, group_key, request, _application, _route, script_root):
        kwargs = {'request': request, '_route': _route, '_application': _application,
                  '_meta_application': self, 'script_root': script_root}
        ret = {}
        try:
            for peri in self.peripherals:
                if peri.group_key == group_key:
                    ret.update(inject(peri.get_context, kwargs))
        except Exception as e:
            ret = {'exc_content': repr(e)}
        return ret

''' + _GET_MAIN_DEF))
B('k18c_plain_renderer_direct_calls', ['C18'], 'R18.c', (META, _JSON_ROUTE, "                  ('/json/', self.get_main, render_json),\n                  ('/plain/', self.get_main, self.render_plain)]"),
  (META, _GET_MAIN_DEF, '''    def render_plain(self, context):
        parts = []
        for peri in self.peripherals:
            parts.append(peri.render_main_page_html(context[peri.group_key]) or '')
        return '\\n'.join(parts)

''' + _GET_MAIN_DEF))
T('k18c_json_route_delegating_endpoint', ['C18'], (META, _JSON_ROUTE, "                  ('/json/', self.get_main_json, render_json)]"),
  (META, _GET_MAIN_DEF, '''    def get_main_json(self, request, _application, _route, script_root):
        return self.get_main(request, _application, _route, script_root)

''' + _GET_MAIN_DEF))
T('k18c_extra_section_route_protected', ['C18'], (META, _JSON_ROUTE, "                  ('/json/', self.get_main, render_json),\n                  ('/json/<group_key>', self.get_group, render_json)]"),
  (META, _GET_MAIN_DEF, '''    def get_group(self, group_key, request, _application, _route, script_root):
        kwargs = {'request': request, '_route': _route, '_application': _application,
                  '_meta_application': self, 'script_root': script_root}
        ret = {}
        for peri in self.peripherals:
            if peri.group_key != group_key:
                continue
            try:
                ret.update(inject(peri.get_context, kwargs))
            except Exception as e:
                ret.update({'exc_content': repr(e)})
        return ret

''' + _GET_MAIN_DEF))
T('k18c_routes_built_by_method', ['C18'], (META, "        routes = [('/', self.get_main, self.render_main_page_html),\n                  ('/clastic_assets/', META_ASSETS_APP),\n" + _JSON_ROUTE,
                                          "        routes = self._own_routes()"),
  (META, _GET_MAIN_DEF, '''    def _own_routes(self):
        html = Route('/', self.get_main, self.render_main_page_html)
        as_json = Route('/json/', endpoint=self.get_main, render=render_json)
        return [html, ('/clastic_assets/', META_ASSETS_APP), as_json]

''' + _GET_MAIN_DEF), (META, "from .application import Application, NullRoute, RESERVED_ARGS", "from .application import Application, NullRoute, RESERVED_ARGS\nfrom .route import Route"))

# R18.c: the placeholder the handler stores is what the code after the try statement reports
B('k18c_placeholder_then_continue', ['C18'], 'R18.c', (META, "                peri_ctx = {'exc_content': repr(e)}\n", "                peri_ctx = {'exc_content': repr(e)}\n                continue\n"))
B('k18c_placeholder_other_name', ['C18'], 'R18.c', (META, "                peri_ctx = {'exc_content': repr(e)}\n", "                failed_ctx = {'exc_content': repr(e)}\n"),
  (META, "        for peri in self.peripherals:\n            try:\n                peri_ctx = inject(peri.get_context, kwargs)", "        peri_ctx = {}\n        for peri in self.peripherals:\n            try:\n                peri_ctx = inject(peri.get_context, kwargs)"))
B('k18c_general_items_placeholder_unused', ['C18'], 'R18.c', (META, "            except Exception as e:\n                cur_general_items = []\n", "            except Exception as e:\n                no_items = []\n"),
  (META, "            try:\n                cur_general_items = inject(peri.get_general_items, kwargs)", "            cur_general_items = []\n            try:\n                cur_general_items = inject(peri.get_general_items, kwargs)"))
T('k18c_placeholder_stored_then_continue', ['C18'], (META, "                peri_ctx = {'exc_content': repr(e)}\n            full_ctx.setdefault(peri.group_key, {}).update(peri_ctx)\n",
                                                    "                full_ctx.setdefault(peri.group_key, {}).update({'exc_content': repr(e)})\n                continue\n            full_ctx.setdefault(peri.group_key, {}).update(peri_ctx)\n"))
T('k18c_placeholder_two_names', ['C18'], (META, "                peri_ctx = {'exc_content': repr(e)}\n", "                failure = repr(e)\n                peri_ctx = {'exc_content': failure}\n"))

# getattr(x, 'resources', default) is the same read as x.resources (a source of R18.a's value flow)
T('k18_getattr_resources_membership', ['C18'], (META, "        elif arg in route.resources:", "        elif arg in getattr(route, 'resources', {}):"))
B('k18_getattr_resources_values', ['C18'], 'R18.a', (META, "        r_info['args'] = get_route_arg_info(r)\n",
                                                     "        r_info['args'] = get_route_arg_info(r)\n        r_info['resources'] = dict((k, _trunc(repr(v))) for k, v in getattr(r, 'resources', {}).items())\n"))
B('k18_getattr_resources_wrong_key_tested', ['C18'], 'R18.a', (META, "        ret.append({'key': key, 'value': trunc_val})\n    return ret\n", '''        ret.append({'key': key, 'value': trunc_val})
    for route in _application.routes:
        for rkey, rval in getattr(route, 'resources', {}).items():
            if 'secret' in key:
                trunc_val = '[REDACTED]'
            else:
                trunc_val = _trunc(repr(rval))
            ret.append({'key': '%s (%s)' % (rkey, route.pattern), 'value': trunc_val})
    return ret
'''))
T('k18e_view_endpoint_repr', ['C18'], (META, "        r_info['endpoint'] = get_endpoint_info(r)\n", "        r_info['endpoint'] = get_endpoint_info(r)\n        r_info['endpoint_repr'] = _trunc(repr(r.endpoint))\n"))
B('k18e_dataclass_repr_field', ['C18'], 'R18.e', (A, "class DispatchState(object):", '''@dataclass
class AppSummary:
    name: str
    app_resources: dict


class DispatchState(object):'''), (A, "import attr\n", "import attr\nfrom dataclasses import dataclass\n"))
T('k18e_dataclass_field_not_printed', ['C18'], (A, "class DispatchState(object):", '''@dataclass
class AppSummary:
    name: str
    resource_names: list
    app_resources: dict = field(default_factory=dict, repr=False)


class DispatchState(object):'''), (A, "import attr\n", "import attr\nfrom dataclasses import dataclass, field\n"))
T('k18e_repr_reads_group_key', ['C18'], (META, "    def get_general_items(self):\n        \"Returns list of 2-tuples to appear in the general section table\"\n",
                                         "    def __repr__(self):\n        return '<%s group_key=%r title=%r>' % (self.__class__.__name__, self.group_key, self.title)\n\n    def get_general_items(self):\n        \"Returns list of 2-tuples to appear in the general section table\"\n"))

# R18.e in other shapes: the representation assembled by a helper method / by a mixin from a table of attribute names
_PAIRS_REPR = '''    def repr_pairs(self):
        return [('routes_count', len(self.routes)), ('resources_keys', sorted(self.resources)),
                ('middlewares', self.middlewares), ('debug', self.debug)]

    def __repr__(self):
        return '<%s %s>' % (self.__class__.__name__, ' '.join('%s=%r' % pair for pair in self.repr_pairs()))
'''
T('k18e_repr_from_pairs_method', ['C18'], (A, _APP_REPR_DEF, _PAIRS_REPR))
B('k18e_repr_from_pairs_method_values', ['C18'], 'R18.e', (A, _APP_REPR_DEF, _PAIRS_REPR.replace("('resources_keys', sorted(self.resources))", "('resources', dict(self.resources))")))
_MIXIN = '''class AttrReprMixin(object):
    repr_attrs = ()

    def __repr__(self):
        shown = ' '.join('%s=%r' % (name, getattr(self, name)) for name in self.repr_attrs)
        return '<%s %s>' % (self.__class__.__name__, shown)


class Application(AttrReprMixin):
    repr_attrs = ('middlewares', 'render_factory', 'slash_mode', 'debug')
'''
T('k18e_repr_mixin_attr_table', ['C18'], (A, "class Application(object):\n", _MIXIN), (A, _APP_REPR_DEF, ''))
B('k18e_repr_mixin_attr_table_resources', ['C18'], 'R18.e', (A, "class Application(object):\n", _MIXIN.replace("('middlewares', ", "('resources', 'middlewares', ")), (A, _APP_REPR_DEF, ''))
B('k18e_repr_assigned_function', ['C18'], 'R18.e', (A, "class Application(object):\n", '''def _show_all(obj):
    return '<%s %r>' % (obj.__class__.__name__, obj.resources)


class Application(object):
    __str__ = _show_all
'''))
T('k18e_view_calls_iter_routes', ['C18'], (META, "    for r in app.routes:\n        if isinstance(r, NullRoute):", "    for r in app.iter_routes():\n        if isinstance(r, NullRoute):"))
T('k18f_rows_from_zip_and_namedtuple', ['C18'], (META, GMI, '''_MW_FIELDS = ('type_name', 'provides', 'requires', 'repr')


def get_mw_infos(_application):
    ret = []
    for mw in _application.middlewares:
        values = (mw.__class__.__name__, mw.provides, mw.requires, repr(mw))
        ret.append(dict(zip(_MW_FIELDS, values)))
    return ret
'''))
B('k18b_format_method_shows_key', ['C18'], 'R18.b', (CK, "    def __repr__(self):\n        cn = self.__class__.__name__\n        return ('%s(arg_name=%r, cookie_name=%r)'",
                                                     "    def __format__(self, spec):\n        return '%s(%s)' % (self.__class__.__name__, self.secret_key)\n\n    def __repr__(self):\n        cn = self.__class__.__name__\n        return ('%s(arg_name=%r, cookie_name=%r)'"))

# R18.a: inside the loop over the resources nothing but the 'secret' test decides what is listed
B('k18_listing_skips_private_names', ['C18'], 'R18.a', (META, "    for key, val in _application.resources.items():\n        if 'secret' in key:",
                                                        "    for key, val in _application.resources.items():\n        if key.startswith('_'):\n            continue\n        if 'secret' in key:"))
B('k18_listing_capped', ['C18'], 'R18.a', (META, "        ret.append({'key': key, 'value': trunc_val})\n    return ret", "        ret.append({'key': key, 'value': trunc_val})\n        if len(ret) >= 20:\n            break\n    return ret"))
B('k18_listing_comprehension_filter', ['C18'], 'R18.a', (META, GRI, '''def get_resource_info(_application):
    return [{'key': key, 'value': '[REDACTED]' if 'secret' in key else _trunc(repr(val))}
            for key, val in _application.resources.items() if not key.startswith('_')]
'''))
B('k18_listing_redacts_more_than_secrets', ['C18'], 'R18.a', (META, "        if 'secret' in key:\n            trunc_val = '[REDACTED]'", "        if 'secret' in key or not isinstance(val, str):\n            trunc_val = '[REDACTED]'"))
B('k18_listing_only_string_values', ['C18'], 'R18.a', (META, "        ret.append({'key': key, 'value': trunc_val})\n    return ret", "        if isinstance(val, (str, bytes, int, float)):\n            ret.append({'key': key, 'value': trunc_val})\n    return ret"))


# ---- fifth pass: the views' helpers / classes live in another module of the package and are imported back ----------------
# (the rules follow the definitions the views reach, wherever they live; each clause is broken *inside the moved copy*)
NEWMOD = 'clastic/contrib/__init__.py'      # an empty module of the package: stands for a new private module next to meta.py
UTILS = 'clastic/utils.py'                  # an existing module of the package
_IMPORT_ANCHOR = 'from .static import StaticApplication\n'

TRUNC = '''def _trunc(str_val, length=70, trailer='...'):
    if len(str_val) > length:
        if trailer:
            str_val = str_val[:length - len(trailer)] + trailer
        else:
            str_val = str_val[:length]
    return str_val
'''

GEI = '''def get_endpoint_info(route):
    # TODO: callable object endpoints?
    ret = {}
    try:
        ret['module_name'], ret['name'] = get_callable_name(route.endpoint)
    except AttributeError:
        try:
            ret['name'] = repr(route.endpoint)
        except:
            ret['name'] = object.__repr__(route.endpoint)
    return ret
'''

GRDI = '''def get_render_info(route):
    ret = {'type': None}
    render_arg = route.render_arg
    if route.render_factory and not callable(render_arg):
        ret['type'] = route.render_factory.__class__.__name__
        ret['arg'] = render_arg
    elif render_arg is None:
        ret['arg'] = None
    else:
        try:
            ret['arg'] = render_arg.func_name
        except AttributeError:
            ret['arg'] = render_arg.__class__.__name__
    return ret
'''

GRAI_FULL = '''def get_route_arg_info(route):
    fb = get_fb(route.endpoint)
    r_args = fb.args
    r_defaults = fb.get_defaults_dict()
''' + GRAI

MPERI = '''class MetaPeripheral(object):
    title = 'Clastic MetaPeripheral'
    group_key = 'mp'

    def get_general_items(self):
        "Returns list of 2-tuples to appear in the general section table"
        return []

    def get_context(self):
        return {}

    def render_main_page_html(self, context):
        return None

    def get_extra_routes(self):
        return []
'''

AMPERI = '''class AshesMetaPeripheral(MetaPeripheral):
    def __init__(self):
        arf = AshesRenderFactory(_CUR_PATH, keep_whitespace=False)
        self.loaded_template = arf.env.load(self.template_path)

    def render_main_page_html(self, context):
        return self.loaded_template.render(context)
'''

RPERI = '''class ResourcePeripheral(AshesMetaPeripheral):
    title = 'Application Resources'
    group_key = 'app'
    template_path = 'meta_resource_section.html'

    def get_context(self, _application):
        return {'resources': get_resource_info(_application)}
'''

BPERI = '''class BasicPeripheral(MetaPeripheral):
    title = 'Basic Peripheral'
    group_key = 'basic'

    def get_context(self, _meta_application):
        start_time = _meta_application.resources['_meta_start_time']
        return {'abs_start_time': str(start_time),
                'rel_start_time': relative_time(start_time)}

    def get_general_items(self, context):
        return [('Start time', (context['rel_start_time'],
                                context['abs_start_time']))]
'''

GHI = '''def get_host_info():
    ret = {}
    now = datetime.datetime.utcnow()

    ret['hostname'] = socket.gethostname()
    ret['hostfqdn'] = socket.getfqdn()
    ret['uname'] = platform.uname()
    ret['cpu_count'] = CPU_COUNT
    ret['platform'] = platform.platform()
    ret['platform_terse'] = platform.platform(terse=True)

    ret['load_avgs'] = glom(os, T.getloadavg(), skip_exc=AttributeError)

    ret['utc_time'] = str(now)
    return ret
'''


def _mv(blocks, names, target=NEWMOD, header='', moved=None, extra=()):
    """Edits that move the text blocks out of meta.py into ``target`` (``moved``: the text they have there, default
    verbatim) and import ``names`` back."""
    edits = [(META, b, '') for b in blocks]
    modname = '.contrib' if target == NEWMOD else '.utils'
    edits.append((META, _IMPORT_ANCHOR, _IMPORT_ANCHOR + 'from %s import %s\n' % (modname, ', '.join(names))))
    body = header + '\n\n'.join(moved if moved is not None else blocks)
    if target == NEWMOD:
        edits.append((target, '', '# -*- coding: utf-8 -*-\n' + body))
    else:
        edits.append((target, 're:\\Z', ('\n\n' + body).replace('\\', '\\\\')))
    return edits + list(extra)


_H_SINTER = 'from ..sinter import get_fb, get_callable_name\nfrom ..application import NullRoute, RESERVED_ARGS\n\n\n'
_H_UT_SINTER = 'from .sinter import get_fb, get_callable_name\nfrom .application import RESERVED_ARGS\n\n\n'
_H_PERI = ('import os\n\nfrom boltons.timeutils import relative_time\n\nfrom ..render import AshesRenderFactory\n\n'
           '_CUR_PATH = os.path.dirname(os.path.dirname(os.path.abspath(__file__)))\n\n\n')

# R18.a: the resource listing (the floor of three reads of .resources is counted over the views, not over meta.py)
T('k18_mv_resource_info_new_module', ['C18'], *_mv([TRUNC, GRI], ['_trunc', 'get_resource_info']))
T('k18_mv_resource_info_existing_module', ['C18'], *_mv([TRUNC, GRI], ['_trunc', 'get_resource_info'], target=UTILS))
T('k18_mv_trunc_only', ['C18'], *_mv([TRUNC], ['_trunc']))
B('k18_mv_trunc_only_listing_unguarded', ['C18'], 'R18.a', *_mv([TRUNC], ['_trunc'], extra=[(META, "            trunc_val = '[REDACTED]'", "            trunc_val = _trunc(str(val))")]))
B('k18_mv_resource_info_no_test', ['C18'], 'R18.a', *_mv([TRUNC, GRI], ['_trunc', 'get_resource_info'], moved=[TRUNC, '''def get_resource_info(_application):
    ret = []
    for key, val in _application.resources.items():
        ret.append({'key': key, 'value': _trunc(repr(val))})
    return ret
''']))
B('k18_mv_resource_info_wrong_polarity', ['C18'], 'R18.a', *_mv([TRUNC, GRI], ['_trunc', 'get_resource_info'], target=UTILS,
                                                               moved=[TRUNC, GRI.replace("if 'secret' in key:", "if 'secret' not in key:")]))
B('k18_mv_resource_info_raw_value', ['C18'], 'R18.a', *_mv([TRUNC, GRI], ['_trunc', 'get_resource_info'],
                                                         moved=[TRUNC, GRI.replace("trunc_val = _trunc(repr(val))", "trunc_val = val")]))
B('k18_mv_resource_info_key_rebound', ['C18'], 'R18.a', *_mv([TRUNC, GRI], ['_trunc', 'get_resource_info'], target=UTILS,
                                                           moved=[TRUNC, GRI.replace("        if 'secret' in key:", "        key = key[:3]\n        if 'secret' in key:")]))
# R18.b: the middleware rows
T('k18_mv_mw_infos_new_module', ['C18'], *_mv([GMI], ['get_mw_infos']))
T('k18_mv_mw_infos_existing_module', ['C18'], *_mv([GMI], ['get_mw_infos'], target=UTILS))
_GMI_ROW = '''def _mw_row(mw):
    cur = {}
    cur['type_name'] = mw.__class__.__name__
    cur['provides'] = mw.provides
    cur['requires'] = mw.requires
    cur['repr'] = repr(mw)
    return cur


def _mw_rows(_application):
    return [_mw_row(mw) for mw in _application.middlewares]
'''
_GMI_THIN = '''def get_mw_infos(_application):
    return _mw_rows(_application)
'''
T('k18_mv_mw_rows_helper_other_module', ['C18'], (META, GMI, _GMI_THIN), (NEWMOD, '', _GMI_ROW),
  (META, _IMPORT_ANCHOR, _IMPORT_ANCHOR + 'from .contrib import _mw_rows\n'))
B('k18_mv_mw_rows_helper_reads_secret', ['C18'], 'R18.b', (META, GMI, _GMI_THIN),
  (NEWMOD, '', _GMI_ROW.replace("    cur['repr'] = repr(mw)\n", "    cur['repr'] = repr(mw)\n    cur['key'] = mw.secret_key\n")),
  (META, _IMPORT_ANCHOR, _IMPORT_ANCHOR + 'from .contrib import _mw_rows\n'))
B('k18_mv_mw_infos_reads_vars', ['C18'], 'R18.b', *_mv([GMI], ['get_mw_infos'], moved=[GMI.replace("cur['repr'] = repr(mw)", "cur['repr'] = repr(vars(mw))")]))
B('k18_mv_mw_infos_reads_secret', ['C18'], 'R18.b', *_mv([GMI], ['get_mw_infos'], target=UTILS,
                                                        moved=[GMI.replace("cur['requires'] = mw.requires", "cur['requires'] = mw.secret_key")]))
# R18.a / R18.f: the route listing and its helpers
T('k18_mv_route_infos_all', ['C18'], *_mv([GRIS, GEI, GRDI, GRAI_FULL], ['get_route_infos'], header=_H_SINTER))
T('k18_mv_route_infos_all_imported_back', ['C18'], *_mv([GRIS, GEI, GRDI, GRAI_FULL], ['get_route_infos', 'get_endpoint_info', 'get_render_info', 'get_route_arg_info'],
                                                      header=_H_SINTER))
T('k18_mv_route_arg_info', ['C18'], *_mv([GRAI_FULL], ['get_route_arg_info'], target=UTILS, header=_H_UT_SINTER))
T('k18_mv_render_endpoint_info', ['C18'], *_mv([GEI, GRDI], ['get_endpoint_info', 'get_render_info'], header='from ..sinter import get_callable_name\n\n\n'))
B('k18_mv_route_arg_info_default_value', ['C18'], 'R18.a', *_mv([GRAI_FULL], ['get_route_arg_info'], target=UTILS, header=_H_UT_SINTER,
                                                              moved=[GRAI_FULL.replace("                source = 'default'", "                source = r_defaults[arg]")]))
B('k18_mv_route_arg_info_resource_value', ['C18'], 'R18.a', *_mv([GRIS, GEI, GRDI, GRAI_FULL], ['get_route_infos'], header=_H_SINTER,
                                                               moved=[GRIS, GEI, GRDI, GRAI_FULL.replace("            source = 'resources'", "            source = repr(route.resources[arg])")]))
B('k18_mv_route_infos_stores_route', ['C18'], 'R18.a', *_mv([GRIS, GEI, GRDI, GRAI_FULL], ['get_route_infos'], header=_H_SINTER,
                                                          moved=[GRIS.replace("        r_info['url_pattern'] = r.pattern\n", "        r_info['url_pattern'] = r.pattern\n        r_info['route'] = r\n"),
                                                                 GEI, GRDI, GRAI_FULL]))
B('k18_mv_endpoint_info_stores_endpoint', ['C18'], 'R18.f', *_mv([GEI, GRDI], ['get_endpoint_info', 'get_render_info'], header='from ..sinter import get_callable_name\n\n\n',
                                                               moved=[GEI.replace("            ret['name'] = repr(route.endpoint)", "            ret['name'] = route.endpoint"), GRDI]))
B('k18_mv_render_info_stores_class', ['C18'], 'R18.f', *_mv([GRIS, GEI, GRDI, GRAI_FULL], ['get_route_infos'], header=_H_SINTER,
                                                           moved=[GRIS, GEI, GRDI.replace("ret['type'] = route.render_factory.__class__.__name__", "ret['type'] = route.render_factory.__class__"), GRAI_FULL]))
# the peripherals themselves
_PERI_NAMES = ['MetaPeripheral', 'AshesMetaPeripheral', 'ResourcePeripheral', 'BasicPeripheral', '_trunc', 'get_resource_info']
T('k18_mv_peripherals', ['C18'], *_mv([TRUNC, GRI, MPERI, AMPERI, RPERI, BPERI], _PERI_NAMES, header=_H_PERI))
T('k18_mv_peripheral_bases', ['C18'], *_mv([MPERI, AMPERI], ['MetaPeripheral', 'AshesMetaPeripheral'], header=_H_PERI))
B('k18_mv_peripherals_listing_unguarded', ['C18'], 'R18.a', *_mv([TRUNC, GRI, MPERI, AMPERI, RPERI, BPERI], _PERI_NAMES, header=_H_PERI,
                                                               moved=[TRUNC, GRI.replace("trunc_val = '[REDACTED]'", "trunc_val = _trunc(repr(val))"), MPERI, AMPERI, RPERI, BPERI]))
B('k18_mv_peripherals_context_reads_values', ['C18'], 'R18.a', *_mv([TRUNC, GRI, MPERI, AMPERI, RPERI, BPERI], _PERI_NAMES, header=_H_PERI,
                                                                  moved=[TRUNC, GRI, MPERI, AMPERI, RPERI.replace("{'resources': get_resource_info(_application)}",
                                                                                                                  "{'resources': get_resource_info(_application), 'all': sorted(_application.resources.values(), key=repr)}"), BPERI]))
B('k18_mv_peripherals_context_holds_app', ['C18'], 'R18.a', *_mv([TRUNC, GRI, MPERI, AMPERI, RPERI, BPERI], _PERI_NAMES, header=_H_PERI,
                                                               moved=[TRUNC, GRI, MPERI, AMPERI, RPERI, BPERI.replace("        return {'abs_start_time': str(start_time),", "        return {'app': _meta_application, 'abs_start_time': str(start_time),")]))
B('k18_mv_peripherals_wrong_template', ['C18'], 'R18.d', *_mv([TRUNC, GRI, MPERI, AMPERI, RPERI, BPERI], _PERI_NAMES, header=_H_PERI,
                                                            moved=[TRUNC, GRI, MPERI, AMPERI, RPERI.replace("meta_resource_section.html", "resource_section_raw.html"), BPERI]))
B('k18_mv_peripheral_bases_raw_content', ['C18'], 'R18.d', *_mv([MPERI, AMPERI], ['MetaPeripheral', 'AshesMetaPeripheral'], header=_H_PERI,
                                                              moved=[MPERI.replace("    def render_main_page_html(self, context):\n        return None", "    def render_main_page_html(self, context):\n        return context.get('html')"), AMPERI]))
B('k18_mv_peripheral_bases_other_template', ['C18'], 'R18.d', *_mv([MPERI, AMPERI], ['MetaPeripheral', 'AshesMetaPeripheral'], header=_H_PERI,
                                                                 moved=[MPERI, AMPERI.replace("return self.loaded_template.render(context)", "return context.get('html') or self.loaded_template.render(context)")]))
# a function installed as a get_context lives in another module
_H_HOST = ('import os\nimport socket\nimport platform\nimport datetime\n\nfrom glom import glom, T\n\ntry:\n    from multiprocessing import cpu_count\n'
           '    CPU_COUNT = cpu_count()\nexcept:\n    CPU_COUNT = None\n\n\n')
T('k18_mv_installed_context_function', ['C18'], *_mv([GHI], ['get_host_info'], header=_H_HOST))
B('k18_mv_installed_context_function_module', ['C18'], 'R18.f', *_mv([GHI], ['get_host_info'], header=_H_HOST,
                                                                    moved=[GHI.replace("ret['uname'] = platform.uname()", "ret['uname'] = platform")]))
B('k18_mv_installed_context_function_lazy', ['C18'], 'R18.f', *_mv([GHI], ['get_host_info'], header=_H_HOST,
                                                                  moved=[GHI.replace("ret['uname'] = platform.uname()", "ret['uname'] = (x for x in platform.uname())")]))
# R18.c: the protected peripheral call made by a helper / a mixin of another module
_SECT_HELPER = '''from ..sinter import inject


def _section_context(peri, kwargs):
    try:
        return inject(peri.get_context, kwargs)
    except Exception as e:
        return {'exc_content': repr(e)}
'''
_GMAIN_VIA_HELPER = '''        for peri in self.peripherals:
            peri_ctx = _section_context(peri, kwargs)
            full_ctx.setdefault(peri.group_key, {}).update(peri_ctx)
        return full_ctx
'''
_IMP_SECT = (META, _IMPORT_ANCHOR, _IMPORT_ANCHOR + 'from .contrib import _section_context\n')
T('k18_mv_section_helper_other_module', ['C18'], (META, GMAIN, _GMAIN_VIA_HELPER), (NEWMOD, '', _SECT_HELPER), _IMP_SECT)
B('k18_mv_section_helper_reraises', ['C18'], 'R18.c', (META, GMAIN, _GMAIN_VIA_HELPER),
  (NEWMOD, '', _SECT_HELPER.replace("        return {'exc_content': repr(e)}", "        raise RuntimeError(repr(e))")), _IMP_SECT)
B('k18_mv_section_helper_narrow_handler', ['C18'], 'R18.c', (META, GMAIN, _GMAIN_VIA_HELPER),
  (NEWMOD, '', _SECT_HELPER.replace("except Exception as e:", "except KeyError as e:")), _IMP_SECT)
B('k18_mv_section_helper_indexes_exception', ['C18'], 'R18.c', (META, GMAIN, _GMAIN_VIA_HELPER),
  (NEWMOD, '', _SECT_HELPER.replace("repr(e)}", "e.args[0]}")), _IMP_SECT)
_GET_MAIN = '''    def get_main(self, request, _application, _route, script_root):
        full_ctx = {'page_title': self.page_title}
        kwargs = {'request': request,
                  '_route': _route,
                  '_application': _application,
                  '_meta_application': self,
                  'script_root': script_root}
''' + GMAIN
_MIXIN = 'from ..sinter import inject\n\n\nclass _MainViewMixin(object):\n' + _GET_MAIN
_MIXIN_EDITS = ((META, _GET_MAIN + '\n', ''), (META, 'class MetaApplication(Application):', 'class MetaApplication(_MainViewMixin, Application):'),
                (META, _IMPORT_ANCHOR, _IMPORT_ANCHOR + 'from .contrib import _MainViewMixin\n'))
T('k18_mv_get_main_mixin_other_module', ['C18'], (NEWMOD, '', _MIXIN), *_MIXIN_EDITS)
B('k18_mv_get_main_mixin_unprotected', ['C18'], 'R18.c', (NEWMOD, '', _MIXIN.replace(
    "            try:\n                peri_ctx = inject(peri.get_context, kwargs)\n            except Exception as e:\n                peri_ctx = {'exc_content': repr(e)}\n",
    "            peri_ctx = inject(peri.get_context, kwargs)\n")), *_MIXIN_EDITS)
B('k18_mv_get_main_mixin_try_around_loop', ['C18'], 'R18.c', (NEWMOD, '', _MIXIN.replace(GMAIN, '''        try:
            for peri in self.peripherals:
                peri_ctx = inject(peri.get_context, kwargs)
                full_ctx.setdefault(peri.group_key, {}).update(peri_ctx)
        except Exception as e:
            full_ctx['exc_content'] = repr(e)
        return full_ctx
''')), *_MIXIN_EDITS)


# ---- R18.c: every call of a method of a peripheral in a routed view is peripheral code (not only the three the views make today) --
_TITLE_METHOD = ("    def get_extra_routes(self):\n        return []\n", "    def get_extra_routes(self):\n        return []\n\n    def get_title(self):\n        return self.title\n")
_CUR_HEAD = "            cur = {'title': peri.title,\n                   'group_key': peri.group_key}\n"
B('k18_peri_method_unprotected_in_render', ['C18'], 'R18.c', (META,) + _TITLE_METHOD,
  (META, _CUR_HEAD, "            cur = {'title': peri.get_title(),\n                   'group_key': peri.group_key}\n"))
B('k18_peri_method_unprotected_in_get_main', ['C18'], 'R18.c', (META,) + _TITLE_METHOD,
  (META, "            full_ctx.setdefault(peri.group_key, {}).update(peri_ctx)", "            full_ctx.setdefault(peri.group_key, {}).update(peri_ctx)\n            full_ctx.setdefault('titles', []).append(peri.get_title())"))
B('k18_peri_method_injected_unprotected', ['C18'], 'R18.c', (META,) + _TITLE_METHOD,
  (META, _CUR_HEAD, "            cur = {'title': inject(peri.get_title, {}),\n                   'group_key': peri.group_key}\n"))
B('k18_peri_method_unprotected_in_helper', ['C18'], 'R18.c', (META,) + _TITLE_METHOD,
  (META, _CUR_HEAD, "            cur = _section_head(peri)\n"),
  (META, "def _process_items(all_items):", "def _section_head(peri):\n    return {'title': peri.get_title(), 'group_key': peri.group_key}\n\n\ndef _process_items(all_items):"))
B('k18_peri_method_unprotected_comprehension', ['C18'], 'R18.c', (META,) + _TITLE_METHOD,
  (META, "        general_items = context['general'] = []\n", "        general_items = context['general'] = []\n        context['titles'] = [peri.get_title() for peri in self.peripherals]\n"))
T('k18_peri_method_protected_in_render', ['C18'], (META,) + _TITLE_METHOD,
  (META, "                cur_context = context[peri.group_key]\n", "                cur['title'] = peri.get_title()\n                cur_context = context[peri.group_key]\n"))
T('k18_peri_method_protected_in_get_main', ['C18'], (META,) + _TITLE_METHOD,
  (META, "                peri_ctx = inject(peri.get_context, kwargs)\n", "                peri_ctx = inject(peri.get_context, kwargs)\n                peri_ctx = dict(peri_ctx, title=peri.get_title())\n"))
T('k18_peri_method_protected_helper_call', ['C18'], (META,) + _TITLE_METHOD,
  (META, "                cur_context = context[peri.group_key]\n", "                cur.update(_section_head(peri))\n                cur_context = context[peri.group_key]\n"),
  (META, "def _process_items(all_items):", "def _section_head(peri):\n    return {'title': peri.get_title(), 'group_key': peri.group_key}\n\n\ndef _process_items(all_items):"))
T('k18_peri_method_outside_views', ['C18'], (META,) + _TITLE_METHOD,
  (META, "            routes.extend(peri.get_extra_routes())\n", "            routes.extend(peri.get_extra_routes())\n            peri.get_title()\n"))

# ---- R18.c: what the code after the try statement reads is bound on the failure path as well ------------------------------
B('k18_result_unbound_handler_logs', ['C18'], 'R18.c', (META, "                peri_ctx = {'exc_content': repr(e)}\n", "                full_ctx.setdefault('errors', []).append(repr(e))\n"))
B('k18_result_unbound_handler_stores_container', ['C18'], 'R18.c', (META, "            except Exception as e:\n                cur_general_items = []\n",
                                                                          "            except Exception as e:\n                cur['general_exc'] = repr(e)\n"))
B('k18_result_stale_default_before_loop', ['C18'], 'R18.c',
  (META, "        for peri in self.peripherals:\n            try:\n                peri_ctx = inject(peri.get_context, kwargs)\n            except Exception as e:\n                peri_ctx = {'exc_content': repr(e)}\n",
         "        peri_ctx = {}\n        for peri in self.peripherals:\n            try:\n                peri_ctx = inject(peri.get_context, kwargs)\n            except Exception as e:\n                full_ctx['exc_content'] = repr(e)\n"))
B('k18_result_unbound_in_helper', ['C18'], 'R18.c', (META, GMAIN, '''        for peri in self.peripherals:
            full_ctx.setdefault(peri.group_key, {}).update(self._peri_context(peri, kwargs, full_ctx))
        return full_ctx

    def _peri_context(self, peri, kwargs, full_ctx):
        try:
            peri_ctx = inject(peri.get_context, kwargs)
        except Exception as e:
            full_ctx.setdefault('errors', []).append(repr(e))
        return peri_ctx
'''))
T('k18_result_default_in_iteration', ['C18'], (META, GMAIN, '''        for peri in self.peripherals:
            peri_ctx = None
            try:
                peri_ctx = inject(peri.get_context, kwargs)
            except Exception as e:
                exc = repr(e)
            if peri_ctx is None:
                peri_ctx = {'exc_content': exc}
            full_ctx.setdefault(peri.group_key, {}).update(peri_ctx)
        return full_ctx
'''))
T('k18_result_handler_records_and_continues', ['C18'], (META, GMAIN, '''        for peri in self.peripherals:
            try:
                peri_ctx = inject(peri.get_context, kwargs)
            except Exception as e:
                full_ctx.setdefault(peri.group_key, {}).update({'exc_content': repr(e)})
                continue
            full_ctx.setdefault(peri.group_key, {}).update(peri_ctx)
        return full_ctx
'''))
T('k18_result_read_only_under_protection', ['C18'], (META, "                cur_general_items = inject(peri.get_general_items, kwargs)\n",
                                                       "                cur_general_items = inject(peri.get_general_items, dict(kwargs, title=cur_context.get('title')))\n"))
T('k18_result_helper_returns_both_ways', ['C18'], (META, GMAIN, '''        for peri in self.peripherals:
            full_ctx.setdefault(peri.group_key, {}).update(self._peri_context(peri, kwargs))
        return full_ctx

    def _peri_context(self, peri, kwargs):
        try:
            peri_ctx = inject(peri.get_context, kwargs)
        except Exception as e:
            peri_ctx = {'exc_content': repr(e)}
        return peri_ctx
'''))

# ---- R18.c: the handler catches exceptions of any class -- it reads from them only what every exception has ----------------
B('k18_handler_reads_message', ['C18'], 'R18.c', (META, "                peri_ctx = {'exc_content': repr(e)}\n", "                peri_ctx = {'exc_content': '%s: %s' % (type(e).__name__, e.message)}\n"))
B('k18_handler_reads_errno', ['C18'], 'R18.c', (META, "            except Exception as e:\n                cur['exc_content'] = repr(e)\n",
                                                      "            except Exception as e:\n                cur['exc_content'] = repr(e)\n                cur['exc_code'] = e.errno\n"))
B('k18_handler_helper_reads_code', ['C18'], 'R18.c', (META, "                peri_ctx = {'exc_content': repr(e)}\n", "                peri_ctx = {'exc_content': _exc_text(e)}\n"),
  (META, "def _process_items(all_items):", "def _exc_text(exc):\n    return '%s (%s)' % (repr(exc), exc.code)\n\n\ndef _process_items(all_items):"))
T('k18_handler_reads_args_and_class', ['C18'], (META, "                peri_ctx = {'exc_content': repr(e)}\n",
                                                  "                peri_ctx = {'exc_content': '%s%r' % (e.__class__.__name__, e.args)}\n"))
T('k18_handler_getattr_default', ['C18'], (META, "                peri_ctx = {'exc_content': repr(e)}\n",
                                              "                peri_ctx = {'exc_content': repr(e), 'exc_code': getattr(e, 'code', None)}\n"))
T('k18_handler_hasattr_guard', ['C18'], (META, "                peri_ctx = {'exc_content': repr(e)}\n",
                                            "                peri_ctx = {'exc_content': repr(e)}\n                if hasattr(e, 'code'):\n                    peri_ctx['exc_code'] = e.code\n"))
T('k18_handler_nested_try', ['C18'], (META, "                peri_ctx = {'exc_content': repr(e)}\n",
                                         "                peri_ctx = {'exc_content': repr(e)}\n                try:\n                    peri_ctx['exc_code'] = e.code\n                except AttributeError:\n                    pass\n"))

# ---- R18.a: glom(x, 'resources') / glom(x, T.resources) is the same read as x.resources ------------------------------------
T('k18_glom_string_spec', ['C18'], (META, "    for key, val in _application.resources.items():", "    for key, val in glom(_application, 'resources').items():"))
T('k18_glom_t_spec', ['C18'], (META, "    for key, val in _application.resources.items():", "    resources = glom(_application, T.resources)\n    for key, val in resources.items():"))
T('k18_glom_names_only', ['C18'], (META, "        elif arg in route.resources:", "        elif arg in glom(route, 'resources', default={}):"))
B('k18_glom_string_spec_unguarded', ['C18'], 'R18.a', (META, GRI, '''def get_resource_info(_application):
    ret = []
    for key, val in glom(_application, 'resources').items():
        ret.append({'key': key, 'value': _trunc(repr(val))})
    return ret
'''))
B('k18_glom_t_spec_values', ['C18'], 'R18.a', (META, "        return {'resources': get_resource_info(_application)}",
                                                   "        return {'resources': get_resource_info(_application), 'count': len(set(map(repr, glom(_application, T.resources).values())))}"))
B('k18_glom_path_through_mapping', ['C18'], 'R18.a', (META, "        return {'abs_start_time': str(start_time),", "        return {'db': repr(glom(_meta_application, 'resources.db_secret', default=None)), 'abs_start_time': str(start_time),"))
B('k18_glom_constant_spec_values', ['C18'], 'R18.a', (META, "DEFAULT_PAGE_TITLE = 'Clastic'\n", "DEFAULT_PAGE_TITLE = 'Clastic'\n_RES_SPEC = 'resources'\n"),
  (META, "        return {'middlewares': get_mw_infos(_application)}", "        return {'middlewares': get_mw_infos(_application), 'res': [repr(v) for v in glom(_application, _RES_SPEC).values()]}"))

# ---- R18.b: wherever a view holds one middleware of the host, only the harmless attributes are read; no view reads key material ----
B('k18_mw_key_read_in_route_arg_info', ['C18'], 'R18.b', (META, "                if arg in mw.provides:\n                    source = 'middleware'\n",
                                                                "                if arg in mw.provides:\n                    source = 'middleware'\n                    arg_src['mw_key'] = mw.secret_key\n"))
B('k18_mw_vars_in_route_infos', ['C18'], 'R18.b', (META, "        r_info['args'] = get_route_arg_info(r)\n",
                                                         "        r_info['args'] = get_route_arg_info(r)\n        r_info['mws'] = [sorted(vars(mw)) and repr(vars(mw)) for mw in r.middlewares]\n"))
B('k18_mw_key_read_by_index', ['C18'], 'R18.b', (META, "        return {'middlewares': get_mw_infos(_application)}",
                                                       "        return {'middlewares': get_mw_infos(_application), 'first_key': _application.middlewares[0].secret_key if _application.middlewares else None}"))
B('k18_mw_key_read_getattr', ['C18'], 'R18.b', (META, "        cur['repr'] = repr(mw)\n        ret.append(cur)\n    return ret\n",
                                                      "        cur['repr'] = repr(mw)\n        ret.append(cur)\n    ret.append({'key': getattr(_application.middlewares[-1], 'secret_key', None)})\n    return ret\n"))
T('k18_mw_provides_in_route_infos', ['C18'], (META, "        r_info['args'] = get_route_arg_info(r)\n",
                                                    "        r_info['args'] = get_route_arg_info(r)\n        r_info['mw_provides'] = [list(mw.provides) for mw in r.middlewares]\n"))
T('k18_mw_names_in_context', ['C18'], (META, "        return {'middlewares': get_mw_infos(_application)}",
                                             "        return {'middlewares': get_mw_infos(_application), 'mw_names': [mw.__class__.__name__ for mw in _application.middlewares]}"))

# ---- R18.a: no page context holds a *list* of host objects either ---------------------------------------------------------
B('k18_ctx_holds_route_list', ['C18'], 'R18.a', (META, "        return {'routes': get_route_infos(_application),", "        return {'routes': get_route_infos(_application), 'raw_routes': _application.routes,"))
B('k18_ctx_holds_mw_list_copy', ['C18'], 'R18.a', (META, "        return {'middlewares': get_mw_infos(_application)}",
                                                         "        mws = list(_application.middlewares)\n        return {'middlewares': get_mw_infos(_application), 'raw': mws}"))
B('k18_route_info_holds_mw_list', ['C18'], 'R18.a', (META, "        r_info['args'] = get_route_arg_info(r)\n", "        r_info['args'] = get_route_arg_info(r)\n        r_info['mws'] = r.middlewares\n"))
B('k18_ctx_holds_sorted_routes_local', ['C18'], 'R18.a', (META, GRIS, GRIS.replace("    ret = []\n", "    ret = []\n    routes = app.routes\n").replace(
    "    return ret\n", "    ret.append({'all': tuple(routes)})\n    return ret\n")))
T('k18_ctx_holds_route_count', ['C18'], (META, "        return {'routes': get_route_infos(_application),", "        return {'routes': get_route_infos(_application), 'route_count': len(_application.routes),"))
T('k18_route_info_holds_mw_reprs', ['C18'], (META, "        r_info['args'] = get_route_arg_info(r)\n", "        r_info['args'] = get_route_arg_info(r)\n        r_info['mws'] = [repr(mw) for mw in r.middlewares]\n"))

# ---- R18.c: the handler neither reads what only the protected block binds nor repeats one of its lookups --------------------
B('k18_handler_reads_try_bound_name', ['C18'], 'R18.c', (META, "            except Exception as e:\n                cur['exc_content'] = repr(e)\n",
                                                               "            except Exception as e:\n                cur['exc_content'] = repr(e)\n                cur['had_context'] = bool(cur_context)\n"))
B('k18_handler_extends_try_bound_name', ['C18'], 'R18.c', (META, "                peri_ctx = {'exc_content': repr(e)}\n", "                peri_ctx = dict(peri_ctx, exc_content=repr(e))\n"))
B('k18_handler_repeats_lookup_render', ['C18'], 'R18.c', (META, "            except Exception as e:\n                cur['exc_content'] = repr(e)\n",
                                                                "            except Exception as e:\n                cur['exc_content'] = repr(e)\n                context[peri.group_key]['failed'] = True\n"))
B('k18_handler_repeats_lookup_get_main', ['C18'], 'R18.c', (META, GMAIN, '''        for peri in self.peripherals:
            full_ctx.setdefault(peri.group_key, {})
            try:
                full_ctx[peri.group_key].update(inject(peri.get_context, kwargs))
            except Exception as e:
                full_ctx[peri.group_key].update({'exc_content': repr(e)})
        return full_ctx
'''.replace("full_ctx.setdefault(peri.group_key, {})\n            try:\n                full_ctx[peri.group_key]", "try:\n                full_ctx.setdefault(peri.group_key, {})\n                full_ctx[peri.group_key]")))
T('k18_handler_lookup_before_try', ['C18'], (META, GMAIN, '''        for peri in self.peripherals:
            group_ctx = full_ctx.setdefault(peri.group_key, {})
            try:
                group_ctx.update(inject(peri.get_context, kwargs))
            except Exception as e:
                group_ctx.update({'exc_content': repr(e)})
        return full_ctx
'''))
T('k18_handler_reads_name_bound_before_try', ['C18'], (META, "            try:\n                cur_context = context[peri.group_key]\n                kwargs = {'context': cur_context}\n",
                                                             "            cur_context = context.get(peri.group_key, {})\n            try:\n                kwargs = {'context': cur_context}\n"),
  (META, "            except Exception as e:\n                cur['exc_content'] = repr(e)\n", "            except Exception as e:\n                cur['exc_content'] = repr(e)\n                cur['had_context'] = bool(cur_context)\n"))
T('k18_handler_repeats_lookup_nested_try', ['C18'], (META, "            except Exception as e:\n                cur['exc_content'] = repr(e)\n",
                                                           "            except Exception as e:\n                cur['exc_content'] = repr(e)\n                try:\n                    context[peri.group_key]['failed'] = True\n                except KeyError:\n                    pass\n"))


# ---- the meta application itself lives in another module (meta.py imports it back at its end) ---------------------------------
_MAPP_HEADER = '''import datetime

from ..application import Application
from ..sinter import inject
from ..render import render_json, AshesRenderFactory
from ..middleware.url import ScriptRootMiddleware
from ..middleware.context import SimpleContextProcessor
from ..meta import DEFAULT_PERIPHERALS, DEFAULT_PAGE_TITLE, META_ASSETS_APP, _CUR_PATH

try:
    unicode
except NameError:
    unicode = str


'''
_MAPP = '''class MetaApplication(Application):
    def __init__(self, peripherals=None, page_title=DEFAULT_PAGE_TITLE,
                 base_peripherals=DEFAULT_PERIPHERALS):
        self.page_title = page_title
        self.peripherals = list(base_peripherals)
        self.peripherals.extend(peripherals or [])

        self._arf = AshesRenderFactory(_CUR_PATH, keep_whitespace=False)
        self._main_page_render = self._arf('meta_base.html')
        routes = [('/', self.get_main, self.render_main_page_html),
                  ('/clastic_assets/', META_ASSETS_APP),
                  ('/json/', self.get_main, render_json)]
        for peri in self.peripherals:
            routes.extend(peri.get_extra_routes())
        resources = {'_meta_start_time': datetime.datetime.utcnow(),
                     'page_title': page_title}

        mwares = [ScriptRootMiddleware(),
                  SimpleContextProcessor('script_root')]
        super(MetaApplication, self).__init__(routes, resources, mwares)

    def get_main(self, request, _application, _route, script_root):
        full_ctx = {'page_title': self.page_title}
        kwargs = {'request': request,
                  '_route': _route,
                  '_application': _application,
                  '_meta_application': self,
                  'script_root': script_root}
        for peri in self.peripherals:
            try:
                peri_ctx = inject(peri.get_context, kwargs)
            except Exception as e:
                peri_ctx = {'exc_content': repr(e)}
            full_ctx.setdefault(peri.group_key, {}).update(peri_ctx)
        return full_ctx

    def render_main_page_html(self, context):
        context['sections'] = []
        general_items = context['general'] = []

        for peri in self.peripherals:
            cur = {'title': peri.title,
                   'group_key': peri.group_key}
            try:
                cur_context = context[peri.group_key]
                kwargs = {'context': cur_context}
                cur['content'] = inject(peri.render_main_page_html, kwargs)

                prev_exc = cur_context.get('exc_content')
                if prev_exc:
                    cur['exc_content'] = prev_exc
            except Exception as e:
                cur['exc_content'] = repr(e)
            try:
                cur_general_items = inject(peri.get_general_items, kwargs)
                cur_general_items = _process_items(cur_general_items)
            except Exception as e:
                cur_general_items = []
            context['sections'].append(cur)
            general_items.extend(cur_general_items)
        return self._main_page_render(context)


def _process_items(all_items):
    """ Really, each key/value/key detail/value detail should have a
    human readable form and a machine readable form. That's a lot of
    keys, should probably do that later.
    """
    ret = []
    for item in all_items:
        cur = {}
        try:
            key, value = item
        except:
            try:
                key, value = item[0], item[1:]
            except:
                value = ''
                try:
                    key = repr(item)
                except:
                    key = 'unreprable object %s' % object.__repr__(key)
        if isinstance(key, (bytes, unicode)):
            cur['key'] = key
        else:
            try:
                cur['key'] = unicode(key[0])
                cur['key_detail'] = unicode(key[1])
            except:
                cur['key'] = unicode(key)
        if isinstance(value, (bytes, unicode)):
            cur['value'] = value
        else:
            try:
                cur['value'] = unicode(value[0])
                cur['value_detail'] = unicode(value[1])
            except:
                cur['value'] = str(value)
        ret.append(cur)
    return ret
'''
_MAPP_OUT = (META, r're:(?s)\nclass MetaApplication\(Application\):.*\Z', '\nfrom .contrib import MetaApplication, _process_items\n')
T('k18_mv_meta_application', ['C18'], _MAPP_OUT, (NEWMOD, '', _MAPP_HEADER + _MAPP))
B('k18_mv_meta_application_unprotected_context', ['C18'], 'R18.c', _MAPP_OUT, (NEWMOD, '', _MAPP_HEADER + _MAPP.replace(
    "            try:\n                peri_ctx = inject(peri.get_context, kwargs)\n            except Exception as e:\n                peri_ctx = {'exc_content': repr(e)}\n",
    "            peri_ctx = inject(peri.get_context, kwargs)\n")))
B('k18_mv_meta_application_general_items_unprotected', ['C18'], 'R18.c', _MAPP_OUT, (NEWMOD, '', _MAPP_HEADER + _MAPP.replace(
    "            try:\n                cur_general_items = inject(peri.get_general_items, kwargs)\n                cur_general_items = _process_items(cur_general_items)\n"
    "            except Exception as e:\n                cur_general_items = []\n",
    "            cur_general_items = _process_items(inject(peri.get_general_items, kwargs))\n")))
B('k18_mv_meta_application_other_main_template', ['C18'], 'R18.d', _MAPP_OUT, (NEWMOD, '', _MAPP_HEADER + _MAPP.replace("self._arf('meta_base.html')", "self._arf('meta_raw.html')")))
B('k18_mv_meta_application_reads_own_resources', ['C18'], 'R18.a', _MAPP_OUT, (NEWMOD, '', _MAPP_HEADER + _MAPP.replace(
    "        full_ctx = {'page_title': self.page_title}\n", "        full_ctx = {'page_title': self.page_title, 'res': dict(_application.resources)}\n")))

# a helper of another module called through the module (``from . import contrib as _views`` ... ``_views.helper(..)``)
_SHOWN = '''def _shown_value(key, val):
    if 'secret' in key:
        return '[REDACTED]'
    text = repr(val)
    return text if len(text) <= 70 else text[:67] + '...'


def _resource_rows(_application):
    return [{'key': key, 'value': _shown_value(key, val)} for key, val in _application.resources.items()]
'''
_IMP_VIEWS = (META, _IMPORT_ANCHOR, _IMPORT_ANCHOR + 'from . import contrib as _views\n')
T('k18_mv_row_helper_via_module', ['C18'], _IMP_VIEWS, (NEWMOD, '', _SHOWN), (META, GRI, '''def get_resource_info(_application):
    return [{'key': key, 'value': _views._shown_value(key, val)} for key, val in _application.resources.items()]
'''))
T('k18_mv_rows_helper_via_module', ['C18'], _IMP_VIEWS, (NEWMOD, '', _SHOWN), (META, GRI, '''def get_resource_info(_application):
    return _views._resource_rows(_application)
'''))
B('k18_mv_row_helper_via_module_leaks', ['C18'], 'R18.a', _IMP_VIEWS, (NEWMOD, '', _SHOWN.replace("    if 'secret' in key:\n        return '[REDACTED]'\n", "")), (META, GRI, '''def get_resource_info(_application):
    return [{'key': key, 'value': _views._shown_value(key, val)} for key, val in _application.resources.items()]
'''))
B('k18_mv_rows_helper_via_module_leaks', ['C18'], 'R18.a', _IMP_VIEWS, (NEWMOD, '', _SHOWN.replace("'value': _shown_value(key, val)}", "'value': repr(val)}")), (META, GRI, '''def get_resource_info(_application):
    return _views._resource_rows(_application)
'''))

# an accumulator that exists before the loop and is only updated in the protected block is not "the result of this iteration"
T('k18_result_accumulator_before_loop', ['C18'], (META, GMAIN, '''        n_ok = 0
        for peri in self.peripherals:
            try:
                peri_ctx = inject(peri.get_context, kwargs)
                n_ok += 1
            except Exception as e:
                peri_ctx = {'exc_content': repr(e)}
            full_ctx.setdefault(peri.group_key, {}).update(peri_ctx)
        full_ctx['page_title'] = '%s (%d sections)' % (self.page_title, n_ok)
        return full_ctx
'''))
T('k18_result_accumulator_read_in_loop', ['C18'], (META, GMAIN, '''        n_ok = 0
        for peri in self.peripherals:
            try:
                peri_ctx = inject(peri.get_context, kwargs)
                n_ok = n_ok + 1
            except Exception as e:
                peri_ctx = {'exc_content': repr(e)}
            full_ctx.setdefault(peri.group_key, {}).update(peri_ctx, sections_ok=n_ok)
        return full_ctx
'''))
# the 'secret' fragment / the marker as class-level constants: reading them is not reading key material
T('k18_fragment_in_constants_class', ['C18'], (META, "DEFAULT_PAGE_TITLE = 'Clastic'\n", "DEFAULT_PAGE_TITLE = 'Clastic'\n\n\nclass _Redaction(object):\n    SECRET_FRAGMENT = 'secret'\n    SECRET_MARK = '[REDACTED]'\n"),
  (META, "        if 'secret' in key:\n            trunc_val = '[REDACTED]'", "        if _Redaction.SECRET_FRAGMENT in key:\n            trunc_val = _Redaction.SECRET_MARK"))

# a method the tree defines for all peripherals is accepted outside a try only when its body *is* the fail-soft handler
_SAFE_METHOD = '''    def get_extra_routes(self):
        return []

    def safe_get_context(self, injectables):
        try:
            return inject(self.get_context, injectables)
        except Exception as e:
            return {'exc_content': '%r' % (e,)}
'''
_GMAIN_SAFE = '''        for peri in self.peripherals:
            peri_ctx = peri.safe_get_context(kwargs)
            full_ctx.setdefault(peri.group_key, {}).update(peri_ctx)
        return full_ctx
'''
B('k18_method_on_peripheral_prelude_unprotected', ['C18'], 'R18.c', (META, "    def get_extra_routes(self):\n        return []\n", _SAFE_METHOD.replace(
    "        try:\n            return inject(self.get_context, injectables)\n", "        injectables = dict(injectables, title=self.title.strip())\n        try:\n            return inject(self.get_context, injectables)\n")),
  (META, GMAIN, _GMAIN_SAFE))
B('k18_method_on_peripheral_narrow', ['C18'], 'R18.c', (META, "    def get_extra_routes(self):\n        return []\n", _SAFE_METHOD.replace("except Exception as e:", "except (KeyError, ValueError) as e:")),
  (META, GMAIN, _GMAIN_SAFE))
# .. the same with the peripheral classes in another module (the method is found through the classes meta.py imports)
T('k18_mv_method_on_peripheral', ['C18'], *_mv([TRUNC, GRI, MPERI, AMPERI, RPERI, BPERI], _PERI_NAMES, header='from ..sinter import inject\n' + _H_PERI,
                                              moved=[TRUNC, GRI, MPERI.replace("    def get_extra_routes(self):\n        return []\n", _SAFE_METHOD), AMPERI, RPERI, BPERI],
                                              extra=[(META, GMAIN, _GMAIN_SAFE)]))
B('k18_mv_method_on_peripheral_reraises', ['C18'], 'R18.c', *_mv([TRUNC, GRI, MPERI, AMPERI, RPERI, BPERI], _PERI_NAMES, header='from ..sinter import inject\n' + _H_PERI,
                                                               moved=[TRUNC, GRI, MPERI.replace("    def get_extra_routes(self):\n        return []\n", _SAFE_METHOD.replace(
                                                                   "            return {'exc_content': '%r' % (e,)}", "            raise RuntimeError('%r' % (e,))")), AMPERI, RPERI, BPERI],
                                                               extra=[(META, GMAIN, _GMAIN_SAFE)]))
B('k18_mv_method_on_peripheral_no_handler', ['C18'], 'R18.c', *_mv([TRUNC, GRI, MPERI, AMPERI, RPERI, BPERI], _PERI_NAMES, header='from ..sinter import inject\n' + _H_PERI,
                                                                 moved=[TRUNC, GRI, MPERI.replace("    def get_extra_routes(self):\n        return []\n",
                                                                                                  "    def get_extra_routes(self):\n        return []\n\n    def safe_get_context(self, injectables):\n        return inject(self.get_context, injectables)\n"),
                                                                        AMPERI, RPERI, BPERI],
                                                                 extra=[(META, GMAIN, _GMAIN_SAFE)]))

# ---- R18.c: whether a section is computed depends on the peripheral alone (never on what other sections left behind) ----------
_RENDER_TRY = ("                cur['content'] = inject(peri.render_main_page_html, kwargs)\n\n                prev_exc = cur_context.get('exc_content')\n"
               "                if prev_exc:\n                    cur['exc_content'] = prev_exc\n")
B('k18_render_skipped_when_group_failed', ['C18'], 'R18.c', (META, _RENDER_TRY,
  "                if not cur_context.get('exc_content'):\n                    cur['content'] = inject(peri.render_main_page_html, kwargs)\n                else:\n                    cur['exc_content'] = cur_context['exc_content']\n"))
B('k18_context_only_for_first_of_group', ['C18'], 'R18.c', (META, GMAIN, '''        for peri in self.peripherals:
            known = peri.group_key in full_ctx
            try:
                peri_ctx = {} if known else inject(peri.get_context, kwargs)
            except Exception as e:
                peri_ctx = {'exc_content': repr(e)}
            full_ctx.setdefault(peri.group_key, {}).update(peri_ctx)
        return full_ctx
'''))
B('k18_context_skipped_after_first_failure', ['C18'], 'R18.c', (META, GMAIN, '''        failed = False
        for peri in self.peripherals:
            peri_ctx = {}
            try:
                if not failed:
                    peri_ctx = inject(peri.get_context, kwargs)
            except Exception as e:
                failed = True
                peri_ctx = {'exc_content': repr(e)}
            full_ctx.setdefault(peri.group_key, {}).update(peri_ctx)
        return full_ctx
'''))
B('k18_general_items_guarded_by_continue', ['C18'], 'R18.c', (META, "            try:\n                cur_general_items = inject(peri.get_general_items, kwargs)\n",
  "            if cur.get('exc_content'):\n                context['sections'].append(cur)\n                continue\n            try:\n                cur_general_items = inject(peri.get_general_items, kwargs)\n"))
B('k18_helper_skips_when_context_has_error', ['C18'], 'R18.c', (META, GMAIN, '''        for peri in self.peripherals:
            full_ctx.setdefault(peri.group_key, {}).update(self._peri_context(peri, kwargs, full_ctx))
        return full_ctx

    def _peri_context(self, peri, kwargs, full_ctx):
        if 'exc_content' in full_ctx.get(peri.group_key, {}):
            return {}
        try:
            return inject(peri.get_context, kwargs)
        except Exception as e:
            return {'exc_content': repr(e)}
'''))
T('k18_render_guarded_by_peripheral_attribute', ['C18'], (META, "                cur['content'] = inject(peri.render_main_page_html, kwargs)\n",
  "                if getattr(peri, 'renders_html', True):\n                    cur['content'] = inject(peri.render_main_page_html, kwargs)\n"))
T('k18_context_guarded_by_named_peripheral_test', ['C18'], (META, GMAIN, '''        for peri in self.peripherals:
            has_context = callable(getattr(peri, 'get_context', None))
            try:
                peri_ctx = inject(peri.get_context, kwargs) if has_context else {}
            except Exception as e:
                peri_ctx = {'exc_content': repr(e)}
            full_ctx.setdefault(peri.group_key, {}).update(peri_ctx)
        return full_ctx
'''))
T('k18_context_guarded_by_configuration', ['C18'], (META, "        self.page_title = page_title\n", "        self.page_title = page_title\n        self.skip_groups = ()\n"),
  (META, GMAIN, '''        for peri in self.peripherals:
            if peri.group_key in self.skip_groups:
                continue
            try:
                peri_ctx = inject(peri.get_context, kwargs)
            except Exception as e:
                peri_ctx = {'exc_content': repr(e)}
            full_ctx.setdefault(peri.group_key, {}).update(peri_ctx)
        return full_ctx
'''))
T('k18_helper_guarded_by_peripheral_param', ['C18'], (META, GMAIN, '''        for peri in self.peripherals:
            full_ctx.setdefault(peri.group_key, {}).update(self._peri_context(peri, kwargs))
        return full_ctx

    def _peri_context(self, peri, kwargs):
        if not hasattr(peri, 'get_context'):
            return {}
        try:
            return inject(peri.get_context, kwargs)
        except Exception as e:
            return {'exc_content': repr(e)}
'''))
T('k18_second_call_guarded_by_own_result', ['C18'], (META, "            try:\n                cur_general_items = inject(peri.get_general_items, kwargs)\n",
  "            try:\n                wants = inject(peri.render_main_page_html, kwargs) is not None\n                cur_general_items = inject(peri.get_general_items, kwargs) if wants else []\n"))
T('k18_context_guarded_by_configuration_local', ['C18'], (META, "        self.page_title = page_title\n", "        self.page_title = page_title\n        self.skip_groups = ()\n"),
  (META, GMAIN, '''        skipped = self.skip_groups
        for peri in self.peripherals:
            if peri.group_key in skipped:
                continue
            try:
                peri_ctx = inject(peri.get_context, kwargs)
            except Exception as e:
                peri_ctx = {'exc_content': repr(e)}
            full_ctx.setdefault(peri.group_key, {}).update(peri_ctx)
        return full_ctx
'''))
B('k18_context_skipped_for_seen_groups', ['C18'], 'R18.c', (META, GMAIN, '''        seen = set()
        for peri in self.peripherals:
            if peri.group_key in seen:
                continue
            seen.add(peri.group_key)
            try:
                peri_ctx = inject(peri.get_context, kwargs)
            except Exception as e:
                peri_ctx = {'exc_content': repr(e)}
            full_ctx.setdefault(peri.group_key, {}).update(peri_ctx)
        return full_ctx
'''))

# ---- R18.d: what the resource listing produces is what its section template shows (table agreement) --------------------------
RES_TPL = 'clastic/meta_resource_section.html'
B('k18_listing_row_key_renamed', ['C18'], 'R18.d', (META, "        ret.append({'key': key, 'value': trunc_val})", "        ret.append({'key': key, 'val': trunc_val})"))
B('k18_listing_context_key_renamed', ['C18'], 'R18.d', (META, "        return {'resources': get_resource_info(_application)}", "        return {'resource_list': get_resource_info(_application)}"))
B('k18_listing_template_other_column', ['C18'], 'R18.d', (RES_TPL, "{.value}", "{.val}"))
B('k18_listing_template_drops_value', ['C18'], 'R18.d', (RES_TPL, "<td>{.key}</td><td>{.value}</td>", "<td>{.key}</td>"))
B('k18_listing_template_other_section', ['C18'], 'R18.d', (RES_TPL, "  {#resources}\n", "  {#resource_list}\n"), (RES_TPL, "  {/resources}\n</table>", "  {/resource_list}\n</table>"))
B('k18_listing_rows_by_helper_key_renamed', ['C18'], 'R18.d', (META, GRI, '''def _resource_row(name, shown):
    return {'name': name, 'value': shown}


def get_resource_info(_application):
    ret = []
    for key, val in _application.resources.items():
        ret.append(_resource_row(key, '[REDACTED]' if 'secret' in key else _trunc(repr(val))))
    return ret
'''))
T('k18_listing_renamed_consistently', ['C18'], (META, "        ret.append({'key': key, 'value': trunc_val})", "        ret.append({'key': key, 'shown': trunc_val})"),
  (RES_TPL, "{.value}", "{.shown}"))
T('k18_listing_rows_dict_call', ['C18'], (META, "        ret.append({'key': key, 'value': trunc_val})", "        ret.append(dict(key=key, value=trunc_val))"))
T('k18_listing_rows_slot_by_slot', ['C18'], (META, "        ret.append({'key': key, 'value': trunc_val})", "        row = {}\n        row['key'] = key\n        row['value'] = trunc_val\n        ret.append(row)"))
T('k18_listing_rows_by_helper', ['C18'], (META, GRI, '''def _resource_row(name, shown):
    return {'key': name, 'value': shown}


def get_resource_info(_application):
    ret = []
    for key, val in _application.resources.items():
        ret.append(_resource_row(key, '[REDACTED]' if 'secret' in key else _trunc(repr(val))))
    return ret
'''))
T('k18_listing_context_via_local', ['C18'], (META, "        return {'resources': get_resource_info(_application)}", "        rows = get_resource_info(_application)\n        ctx = {}\n        ctx['resources'] = rows\n        return ctx"))
# (what the framework injects into the routed view -- an argument of the URL -- is the same for every section)
T('k18_context_guarded_by_view_argument', ['C18'], (META, GMAIN, '''        wanted = request.args.get('group')
        for peri in self.peripherals:
            if wanted and peri.group_key != wanted:
                continue
            try:
                peri_ctx = inject(peri.get_context, kwargs)
            except Exception as e:
                peri_ctx = {'exc_content': repr(e)}
            full_ctx.setdefault(peri.group_key, {}).update(peri_ctx)
        return full_ctx
'''))
T('k18_listing_rows_namedtuple', ['C18'], (META, "DEFAULT_PAGE_TITLE = 'Clastic'\n", "DEFAULT_PAGE_TITLE = 'Clastic'\n_ResourceRow = __import__('collections').namedtuple('_ResourceRow', 'key value')\n"),
  (META, "        ret.append({'key': key, 'value': trunc_val})", "        ret.append(_ResourceRow(key, trunc_val)._asdict())"))
T('k18_listing_rows_zip_keys_constant', ['C18'], (META, "DEFAULT_PAGE_TITLE = 'Clastic'\n", "DEFAULT_PAGE_TITLE = 'Clastic'\n_ROW_KEYS = ('key', 'value')\n"),
  (META, "        ret.append({'key': key, 'value': trunc_val})", "        ret.append(dict(zip(_ROW_KEYS, (key, trunc_val))))"))
B('k18_listing_rows_zip_keys_constant_renamed', ['C18'], 'R18.d', (META, "DEFAULT_PAGE_TITLE = 'Clastic'\n", "DEFAULT_PAGE_TITLE = 'Clastic'\n_ROW_KEYS = ('name', 'shown')\n"),
  (META, "        ret.append({'key': key, 'value': trunc_val})", "        ret.append(dict(zip(_ROW_KEYS, (key, trunc_val))))"))


# ---------------------------------------------------------------------------------------------------------------- round g
# R18.f provenance: a value the views take by *name* through the injector can be an object of the host (the dispatching
# application's resources are layered over the meta application's own at request time -- read from BoundRoute.execute /
# Application.dispatch); it reaches a page context only as a text / after a type test, or is read from the meta
# application's own attribute instead.  (script_root is bound by the meta application's own middleware: exempt.)
_GM_SIG = "    def get_main(self, request, _application, _route, script_root):\n"
_GM_CTX = "        full_ctx = {'page_title': self.page_title}\n"
_GM_KW = "                  'script_root': script_root}\n        for peri in self.peripherals:"
_BP_CTX = "    def get_context(self, _meta_application):\n        start_time = _meta_application.resources['_meta_start_time']\n        return {'abs_start_time': str(start_time),\n"
B('k18g_injected_title_in_context', ['C18'], 'R18.f', (META, _GM_SIG, "    def get_main(self, request, _application, _route, script_root, page_title):\n"),
  (META, _GM_CTX, "        full_ctx = {'page_title': page_title}\n"))
B('k18g_injected_title_stored_later', ['C18'], 'R18.f', (META, _GM_SIG, "    def get_main(self, request, _application, _route, script_root, page_title):\n"),
  (META, "        return full_ctx\n", "        full_ctx['window_title'] = page_title\n        return full_ctx\n"))
B('k18g_injected_start_time_in_context', ['C18'], 'R18.f', (META, _GM_SIG, "    def get_main(self, request, _application, _route, script_root, _meta_start_time):\n"),
  (META, _GM_CTX, "        full_ctx = {'page_title': self.page_title}\n        full_ctx.setdefault('started', _meta_start_time)\n"))
B('k18g_injected_foreign_name_in_context', ['C18'], 'R18.f', (META, _GM_SIG, "    def get_main(self, request, _application, _route, script_root, site_name=None):\n"),
  (META, _GM_CTX, "        full_ctx = {'page_title': self.page_title, 'site': [site_name]}\n"))
B('k18g_injected_title_handed_to_peripheral', ['C18'], 'R18.f', (META, _GM_SIG, "    def get_main(self, request, _application, _route, script_root, page_title):\n"),
  (META, _GM_KW, "                  'script_root': script_root,\n                  'page_title': page_title}\n        for peri in self.peripherals:"),
  (META, _BP_CTX, "    def get_context(self, _meta_application, page_title):\n        start_time = _meta_application.resources['_meta_start_time']\n"
                  "        return {'abs_start_time': str(start_time), 'title': page_title,\n"))
B('k18g_injected_title_one_arm_converted', ['C18'], 'R18.f', (META, _GM_SIG, "    def get_main(self, request, _application, _route, script_root, page_title):\n"),
  (META, _GM_CTX, "        full_ctx = {'page_title': page_title if page_title else repr(page_title)}\n"))
T('k18g_injected_title_as_text', ['C18'], (META, _GM_SIG, "    def get_main(self, request, _application, _route, script_root, page_title):\n"),
  (META, _GM_CTX, "        full_ctx = {'page_title': '%s' % (page_title,)}\n"))
T('k18g_injected_title_rebound_as_text', ['C18'], (META, _GM_SIG, "    def get_main(self, request, _application, _route, script_root, page_title):\n"),
  (META, _GM_CTX, "        page_title = repr(page_title)\n        full_ctx = {'page_title': page_title}\n"))
T('k18g_injected_title_type_tested', ['C18'], (META, _GM_SIG, "    def get_main(self, request, _application, _route, script_root, page_title):\n"),
  (META, _GM_CTX, "        full_ctx = {'page_title': page_title if isinstance(page_title, str) else self.page_title}\n"))
T('k18g_injected_title_unused_in_context', ['C18'], (META, _GM_SIG, "    def get_main(self, request, _application, _route, script_root, page_title):\n"),
  (META, _GM_CTX, "        full_ctx = {'page_title': self.page_title, 'title_overridden': page_title is not self.page_title}\n"))
T('k18g_injected_title_handed_to_peripheral_as_text', ['C18'], (META, _GM_SIG, "    def get_main(self, request, _application, _route, script_root, page_title):\n"),
  (META, _GM_KW, "                  'script_root': script_root,\n                  'page_title': str(page_title)}\n        for peri in self.peripherals:"),
  (META, _BP_CTX, "    def get_context(self, _meta_application, page_title):\n        start_time = _meta_application.resources['_meta_start_time']\n"
                  "        return {'abs_start_time': str(start_time), 'title': page_title,\n"))
T('k18g_script_root_from_own_middleware', ['C18'], (META, _GM_CTX, "        full_ctx = {'page_title': self.page_title, 'script_root': script_root}\n"))
# the layering is read, not assumed: with the bound route's own resources applied last the meta application's own title
# cannot be shadowed (a different framework, judged by other properties) ...
_EXEC_LAYERS = "        injectables.update(self.resources)\n        injectables.update(kwargs)\n        return inject(self._execute, injectables)\n"
T('k18g_own_resources_applied_last', ['C18'], ('clastic/route.py', _EXEC_LAYERS, "        injectables.update(kwargs)\n        injectables.update(self.resources)\n        return inject(self._execute, injectables)\n"),
  (META, _GM_SIG, "    def get_main(self, request, _application, _route, script_root, page_title):\n"),
  (META, _GM_CTX, "        full_ctx = {'page_title': page_title}\n"))
# ... and an equivalent spelling of today's layering keeps the judgement
B('k18g_layers_spelled_as_one_dict', ['C18'], 'R18.f', ('clastic/route.py', _EXEC_LAYERS, "        injectables = dict(injectables, **self.resources)\n        return inject(self._execute, dict(injectables, **kwargs))\n"),
  (META, _GM_SIG, "    def get_main(self, request, _application, _route, script_root, page_title):\n"),
  (META, _GM_CTX, "        full_ctx = {'page_title': page_title}\n"))
