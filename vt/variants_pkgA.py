"""Variants of package A (C01..C04): the kinds of behaviour-preserving rewrites the chain rules were taught to follow
(T), and breaking edits in those new shapes that must still be caught by the named rule (B)."""
from .variants import B, T, S, C, R, A, E, ST, CK, STATS, GZ, CC, PF, RS, FL, META, CE

ALL4 = ['C01', 'C02', 'C03', 'C04']

# ------------------------------------------------------------------ sinter.make_chain / compile_chain
_MK_OLD = ("    reqs, opts = chain_argspec(funcs + [final_func],\n"
           "                               provides + [()], inner_name)\n")
_MK_CALL_OLD = ("    chain = compile_chain(funcs + [final_func],\n"
                "                          [args] + provides, inner_name)\n")
T('pkgA_twin_make_chain_named_lists', ['C01', 'C02', 'C03'],
  (S, _MK_OLD, "    chain_funcs = funcs + [final_func]\n    reqs, opts = chain_argspec(func_list=chain_funcs, provides=provides + [()], inner_name=inner_name)\n"),
  (S, _MK_CALL_OLD, "    level_params = [args] + provides\n    chain = compile_chain(chain_funcs, level_params, inner_name)\n"))
T('pkgA_twin_make_chain_starred', ['C01', 'C02', 'C03'],
  (S, _MK_OLD, "    reqs, opts = chain_argspec([*funcs, final_func], [*provides, ()], inner_name)\n"),
  (S, _MK_CALL_OLD, "    chain = compile_chain([*funcs, final_func], [args, *provides], inner_name)\n"))
B('pkgA_make_chain_params_misaligned', ['C01'], 'R01.f',
  (S, _MK_CALL_OLD, "    level_params = provides + [args]\n    chain = compile_chain(funcs + [final_func], level_params, inner_name)\n"))
T('pkgA_twin_compile_chain_named_env', ['C01', 'C02', 'C03'],
  (S, "    return compile_code(call_str, inner_name, {'funcs': funcs}, verbose=verbose)",
      "    chain_env = {'funcs': funcs}\n    return compile_code(call_str, name=inner_name, env=chain_env, verbose=verbose)"))
B('pkgA_compile_chain_env_copy_of_other', ['C01'], 'R01.f',
  (S, "    return compile_code(call_str, inner_name, {'funcs': funcs}, verbose=verbose)",
      "    chain_env = {'funcs': params}\n    return compile_code(call_str, name=inner_name, env=chain_env, verbose=verbose)"))
T('pkgA_twin_argspec_named_predicate', ['C01'],
  (S, "        defaults_dict = fb.get_defaults_dict()\n\n        defaulted, undefaulted = iterutils.partition(arg_names, key=defaults_dict.__contains__)\n",
      "        has_default = fb.get_defaults_dict().__contains__\n\n        defaulted, undefaulted = iterutils.partition(arg_names, key=has_default)\n"))

# ------------------------------------------------------------------ sinter.build_chain_str (generated level)
_BCS_ARGS_OLD = ("    params_sofar.update(params[0])\n"
                 "    inner_args = get_fb(funcs[0]).get_arg_names()\n"
                 "    inner_arg_dict = dict([(a, a) for a in inner_args])\n"
                 "    inner_arg_items = sorted(inner_arg_dict.items())\n"
                 "    inner_args = ', '.join(['%s=%s' % kv for kv in inner_arg_items\n"
                 "                           if kv[0] in params_sofar])\n")
_BCS_ARGS_ALIASED = ("    cur_func, cur_params = funcs[0], params[0]\n"
                     "    params_sofar.update(cur_params)\n"
                     "    accepted_names = set(get_fb(cur_func).get_arg_names())\n"
                     "    passed_names = sorted([name for name in accepted_names if name in params_sofar])\n"
                     "    inner_args = ', '.join(['%s=%s' % (name, name) for name in passed_names])\n")
T('pkgA_twin_level_aliases_and_named_filter', ['C01', 'C02', 'C03'], (S, _BCS_ARGS_OLD, _BCS_ARGS_ALIASED))
B('pkgA_level_filter_after_recursion', ['C01', 'C02', 'C03'], {'C01': 'R01.f', 'C02': 'R02.b', 'C03': 'R03.b'},
  (S, _BCS_ARGS_OLD, "    params_sofar.update(params[0])\n"),
  (S, "    htb_str = '%s__traceback_hide__ = True\\n' % (inner_indent,)\n",
      "    htb_str = '%s__traceback_hide__ = True\\n' % (inner_indent,)\n"
      "    passed_names = sorted([name for name in get_fb(funcs[0]).get_arg_names() if name in params_sofar])\n"
      "    inner_args = ', '.join(['%s=%s' % (name, name) for name in passed_names])\n"))
B('pkgA_level_sorted_def_params', ['C01', 'C02', 'C03'], {'C01': 'R01.f', 'C02': 'R02.b', 'C03': 'R03.b'},
  (S, "    outer_arg_str = ', '.join(params[0])\n", "    outer_arg_str = ', '.join(sorted(params[0]))\n"))
_BCS_TAIL_OLD = ("    def_str = '%sdef %s(%s):\\n' % (outer_indent, inner_name, outer_arg_str)\n"
                 "    body_str = build_chain_str(funcs[1:], params[1:], inner_name, params_sofar, level + 1)\n"
                 "    #func_name = get_func_name(funcs[0])\n"
                 "    #func_alias = get_inner_func_alias(funcs[0])\n"
                 "    htb_str = '%s__traceback_hide__ = True\\n' % (inner_indent,)\n"
                 "    return_str = '%sreturn funcs[%s](%s)\\n' % (inner_indent, level, inner_args)\n"
                 "    return ''.join([def_str, body_str, htb_str + return_str])\n")
T('pkgA_twin_level_format_positional', ['C01', 'C02', 'C03'],
  (S, _BCS_TAIL_OLD,
      "    def_str = '{0}def {1}({2}):\\n'.format(outer_indent, inner_name, outer_arg_str)\n"
      "    body_str = build_chain_str(funcs[1:], params[1:], inner_name, params_sofar=params_sofar, level=level + 1)\n"
      "    htb_str = '{}__traceback_hide__ = True\\n'.format(inner_indent)\n"
      "    return_str = '{0}return funcs[{1}]({2})\\n'.format(inner_indent, level, inner_args)\n"
      "    return def_str + body_str + htb_str + return_str\n"))
T('pkgA_twin_level_lines_list', ['C01', 'C02', 'C03'],
  (S, _BCS_TAIL_OLD,
      "    lines = ['%sdef %s(%s):\\n' % (outer_indent, inner_name, outer_arg_str)]\n"
      "    lines.append(build_chain_str(funcs=funcs[1:], params=params[1:], inner_name=inner_name,\n"
      "                                 params_sofar=params_sofar, level=level + 1))\n"
      "    lines.append('%s__traceback_hide__ = True\\n' % (inner_indent,))\n"
      "    lines.append('%sreturn funcs[%s](%s)\\n' % (inner_indent, level, inner_args))\n"
      "    return ''.join(lines)\n"))
B('pkgA_level_lines_call_before_nested_def', ['C03'], 'R03.a',
  (S, _BCS_TAIL_OLD,
      "    lines = ['%sdef %s(%s):\\n' % (outer_indent, inner_name, outer_arg_str)]\n"
      "    lines.append('%s__traceback_hide__ = True\\n' % (inner_indent,))\n"
      "    lines.append('%sreturn funcs[%s](%s)\\n' % (inner_indent, level, inner_args))\n"
      "    lines.append(build_chain_str(funcs=funcs[1:], params=params[1:], inner_name=inner_name,\n"
      "                                 params_sofar=params_sofar, level=level + 1))\n"
      "    return ''.join(lines)\n"))
# the recursion written as a depth loop: heads in order, tails reversed
_BCS_LOOP_OLD = _BCS_ARGS_OLD + ("    outer_indent = _INDENT * level\n"
                                 "    inner_indent = outer_indent + _INDENT\n"
                                 "    outer_arg_str = ', '.join(params[0])\n") + _BCS_TAIL_OLD
_BCS_LOOP = ("    def_strs = []\n"
             "    tail_strs = []\n"
             "    for depth in range(len(funcs)):\n"
             "        cur_level = level + depth\n"
             "        cur_params = params[depth]\n"
             "%s"
             "        outer_indent = _INDENT * cur_level\n"
             "        inner_indent = outer_indent + _INDENT\n"
             "        def_strs.append('%%sdef %%s(%%s):\\n' %% (outer_indent, inner_name, ', '.join(cur_params)))\n"
             "        tail_strs.append('%%s__traceback_hide__ = True\\n%%sreturn funcs[%%s](%%s)\\n'\n"
             "                         %% (inner_indent, inner_indent, cur_level, call_kwargs))\n"
             "    return ''.join(def_strs + tail_strs[::-1])\n")
_LOOP_OK = ("        params_sofar.update(cur_params)\n"
            "        arg_names = sorted(set(get_fb(funcs[depth]).get_arg_names()))\n"
            "        call_kwargs = ', '.join(['%s=%s' % (name, name) for name in arg_names if name in params_sofar])\n")
_LOOP_LATE_UPDATE = ("        arg_names = sorted(set(get_fb(funcs[depth]).get_arg_names()))\n"
                     "        call_kwargs = ', '.join(['%s=%s' % (name, name) for name in arg_names if name in params_sofar])\n"
                     "        params_sofar.update(cur_params)\n")
T('pkgA_twin_level_depth_loop', ['C01', 'C02', 'C03'], (S, _BCS_LOOP_OLD, _BCS_LOOP % _LOOP_OK))
B('pkgA_level_depth_loop_update_after_filter', ['C01', 'C02', 'C03'], {'C01': 'R01.f', 'C02': 'R02.b', 'C03': 'R03.b'},
  (S, _BCS_LOOP_OLD, _BCS_LOOP % _LOOP_LATE_UPDATE))

# ------------------------------------------------------------------ core._create_request_inner
_CRI_OLD = ("    all_args_str = ','.join(all_args)\n"
            "    ep_args_str = _named_arg_str(endpoint_args)\n"
            "    rn_args_str = _named_arg_str(render_args)\n"
            "\n"
            "    code_str = _REQ_INNER_TMPL.format(all_args=all_args_str,\n"
            "                                      endpoint_args=ep_args_str,\n"
            "                                      render_args=rn_args_str)\n"
            "    env = {'endpoint': endpoint, 'render': render, 'BaseResponse': BaseResponse}\n")
T('pkgA_twin_request_core_fields_dict', ['C02', 'C03'],
  (C, _CRI_OLD,
      "    tmpl_fields = {\n"
      "        'all_args': ','.join(all_args),\n"
      "        'endpoint_args': _named_arg_str(endpoint_args),\n"
      "        'render_args': _named_arg_str(render_args),\n"
      "    }\n"
      "    code_str = _REQ_INNER_TMPL.format(**tmpl_fields)\n"
      "    env = dict(endpoint=endpoint, render=render, BaseResponse=BaseResponse)\n"))
B('pkgA_request_core_fields_swapped', ['C02', 'C03'], {'C02': 'R02.a', 'C03': 'R03.c'},
  (C, _CRI_OLD,
      "    tmpl_fields = {\n"
      "        'all_args': ','.join(all_args),\n"
      "        'endpoint_args': _named_arg_str(render_args),\n"
      "        'render_args': _named_arg_str(endpoint_args),\n"
      "    }\n"
      "    code_str = _REQ_INNER_TMPL.format(**tmpl_fields)\n"
      "    env = dict(endpoint=endpoint, render=render, BaseResponse=BaseResponse)\n"))
B('pkgA_request_core_env_kw_swapped', ['C03'], 'R03.c',
  (C, "    env = {'endpoint': endpoint, 'render': render, 'BaseResponse': BaseResponse}\n",
      "    env = dict(endpoint=render, render=endpoint, BaseResponse=BaseResponse)\n"))

# ------------------------------------------------------------------ core.make_middleware_chain
_NEXT_OLD = ("    if 'next' in get_arg_names(endpoint):\n"
             "        raise NameError(_next_exc_msg % endpoint)\n"
             "    if 'next' in get_arg_names(render):\n"
             "        raise NameError(_next_exc_msg % render)\n")
T('pkgA_twin_next_test_loop', ['C01', 'C04'],
  (C, _NEXT_OLD, "    for final_func in (endpoint, render):\n        if _INNER_NAME in get_arg_names(final_func):\n"
                 "            raise NameError(_next_exc_msg % final_func)\n"))
B('pkgA_next_test_loop_endpoint_only', ['C01', 'C04'], {'C01': 'R01.b', 'C04': 'R04.e'},
  (C, _NEXT_OLD, "    for final_func in (endpoint, endpoint):\n        if _INNER_NAME in get_arg_names(final_func):\n"
                 "            raise NameError(_next_exc_msg % final_func)\n"))
_REQ_SIGS_OLD = ("    req_sigs = [(mw.request, mw.provides)\n"
                 "                for mw in middlewares if mw.request]\n"
                 "    req_funcs, req_provides = list(zip(*req_sigs)) or ((), ())\n")
_EP_SIGS_OLD = ("    ep_sigs = [(mw.endpoint, mw.endpoint_provides)\n"
                "               for mw in middlewares if mw.endpoint]\n"
                "    ep_funcs, ep_provides = list(zip(*ep_sigs)) or ((), ())\n")
_RN_SIGS_OLD = ("    rn_sigs = [(mw.render, mw.render_provides)\n"
                "               for mw in middlewares if mw.render]\n"
                "    rn_funcs, rn_provides = list(zip(*rn_sigs)) or ((), ())\n")
_SPLIT_HELPER = ("\n\ndef _split_phase(middlewares, func_attr, provides_attr):\n"
                 "    sigs = [(getattr(mw, func_attr), getattr(mw, provides_attr))\n"
                 "            for mw in middlewares if getattr(mw, func_attr)]\n"
                 "    if not sigs:\n"
                 "        return (), ()\n"
                 "    funcs, provides = zip(*sigs)\n"
                 "    return funcs, provides\n"
                 "\n\n_REQ_INNER_TMPL = \\\n")
T('pkgA_twin_phase_split_helper', ALL4,
  (C, _REQ_SIGS_OLD, "    req_funcs, req_provides = _split_phase(middlewares, 'request', 'provides')\n"),
  (C, _EP_SIGS_OLD, "    ep_funcs, ep_provides = _split_phase(middlewares, 'endpoint', 'endpoint_provides')\n"),
  (C, _RN_SIGS_OLD, "    rn_funcs, rn_provides = _split_phase(middlewares, 'render', 'render_provides')\n"),
  (C, "\n\n_REQ_INNER_TMPL = \\\n", _SPLIT_HELPER))
B('pkgA_phase_split_helper_wrong_provides', ['C01', 'C03'], {'C01': 'R01.d', 'C03': 'R03.d'},
  (C, _REQ_SIGS_OLD, "    req_funcs, req_provides = _split_phase(middlewares, 'request', 'provides')\n"),
  (C, _EP_SIGS_OLD, "    ep_funcs, ep_provides = _split_phase(middlewares, 'endpoint', 'provides')\n"),
  (C, _RN_SIGS_OLD, "    rn_funcs, rn_provides = _split_phase(middlewares, 'render', 'render_provides')\n"),
  (C, "\n\n_REQ_INNER_TMPL = \\\n", _SPLIT_HELPER))
_EP_UNRES_OLD = ("    if ep_unres:\n"
                 "        raise NameError(\"unresolved endpoint middleware arguments: %r\"\n"
                 "                        % list(ep_unres))\n")
_CHECK_RESOLVED = ("\n\ndef _check_resolved(phase, unresolved):\n"
                   "    if not unresolved:\n"
                   "        return\n"
                   "    raise NameError('unresolved %s middleware arguments: %r' % (phase, list(unresolved)))\n"
                   "\n\n_REQ_INNER_TMPL = \\\n")
T('pkgA_twin_unresolved_guard_helper', ['C01', 'C04'],
  (C, _EP_UNRES_OLD, "    _check_resolved('endpoint', ep_unres)\n"),
  (C, "\n\n_REQ_INNER_TMPL = \\\n", _CHECK_RESOLVED))
B('pkgA_unresolved_guard_helper_inverted', ['C01', 'C04'], {'C01': 'R01.b', 'C04': 'R04.e'},
  (C, _EP_UNRES_OLD, "    _check_resolved('endpoint', ep_unres)\n"),
  (C, "\n\n_REQ_INNER_TMPL = \\\n", _CHECK_RESOLVED.replace('    if not unresolved:\n', '    if unresolved:\n')))
T('pkgA_twin_avail_constants_and_methods', ['C01', 'C04'],
  (C, "    req_avail = set(preprovided) - set(['next', 'context'])\n", "    req_avail = set(preprovided).difference({_INNER_NAME, _CONTEXT_NAME})\n"),
  (C, "    rn_avail = ep_avail | set(['context'])\n", "    rn_avail = ep_avail.union({_CONTEXT_NAME})\n"),
  (C, "_INNER_NAME = 'next'\n", "_INNER_NAME = 'next'\n_CONTEXT_NAME = 'context'\n"))
B('pkgA_avail_constant_forgets_context', ['C04'], 'R04.b',
  (C, "    req_avail = set(preprovided) - set(['next', 'context'])\n", "    req_avail = set(preprovided).difference({_INNER_NAME})\n"))

# ------------------------------------------------------------------ core.merge_middlewares
_MERGE_OLD = ("    old = list(old)\n"
              "    merged = list(new)\n"
              "    for mw in old:\n"
              "        if mw.unique and mw in merged:\n"
              "            if mw.reorderable:\n"
              "                continue\n"
              "            else:\n"
              "                raise ValueError('multiple inclusion of unique '\n"
              "                                 'middleware %r' % mw.name)\n"
              "        merged.append(mw)\n")
_MERGE_NAMED = ("    inner_mws = list(old)\n"
                "    merged = list(new)\n"
                "    for inner_mw in inner_mws:\n"
                "        is_duplicate = inner_mw.unique and inner_mw in merged\n"
                "        if not is_duplicate:\n"
                "            merged.append(inner_mw)\n"
                "            continue\n"
                "        if not inner_mw.reorderable:\n"
                "            raise ValueError('multiple inclusion of unique middleware %r' % inner_mw.name)\n")
T('pkgA_twin_merge_named_condition', ['C03'], (C, _MERGE_OLD, _MERGE_NAMED))
B('pkgA_merge_named_condition_drops_nonunique', ['C03'], 'R03.d',
  (C, _MERGE_OLD, _MERGE_NAMED.replace('is_duplicate = inner_mw.unique and inner_mw in merged', 'is_duplicate = inner_mw in merged')))
B('pkgA_merge_named_condition_never_raises', ['C03'], 'R03.d',
  (C, _MERGE_OLD, _MERGE_NAMED.replace("        if not inner_mw.reorderable:\n            raise ValueError('multiple inclusion of unique middleware %r' % inner_mw.name)\n", '')))
T('pkgA_twin_merge_call_named_args', ['C03'],
  (R, "        self.middlewares = tuple(merge_middlewares(getattr(route, 'middlewares', []), app_mws))\n",
      "        route_mws = getattr(route, 'middlewares', [])\n        merged_mws = merge_middlewares(old=route_mws, new=app_mws)\n"
      "        self.middlewares = tuple(merged_mws)\n"))

# ------------------------------------------------------------------ route: execute / execute_error / BoundRoute.__init__
_EXEC_OLD = ("        injectables = {'_route': self,\n"
             "                       'request': request,\n"
             "                       '_application': self.bound_apps[-1]}\n"
             "        injectables.update(self.resources)\n"
             "        injectables.update(kwargs)\n"
             "        return inject(self._execute, injectables)\n")
_EXEC_HELPER = ("    def _get_injectables(self, builtins, overrides):\n"
                "        injectables = dict(builtins)\n"
                "        for source in (%s):\n"
                "            injectables.update(source)\n"
                "        return injectables\n"
                "\n"
                "    def execute(self, request, **kwargs):\n")
_EXEC_NEW = ("        builtins = {'_route': self,\n"
             "                    'request': request,\n"
             "                    '_application': self.bound_apps[-1]}\n"
             "        injectables = self._get_injectables(builtins, overrides=kwargs)\n"
             "        return inject(self._execute, injectables)\n")
T('pkgA_twin_execute_layer_helper_loop', ['C02', 'C04'],
  (R, _EXEC_OLD, _EXEC_NEW),
  (R, "    def execute(self, request, **kwargs):\n", _EXEC_HELPER % 'self.resources, overrides'))
B('pkgA_execute_layer_helper_loop_wrong_order', ['C02'], 'R02.c',
  (R, _EXEC_OLD, _EXEC_NEW),
  (R, "    def execute(self, request, **kwargs):\n", _EXEC_HELPER % 'overrides, self.resources'))
T('pkgA_twin_execute_dict_display', ['C02', 'C04'],
  (R, _EXEC_OLD,
      "        builtins = {'_route': self,\n"
      "                    'request': request,\n"
      "                    '_application': self.bound_apps[-1]}\n"
      "        return inject(self._execute, {**builtins, **self.resources, **kwargs})\n"))
T('pkgA_twin_execute_error_local_callable', ['C02'],
  (R, "        if not callable(self.render_error):\n            raise TypeError('render_error not set or not callable')\n",
      "        render_error = self.render_error\n        if not callable(render_error):\n            raise TypeError('render_error not set or not callable')\n"),
  (R, "        return inject(self.render_error, injectables)\n", "        return inject(render_error, injectables)\n"))
_RES_OLD = ("        self.resources = dict(app_resources)\n"
            "        self.resources.update(getattr(route, 'resources', {}))\n")
_SRC_OLD = ("        src_provides_map = {'url': set(self.converters),\n"
            "                            'builtins': set(RESERVED_ARGS),\n"
            "                            'resources': set(self.resources)}\n"
            "        check_middlewares(self.middlewares, src_provides_map)\n"
            "        provided = set.union(*src_provides_map.values())\n")
T('pkgA_twin_bind_named_sources', ['C01', 'C02', 'C04'],
  (R, _RES_OLD, "        merged_resources = dict(app_resources)\n        route_resources = getattr(route, 'resources', {})\n"
                "        merged_resources.update(route_resources)\n        self.resources = merged_resources\n"),
  (R, _SRC_OLD, "        url_names = set(self.converters)\n        builtin_names = set(RESERVED_ARGS)\n        resource_names = set(merged_resources)\n"
                "        src_provides_map = {'url': url_names, 'builtins': builtin_names, 'resources': resource_names}\n"
                "        check_middlewares(self.middlewares, args_dict=src_provides_map)\n"
                "        provided = set.union(url_names, builtin_names, resource_names)\n"))
B('pkgA_bind_named_sources_drop_resources', ['C01', 'C04'], {'C01': 'R01.a', 'C04': 'R04.a'},
  (R, _SRC_OLD, "        url_names = set(self.converters)\n        builtin_names = set(RESERVED_ARGS)\n        resource_names = set(self.resources)\n"
                "        src_provides_map = {'url': url_names, 'builtins': builtin_names, 'resources': url_names}\n"
                "        check_middlewares(self.middlewares, args_dict=src_provides_map)\n"
                "        provided = set.union(url_names, builtin_names)\n"))

# ------------------------------------------------------------------ application: __init__ / add / bind_all
T('pkgA_twin_routes_loop_inline_default', ['C01'],
  (A, "        routes = routes or []\n        self.routes = []\n", "        self.routes = []\n"),
  (A, "        for entry in routes:\n            self.add(entry)\n", "        for entry in (routes or []):\n            self.add(entry)\n"))
B('pkgA_routes_loop_skips_first', ['C01'], 'R01.a',
  (A, "        routes = routes or []\n        self.routes = []\n", "        self.routes = []\n"),
  (A, "        for entry in routes:\n            self.add(entry)\n", "        for entry in (routes or [])[1:]:\n            self.add(entry)\n"))
_RES_CHECK_OLD = ("        resource_conflicts = [r for r in RESERVED_ARGS if r in self.resources]\n"
                  "        if resource_conflicts:\n"
                  "            raise NameError('resource names conflict with builtins: %r' %\n"
                  "                            resource_conflicts)\n")
_RES_HELPER = ("def _check_reserved_resources(resources):\n"
               "    reserved_in_use = []\n"
               "    for reserved_name in %s:\n"
               "        if reserved_name in resources:\n"
               "            reserved_in_use.append(reserved_name)\n"
               "    if not reserved_in_use:\n"
               "        return\n"
               "    raise NameError('resource names conflict with builtins: %%r' %% reserved_in_use)\n"
               "\n\ndef _safe_wrap_wsgi(")
T('pkgA_twin_reserved_check_helper_loop', ['C04'],
  (A, _RES_CHECK_OLD, "        _check_reserved_resources(self.resources)\n"),
  (A, "def _safe_wrap_wsgi(", _RES_HELPER % 'RESERVED_ARGS'))
B('pkgA_reserved_check_helper_loop_wrong_table', ['C04'], 'R04.c',
  (A, _RES_CHECK_OLD, "        _check_reserved_resources(self.resources)\n"),
  (A, "def _safe_wrap_wsgi(", _RES_HELPER % "('request', '_application')"))
_ADD_OLD = ("        if callable(getattr(rf, 'bind_all', None)):\n"
            "            bound_routes = rf.bind_all(self, **kwargs)\n"
            "        else:\n"
            "            bound_routes = [rf.bind(self, **kwargs)]\n"
            "        for br in bound_routes:\n"
            "            self.routes.insert(index, br)\n"
            "            index += 1\n")
T('pkgA_twin_add_enumerate_and_local_bind_all', ['C01'],
  (A, _ADD_OLD,
      "        bind_all = getattr(rf, 'bind_all', None)\n"
      "        if callable(bind_all):\n"
      "            bound_routes = bind_all(self, **kwargs)\n"
      "        else:\n"
      "            bound_routes = [rf.bind(self, **kwargs)]\n"
      "        for offset, bound_route in enumerate(bound_routes):\n"
      "            self.routes.insert(index + offset, bound_route)\n"))
B('pkgA_add_enumerate_inserts_unbound', ['C01'], 'R01.a',
  (A, _ADD_OLD,
      "        bind_all = getattr(rf, 'bind_all', None)\n"
      "        if callable(bind_all):\n"
      "            bound_routes = bind_all(self, **kwargs)\n"
      "        else:\n"
      "            bound_routes = [rf]\n"
      "        for offset, bound_route in enumerate(bound_routes):\n"
      "            self.routes.insert(index + offset, bound_route)\n"))
_BIND_ALL_OLD = ("        for rt in self.app.routes:\n"
                 "            if isinstance(rt, NullRoute):\n"
                 "                continue\n"
                 "            bound_rt = rt.bind(app, **kwargs)\n"
                 "            ret.append(bound_rt)\n"
                 "\n"
                 "        return ret\n")
T('pkgA_twin_bind_all_comprehension', ['C01'],
  (A, _BIND_ALL_OLD, "        return [rt.bind(app, **kwargs) for rt in self.app.routes\n                if not isinstance(rt, NullRoute)]\n"))
B('pkgA_bind_all_comprehension_not_rebound', ['C01'], 'R01.a',
  (A, _BIND_ALL_OLD, "        return [rt for rt in self.app.routes\n                if not isinstance(rt, NullRoute)]\n"))

# ------------------------------------------------------------------ core.check_middlewares / check_middleware
_CM_OLD = ("    provided_by = defaultdict(list)\n"
           "    for source, arg_list in args_dict.items():\n"
           "        for arg_name in arg_list:\n"
           "            provided_by[arg_name].append(source)\n"
           "\n"
           "    for mw in middlewares:\n"
           "        check_middleware(mw)\n"
           "        for arg in mw.provides:\n"
           "            provided_by[arg].append(mw)\n"
           "        for arg in mw.endpoint_provides:\n"
           "            provided_by[arg].append(mw)\n"
           "        for arg in mw.render_provides:\n"
           "            provided_by[arg].append(mw)\n"
           "\n"
           "    conflicts = [(n, tuple(ps)) for (n, ps) in\n"
           "                 provided_by.items() if len(ps) > 1]\n")
_CM_NEW = ("    providers_by_name = {}\n"
           "\n"
           "    def _register(name, provider):\n"
           "        providers_by_name.setdefault(name, []).append(provider)\n"
           "\n"
           "    for source, source_names in args_dict.items():\n"
           "        for name in source_names:\n"
           "            _register(name, source)\n"
           "\n"
           "    for mw in middlewares:\n"
           "        check_middleware(mw)\n"
           "        for provides_attr in %s:\n"
           "            for name in getattr(mw, provides_attr):\n"
           "                _register(name, mw)\n"
           "\n"
           "    conflicts = []\n"
           "    for name, providers in providers_by_name.items():\n"
           "        if len(providers) > %d:\n"
           "            conflicts.append((name, tuple(providers)))\n")
_ATTRS3 = "('provides', 'endpoint_provides', 'render_provides')"
T('pkgA_twin_conflict_map_closure_and_tables', ['C04'], (C, _CM_OLD, _CM_NEW % (_ATTRS3, 1)))
B('pkgA_conflict_map_table_lacks_render', ['C04'], 'R04.a', (C, _CM_OLD, _CM_NEW % ("('provides', 'endpoint_provides')", 1)))
B('pkgA_conflict_loop_gt2', ['C04'], 'R04.a', (C, _CM_OLD, _CM_NEW % (_ATTRS3, 2)))
_CKM_OLD = ("        if not get_arg_names(func)[0] == 'next':\n")
T('pkgA_twin_first_param_named', ['C04'],
  (C, _CKM_OLD, "        first_arg_name = get_arg_names(func)[0]\n        if first_arg_name != _INNER_NAME:\n"))
B('pkgA_first_param_named_second', ['C04'], 'R04.d',
  (C, _CKM_OLD, "        first_arg_name = get_arg_names(func)[-1]\n        if first_arg_name != _INNER_NAME:\n"))

# ------------------------------------------------------------------ sinter.inject
T('pkgA_twin_inject_named_accepted', ['C02'],
  (S, "    kwargs = dict([(k, v) for k, v in all_kwargs.items() if k in fb.get_arg_names()])\n",
      "    accepted_names = fb.get_arg_names()\n    kwargs = {k: v for k, v in all_kwargs.items() if k in accepted_names}\n"))
B('pkgA_inject_named_accepted_required_only', ['C02'], 'R02.b',
  (S, "    kwargs = dict([(k, v) for k, v in all_kwargs.items() if k in fb.get_arg_names()])\n",
      "    accepted_names = fb.get_arg_names(only_required=True)\n    kwargs = {k: v for k, v in all_kwargs.items() if k in accepted_names}\n"))

# ------------------------------------------------------------------ further spellings of the same constructions
T('pkgA_twin_phase_lists_by_loop', ALL4,
  (C, _REQ_SIGS_OLD, "    req_funcs, req_provides = [], []\n    for mw in middlewares:\n        if mw.request:\n"
                     "            req_funcs.append(mw.request)\n            req_provides.append(mw.provides)\n"),
  (C, "    req_all_provides = set(itertools.chain.from_iterable(req_provides))\n",
      "    req_all_provides = set()\n    for provided_names in req_provides:\n        req_all_provides.update(provided_names)\n"))
B('pkgA_phase_lists_by_loop_wrong_slot_test', ['C03'], 'R03.d',
  (C, _REQ_SIGS_OLD, "    req_funcs, req_provides = [], []\n    for mw in middlewares:\n        if mw.endpoint:\n"
                     "            req_funcs.append(mw.request)\n            req_provides.append(mw.provides)\n"))
T('pkgA_twin_phase_lists_two_comprehensions', ALL4,
  (C, _EP_SIGS_OLD, "    ep_funcs = [mw.endpoint for mw in middlewares if mw.endpoint]\n"
                    "    ep_provides = [mw.endpoint_provides for mw in middlewares if mw.endpoint]\n"),
  (C, "    req_all_provides = set(itertools.chain.from_iterable(req_provides))\n",
      "    req_all_provides = {name for provided_names in req_provides for name in provided_names}\n"))
T('pkgA_twin_argspec_index_loop', ['C01'],
  (S, "    for f, p in zip(func_list, provides):\n", "    for i, f in enumerate(func_list):\n        p = provides[i]\n"))
B('pkgA_argspec_index_loop_shifted', ['C01'], 'R01.c',
  (S, "    for f, p in zip(func_list, provides):\n", "    for i, f in enumerate(func_list):\n        p = provides[i - 1]\n"))
T('pkgA_twin_level_scope_ior_and_ifexp_default', ['C01', 'C02', 'C03'],
  (S, "    if params_sofar is None:\n        params_sofar = set([inner_name])\n\n    params_sofar.update(params[0])\n",
      "    params_sofar = {inner_name} if params_sofar is None else params_sofar\n    params_sofar |= set(params[0])\n"))
T('pkgA_twin_level_fstrings', ['C01', 'C02', 'C03'],
  (S, _BCS_TAIL_OLD,
      "    def_str = f'{outer_indent}def {inner_name}({outer_arg_str}):\\n'\n"
      "    body_str = build_chain_str(funcs[1:], params[1:], inner_name, params_sofar, level + 1)\n"
      "    htb_str = f'{inner_indent}__traceback_hide__ = True\\n'\n"
      "    return_str = f'{inner_indent}return funcs[{level}]({inner_args})\\n'\n"
      "    return def_str + body_str + htb_str + return_str\n"))
T('pkgA_twin_request_core_percent_dict', ['C02', 'C03'],
  (C, "def process_request({all_args}):", "def process_request(%(all_args)s):"),
  (C, "    context = endpoint({endpoint_args})", "    context = endpoint(%(endpoint_args)s)"),
  (C, "        resp = render({render_args})", "        resp = render(%(render_args)s)"),
  (C, "    code_str = _REQ_INNER_TMPL.format(all_args=all_args_str,\n"
      "                                      endpoint_args=ep_args_str,\n"
      "                                      render_args=rn_args_str)\n",
      "    code_str = _REQ_INNER_TMPL % {'all_args': all_args_str, 'endpoint_args': ep_args_str, 'render_args': rn_args_str}\n"))

T('pkgA_twin_unparse_roundtrip', ALL4, (S, '__UNPARSE__', ''), (C, '__UNPARSE__', ''), (R, '__UNPARSE__', ''), (A, '__UNPARSE__', ''))
_INJ_OLD = "    kwargs = dict([(k, v) for k, v in all_kwargs.items() if k in fb.get_arg_names()])\n"
T('pkgA_twin_inject_filter_loop', ['C02'],
  (S, _INJ_OLD, "    declared = fb.get_arg_names()\n    kwargs = {}\n    for k, v in all_kwargs.items():\n        if k in declared:\n            kwargs[k] = v\n"))
B('pkgA_inject_filter_loop_no_test', ['C02'], 'R02.b',
  (S, _INJ_OLD, "    kwargs = {}\n    for k, v in all_kwargs.items():\n        kwargs[k] = v\n"))
T('pkgA_twin_inject_varkw_named', ['C02'],
  (S, "    if fb.varkw:\n        return f(**all_kwargs)\n", "    takes_any_keyword = bool(fb.varkw)\n    if takes_any_keyword:\n        return f(**all_kwargs)\n"))
T('pkgA_twin_provided_itertools_chain', ['C01', 'C04'],
  (R, "        provided = set.union(*src_provides_map.values())\n",
      "        provided = set(self.converters) | set(RESERVED_ARGS) | set(self.resources.keys())\n"))
T('pkgA_twin_reserved_check_inline_intersection', ['C04'],
  (A, _RES_CHECK_OLD, "        if set(self.resources) & set(RESERVED_ARGS):\n            raise NameError('resource names conflict with builtins: %r' %\n"
                      "                            sorted(set(self.resources) & set(RESERVED_ARGS)))\n"))
T('pkgA_twin_reserved_check_any', ['C04'],
  (A, _RES_CHECK_OLD, "        if any(name in self.resources for name in RESERVED_ARGS):\n"
                      "            raise NameError('resource names conflict with builtins: %r' %\n"
                      "                            [name for name in RESERVED_ARGS if name in self.resources])\n"))
B('pkgA_reserved_check_any_wrong_table', ['C04'], 'R04.c',
  (A, _RES_CHECK_OLD, "        if any(name in self.resources for name in _REQUEST_BUILTINS):\n"
                      "            raise NameError('resource names conflict with builtins')\n"),
  (A, "RESERVED_ARGS", "RESERVED_ARGS, _REQUEST_BUILTINS"))

T('pkgA_twin_named_temporaries_binding', ['C01'],
  (A, "        self._null_route = NullRoute().bind(self)\n", "        null_route = NullRoute()\n        self._null_route = null_route.bind(self)\n"),
  (R, "        self._execute = make_middleware_chain(self.middlewares, unbound_route.endpoint, render, provided)\n",
      "        chain = make_middleware_chain(self.middlewares, unbound_route.endpoint, render, provided)\n        self._execute = chain\n"),
  (R, "        return inject(self._execute, injectables)\n", "        result = inject(self._execute, injectables)\n        return result\n"))
B('pkgA_named_chain_never_stored', ['C01'], 'R01.a',
  (R, "        self._execute = make_middleware_chain(self.middlewares, unbound_route.endpoint, render, provided)\n",
      "        chain = make_middleware_chain(self.middlewares, unbound_route.endpoint, render, provided)\n        self._execute = None\n"))
T('pkgA_twin_execute_named_application', ['C02', 'C04'],
  (R, "        injectables = {'_route': self,\n                       'request': request,\n                       '_application': self.bound_apps[-1]}\n        injectables.update(self.resources)\n        injectables.update(kwargs)\n        return inject(self._execute",
      "        serving_app = self.bound_apps[-1]\n        injectables = {'_route': self,\n                       'request': request,\n                       '_application': serving_app}\n        injectables.update(self.resources)\n        injectables.update(kwargs)\n        return inject(self._execute"))
T('pkgA_twin_dispatch_path_params_renamed', ['C02'],
  (A, "            path_params = route.match_path(url_path)\n            if path_params is None:\n                continue\n            request.path_params = path_params\n            params = dict(base_params, **path_params)\n",
      "            url_params = route.match_path(url_path)\n            if url_params is None:\n                continue\n            request.path_params = url_params\n            params = dict(base_params, **url_params)\n"))

T('pkgA_twin_request_core_globals_renamed', ['C02', 'C03', 'C04'],
  (C, "    context = endpoint({endpoint_args})\n    if isinstance(context, BaseResponse):", "    context = ep_chain({endpoint_args})\n    if isinstance(context, Response):"),
  (C, "        resp = render({render_args})", "        resp = rn_chain({render_args})"),
  (C, "    env = {'endpoint': endpoint, 'render': render, 'BaseResponse': BaseResponse}", "    env = {'ep_chain': endpoint, 'rn_chain': render, 'Response': BaseResponse}"))
B('pkgA_request_core_globals_renamed_crossed', ['C03'], 'R03.c',
  (C, "    context = endpoint({endpoint_args})\n    if isinstance(context, BaseResponse):", "    context = ep_chain({endpoint_args})\n    if isinstance(context, Response):"),
  (C, "        resp = render({render_args})", "        resp = rn_chain({render_args})"),
  (C, "    env = {'endpoint': endpoint, 'render': render, 'BaseResponse': BaseResponse}", "    env = {'rn_chain': endpoint, 'ep_chain': render, 'Response': BaseResponse}"))


# ==================================================================================================================
# second pass: clauses added for the seeded changes of round c
# ==================================================================================================================

# ------------------------------------------------------------------ R01.b / R04.*: the documented rejection is what the caller gets
# (building the message of the exception cannot itself raise: every format gets the number of values it takes)
_EP_RAISE = ('        raise NameError("unresolved endpoint middleware arguments: %r"\n'
             '                        % list(ep_unres))\n')
_RN_RAISE = ('        raise NameError("unresolved render middleware arguments: %r"\n'
             '                        % list(rn_unres))\n')
_REQ_RAISE = ('        raise NameError("unresolved request middleware arguments: %r"\n'
              '                        % list(req_unres))\n')
B('pkgA_unres_msg_bare_tuple_from_make_chain', ['C01', 'C04'], {'C01': 'R01.b', 'C04': 'R04.e'},
  (S, '    return chain, set(args), set(unresolved)', '    return chain, set(args), unresolved'),
  (C, _EP_RAISE, '        raise NameError("unresolved endpoint middleware arguments: %r" % (ep_unres))\n'))
B('pkgA_unres_msg_tuple_call_at_raise', ['C01'], 'R01.b',
  (C, _RN_RAISE, '        raise NameError("unresolved render middleware arguments: %r" % tuple(rn_unres))\n'))
B('pkgA_unres_msg_two_conversions_one_value', ['C01'], 'R01.b',
  (C, _REQ_RAISE, '        raise NameError("unresolved request middleware arguments: %r (available: %r)" % sorted(req_unres))\n'))
B('pkgA_unres_msg_format_missing_field', ['C01'], 'R01.b',
  (C, _EP_RAISE, '        raise NameError("unresolved endpoint middleware arguments: {0} (endpoint {1})".format(sorted(ep_unres)))\n'))
B('pkgA_unres_msg_str_plus_list', ['C01'], 'R01.b',
  (C, _RN_RAISE, '        raise NameError("unresolved render middleware arguments: " + sorted(rn_unres))\n'))
B('pkgA_unres_msg_module_constant_two_tuple', ['C01'], 'R01.b',
  (C, _REQ_RAISE, '        raise NameError(_UNRES_MSG % ("request", req_unres))\n'),
  (C, "_INNER_NAME = 'next'\n", "_INNER_NAME = 'next'\n_UNRES_MSG = 'unresolved middleware arguments: %r'\n"))
T('pkgA_twin_unres_msg_one_tuple', ['C01', 'C04'],
  (C, _EP_RAISE, '        raise NameError("unresolved endpoint middleware arguments: %r" % (sorted(ep_unres),))\n'))
T('pkgA_twin_unres_msg_set_operand', ['C01', 'C04'],
  (C, _EP_RAISE, '        raise NameError("unresolved endpoint middleware arguments: %r" % (ep_unres))\n'),
  (C, _RN_RAISE, '        raise NameError("unresolved render middleware arguments: %r" % rn_unres)\n'))
T('pkgA_twin_make_chain_returns_tuple_raise_wraps', ['C01', 'C04'],
  (S, '    return chain, set(args), set(unresolved)', '    return chain, set(args), unresolved'))
T('pkgA_twin_unres_msg_format_and_constant', ['C01', 'C04'],
  (C, _EP_RAISE, '        raise NameError("unresolved endpoint middleware arguments: {0!r}".format(sorted(ep_unres)))\n'),
  (C, _RN_RAISE, '        raise NameError(f"unresolved render middleware arguments: {sorted(rn_unres)!r}")\n'),
  (C, _REQ_RAISE, '        raise NameError(_UNRES_MSG % ("request", sorted(req_unres)))\n'),
  (C, "_INNER_NAME = 'next'\n", "_INNER_NAME = 'next'\n_UNRES_MSG = 'unresolved %s middleware arguments: %r'\n"))
B('pkgA_conflict_msg_tuple_operand', ['C04'], 'R04.a',
  (C, "        raise NameError('found conflicting provides: %r' % conflicts)", "        raise NameError('found conflicting provides: %r' % tuple(conflicts))"))
B('pkgA_reserved_msg_tuple_operand', ['C04'], 'R04.c',
  (A, "        resource_conflicts = [r for r in RESERVED_ARGS if r in self.resources]\n",
      "        resource_conflicts = tuple(r for r in RESERVED_ARGS if r in self.resources)\n"))
B('pkgA_next_first_msg_lacks_value', ['C04'], 'R04.d',
  (C, '                            " \'next\' as the first parameter (%s.%s)"\n                            % (mw.name, f_name))',
      '                            " \'next\' as the first parameter (%s.%s)"\n                            % (mw.name,))'))
T('pkgA_twin_conflict_msg_one_tuple', ['C04'],
  (C, "        raise NameError('found conflicting provides: %r' % conflicts)", "        raise NameError('found conflicting provides: %r' % (tuple(conflicts),))"))

# ------------------------------------------------------------------ R03.d / R04.a: merge_middlewares
# (duplicates are looked up in the result *as it grows*; what came from the new list is never replaced, moved or removed;
#  nothing but a unique duplicate is left out)
_DUP_I = "mw.unique and (mw in outer or mw in old[:i])"
_MERGE_CLOSED = ("    old = list(old)\n"
                 "    outer = list(new)\n"
                 "    dupes = [mw for i, mw in enumerate(old) if %(dup)s]\n"
                 "    pinned = [mw for mw in dupes if not mw.reorderable]\n"
                 "    if pinned:\n"
                 "        raise ValueError('multiple inclusion of unique middleware %%r' %% pinned[0].name)\n"
                 "    merged = outer + [mw for i, mw in enumerate(old) if not (%(dup)s)]\n")
T('pkgA_twin_merge_closed_form', ['C03', 'C04'], (C, _MERGE_OLD, _MERGE_CLOSED % {'dup': _DUP_I}))
T('pkgA_twin_merge_closed_form_any_concat', ['C03', 'C04'],
  (C, _MERGE_OLD, "    old, outer = list(old), list(new)\n"
                  "    if any(mw.unique and mw in outer + old[:i] and not mw.reorderable for i, mw in enumerate(old)):\n"
                  "        raise ValueError('multiple inclusion of a unique middleware')\n"
                  "    inner = [mw for i, mw in enumerate(old) if not mw.unique or mw not in outer + old[:i]]\n"
                  "    merged = outer + inner\n"))
B('pkgA_merge_closed_form_fixed_list', ['C03'], 'R03.d', (C, _MERGE_OLD, _MERGE_CLOSED % {'dup': "mw.unique and mw in outer"}))
B('pkgA_merge_closed_form_prefix_only', ['C03'], 'R03.d', (C, _MERGE_OLD, _MERGE_CLOSED % {'dup': "mw.unique and mw in old[:i]"}))
B('pkgA_merge_closed_form_whole_old', ['C03', 'C04'], {'C03': 'R03.d', 'C04': 'R04.a'},
  (C, _MERGE_OLD, _MERGE_CLOSED % {'dup': "mw.unique and (mw in outer or mw in old)"}))
B('pkgA_merge_closed_form_drops_nonunique', ['C03', 'C04'], {'C03': 'R03.d', 'C04': 'R04.a'},
  (C, _MERGE_OLD, _MERGE_CLOSED % {'dup': "(mw in outer or mw in old[:i])"}))
B('pkgA_merge_loop_tests_fixed_list', ['C03'], 'R03.d',
  (C, "    merged = list(new)\n    for mw in old:\n        if mw.unique and mw in merged:\n",
      "    outer = list(new)\n    merged = list(outer)\n    for mw in old:\n        if mw.unique and mw in outer:\n"))
T('pkgA_twin_merge_append_spellings', ['C03', 'C04'], (C, "        merged.append(mw)\n", "        merged += [mw]\n"))
T('pkgA_twin_merge_not_in_guard', ['C03', 'C04'],
  (C, _MERGE_OLD, "    old = list(old)\n    merged = list(new)\n    for mw in old:\n"
                  "        if not mw.unique or mw not in merged:\n"
                  "            merged.extend([mw])\n"
                  "        elif not mw.reorderable:\n"
                  "            raise ValueError('multiple inclusion of unique middleware %r' % mw.name)\n"))
B('pkgA_merge_replaces_outer_instance', ['C03'], 'R03.d',
  (C, "            if mw.reorderable:\n                continue\n", "            if mw.reorderable:\n                merged[merged.index(mw)] = mw\n                continue\n"))
B('pkgA_merge_moves_duplicate_inwards', ['C03'], 'R03.d',
  (C, "            if mw.reorderable:\n                continue\n", "            if mw.reorderable:\n                del merged[merged.index(mw)]\n"))
B('pkgA_merge_alias_insert_front', ['C03'], 'R03.d',
  (C, "        merged.append(mw)\n    return merged", "        merged.append(mw)\n    result = merged\n    result.insert(0, result.pop())\n    return merged"))
B('pkgA_merge_sorts_result', ['C03'], 'R03.d',
  (C, "        merged.append(mw)\n    return merged", "        merged.append(mw)\n    merged.sort(key=lambda m: m.name)\n    return merged"))
B('pkgA_merge_drops_present_nonunique', ['C04'], 'R04.a',
  (C, "        if mw.unique and mw in merged:\n            if mw.reorderable:\n                continue\n            else:\n",
      "        if mw in merged:\n            if mw.reorderable:\n                continue\n            if mw.unique:\n"))
B('pkgA_merge_outer_list_filtered', ['C03', 'C04'], {'C03': 'R03.d', 'C04': 'R04.a'},
  (C, "    merged = list(new)\n", "    merged = [m for m in new if m.unique]\n"))
B('pkgA_merge_result_truncated', ['C04'], 'R04.a',
  (C, "        merged.append(mw)\n    return merged", "        merged.append(mw)\n    while len(merged) > 16:\n        merged.pop()\n    return merged"))

# ------------------------------------------------------------------ R04.a / R04.d: tables of slot / provides names, generators, chained iterables
_PROV_LOOPS = ("        for arg in mw.provides:\n            provided_by[arg].append(mw)\n"
               "        for arg in mw.endpoint_provides:\n            provided_by[arg].append(mw)\n"
               "        for arg in mw.render_provides:\n            provided_by[arg].append(mw)\n")
T('pkgA_twin_conflict_map_chained_provides', ['C04'],
  (C, _PROV_LOOPS, "        mw_provides = itertools.chain(mw.provides, mw.endpoint_provides, mw.render_provides)\n"
                   "        for arg in mw_provides:\n            provided_by[arg].append(mw)\n"),
  (C, "    args_dict = args_dict or {}\n", ""),
  (C, "    for source, arg_list in args_dict.items():", "    for source, arg_list in (args_dict or {}).items():"))
B('pkgA_conflict_map_chained_provides_lacks_phase', ['C04'], 'R04.a',
  (C, _PROV_LOOPS, "        mw_provides = itertools.chain(mw.provides, mw.render_provides)\n"
                   "        for arg in mw_provides:\n            provided_by[arg].append(mw)\n"))
_PROV_GEN = ("_MW_PROVIDES_NAMES = (%s)\n\n\n"
             "def _iter_provides(mw):\n"
             "    for provides_name in _MW_PROVIDES_NAMES:\n"
             "        for arg in getattr(mw, provides_name):\n"
             "            yield arg\n\n\n"
             "def check_middlewares(")
T('pkgA_twin_conflict_map_generator_over_table', ['C04'],
  (C, _PROV_LOOPS, "        for arg in _iter_provides(mw):\n            provided_by[arg].append(mw)\n"),
  (C, "def check_middlewares(", _PROV_GEN % "'provides', 'endpoint_provides', 'render_provides'"))
B('pkgA_conflict_map_generator_table_lacks_phase', ['C04'], 'R04.a',
  (C, _PROV_LOOPS, "        for arg in _iter_provides(mw):\n            provided_by[arg].append(mw)\n"),
  (C, "def check_middlewares(", _PROV_GEN % "'provides', 'endpoint_provides'"))
B('pkgA_conflict_map_generator_yields_conditionally', ['C04'], 'R04.a',
  (C, _PROV_LOOPS, "        for arg in _iter_provides(mw):\n            provided_by[arg].append(mw)\n"),
  (C, "def check_middlewares(", (_PROV_GEN % "'provides', 'endpoint_provides', 'render_provides'").replace(
      "            yield arg\n", "            if not arg.startswith('_'):\n                yield arg\n")))
_PHASE_TABLE = ("_PHASES = (('request', 'provides'), ('endpoint', 'endpoint_provides'), ('render', 'render_provides'))\n\n\n"
                "def check_middlewares(")
T('pkgA_twin_conflict_map_table_of_pairs', ['C04'],
  (C, _PROV_LOOPS, "        for _phase_name, provides_attr in _PHASES:\n            for arg in getattr(mw, provides_attr):\n"
                   "                provided_by[arg].append(mw)\n"),
  (C, "def check_middlewares(", _PHASE_TABLE))
B('pkgA_conflict_map_table_of_pairs_wrong_column', ['C04'], 'R04.a',
  (C, _PROV_LOOPS, "        for provides_attr, _phase_name in _PHASES:\n            for arg in getattr(mw, provides_attr, ()) or ():\n"
                   "                provided_by[arg].append(mw)\n"),
  (C, "def check_middlewares(", _PHASE_TABLE))
_SLOT_GEN = ("_SLOTS = (%s)\n\n\n"
             "def _iter_slot_funcs(mw):\n"
             "    for slot_name, _provides_attr in _SLOTS:\n"
             "        func = getattr(mw, slot_name, None)\n"
             "        if func:\n"
             "            yield slot_name, func\n\n\n"
             "def check_middleware(mw):\n"
             "    for f_name, func in _iter_slot_funcs(mw):\n")
_SLOT_OLD = ("def check_middleware(mw):\n"
             "    for f_name in ('request', 'endpoint', 'render'):\n"
             "        func = getattr(mw, f_name, None)\n"
             "        if not func:\n"
             "            continue\n")
T('pkgA_twin_slots_generator_over_pairs', ['C04'],
  (C, _SLOT_OLD, _SLOT_GEN % "('request', 'provides'), ('endpoint', 'endpoint_provides'), ('render', 'render_provides')"))
B('pkgA_slots_generator_lacks_render', ['C04'], 'R04.d',
  (C, _SLOT_OLD, _SLOT_GEN % "('request', 'provides'), ('endpoint', 'endpoint_provides')"))

# ------------------------------------------------------------------ normaliser: f(a, *PAIR) with PAIR a module-level tuple of constants
_SIG_HELPER = ("_REQUEST_PHASE = ('request', 'provides')\n_ENDPOINT_PHASE = (%s)\n_RENDER_PHASE = ('render', 'render_provides')\n\n\n"
               "def _get_phase_signatures(middlewares, phase_name, provides_attr):\n"
               "    sigs = [(getattr(mw, phase_name), getattr(mw, provides_attr))\n"
               "            for mw in middlewares if getattr(mw, phase_name)]\n"
               "    funcs, provides = list(zip(*sigs)) or ((), ())\n"
               "    return funcs, provides\n\n\n"
               "def make_middleware_chain(")
_SIG_EDITS = (
    (C, "    req_sigs = [(mw.request, mw.provides)\n                for mw in middlewares if mw.request]\n"
        "    req_funcs, req_provides = list(zip(*req_sigs)) or ((), ())\n",
        "    req_funcs, req_provides = _get_phase_signatures(middlewares, *_REQUEST_PHASE)\n"),
    (C, "    ep_sigs = [(mw.endpoint, mw.endpoint_provides)\n               for mw in middlewares if mw.endpoint]\n"
        "    ep_funcs, ep_provides = list(zip(*ep_sigs)) or ((), ())\n",
        "    ep_funcs, ep_provides = _get_phase_signatures(middlewares, *_ENDPOINT_PHASE)\n"),
    (C, "    rn_sigs = [(mw.render, mw.render_provides)\n               for mw in middlewares if mw.render]\n"
        "    rn_funcs, rn_provides = list(zip(*rn_sigs)) or ((), ())\n",
        "    rn_funcs, rn_provides = _get_phase_signatures(middlewares, *_RENDER_PHASE)\n"))
T('pkgA_twin_phase_signatures_starred_constant_pairs', ALL4,
  *(_SIG_EDITS + ((C, "def make_middleware_chain(", _SIG_HELPER % "'endpoint', 'endpoint_provides'"),)))
B('pkgA_phase_signatures_starred_pairs_crossed', ['C01', 'C03'], {'C01': 'R01.d', 'C03': 'R03.d'},
  *(_SIG_EDITS + ((C, "def make_middleware_chain(", _SIG_HELPER % "'endpoint', 'provides'"),)))


# =================================================================== fourth pass (refactoring round 3, seeded round d)
# ------------------------------------------------------------------ sinter.build_chain_str: more depth-loop shapes
# enumerate() over the functions, the nesting level kept in a counter local that is advanced at the end of each iteration
_BCS_ENUM = ("    openings, closings = [], []\n"
             "    next_level = level\n"
             "    for i, func in enumerate(funcs):\n"
             "        level_params = params[i]\n"
             "%s"
             "        outer_indent = _INDENT * next_level\n"
             "        inner_indent = outer_indent + _INDENT\n"
             "        openings.append('%%sdef %%s(%%s):\\n' %% (outer_indent, inner_name, %s))\n"
             "        closings.append('%%s__traceback_hide__ = True\\n%%sreturn funcs[%%s](%%s)\\n'\n"
             "                        %% (inner_indent, inner_indent, next_level, call_kwargs))\n"
             "        next_level = next_level + 1\n"
             "    return ''.join(openings + closings[::-1])\n")
_ENUM_OK = ("        params_sofar.update(level_params)\n"
            "        arg_names = sorted(set(get_fb(func).get_arg_names()))\n"
            "        call_kwargs = ', '.join(['%s=%s' % (a, a) for a in arg_names if a in params_sofar])\n")
_ENUM_LATE = ("        arg_names = sorted(set(get_fb(func).get_arg_names()))\n"
              "        call_kwargs = ', '.join(['%s=%s' % (a, a) for a in arg_names if a in params_sofar])\n"
              "        params_sofar.update(level_params)\n")
_ENUM_POSITIONAL = ("        params_sofar.update(level_params)\n"
                    "        arg_names = sorted(set(get_fb(func).get_arg_names()))\n"
                    "        call_kwargs = ', '.join(['%s' % (a,) for a in arg_names if a in params_sofar])\n")
T('pkgA_twin_level_enumerate_loop_with_counter', ['C01', 'C02', 'C03'],
  (S, _BCS_LOOP_OLD, _BCS_ENUM % (_ENUM_OK, "', '.join(level_params)")))
B('pkgA_level_enumerate_loop_update_after_filter', ['C01', 'C02', 'C03'], {'C01': 'R01.f', 'C02': 'R02.b', 'C03': 'R03.b'},
  (S, _BCS_LOOP_OLD, _BCS_ENUM % (_ENUM_LATE, "', '.join(level_params)")))
B('pkgA_level_enumerate_loop_positional_call', ['C01', 'C02'], {'C01': 'R01.f', 'C02': 'R02.a'},
  (S, _BCS_LOOP_OLD, _BCS_ENUM % (_ENUM_POSITIONAL, "', '.join(level_params)")))
B('pkgA_level_enumerate_loop_sorted_def_params', ['C01', 'C02', 'C03'], {'C01': 'R01.f', 'C02': 'R02.b', 'C03': 'R03.b'},
  (S, _BCS_LOOP_OLD, _BCS_ENUM % (_ENUM_OK, "', '.join(sorted(level_params))")))
# range(len()) over the functions, ``+= 1`` counter, the default of params_sofar filled in under a second local
_BCS_DEFAULT_OLD = ("    if params_sofar is None:\n"
                    "        params_sofar = set([inner_name])\n"
                    "\n")
_BCS_RANGE = ("    names_in_scope = params_sofar\n"
              "    if params_sofar is None:\n"
              "        names_in_scope = %s\n"
              "    cur_level = level\n"
              "    def_strs = []\n"
              "    return_strs = []\n"
              "    for i in range(len(funcs)):\n"
              "        level_params = params[i]\n"
              "        names_in_scope.update(level_params)\n"
              "        arg_items = sorted(dict([(a, a) for a in get_fb(funcs[i]).get_arg_names()]).items())\n"
              "        call_args_str = ', '.join(['%%s=%%s' %% kv for kv in arg_items if kv[0] in names_in_scope])\n"
              "        outer_indent = _INDENT * cur_level\n"
              "        inner_indent = outer_indent + _INDENT\n"
              "        def_strs.append('%%sdef %%s(%%s):\\n' %% (outer_indent, inner_name, ', '.join(level_params)))\n"
              "        return_strs.append('%%s__traceback_hide__ = True\\n' %% (inner_indent,)\n"
              "                           + '%%sreturn funcs[%%s](%%s)\\n' %% (inner_indent, cur_level, call_args_str))\n"
              "        cur_level += 1\n"
              "    return ''.join(def_strs + return_strs[::-1])\n")
T('pkgA_twin_level_range_loop_counter_and_renamed_default', ['C01', 'C02', 'C03'],
  (S, _BCS_DEFAULT_OLD + _BCS_LOOP_OLD, _BCS_RANGE % "set([inner_name])"))
B('pkgA_level_range_loop_default_lacks_inner_name', ['C01', 'C02', 'C03'], {'C01': 'R01.f', 'C02': 'R02.b', 'C03': 'R03.b'},
  (S, _BCS_DEFAULT_OLD + _BCS_LOOP_OLD, _BCS_RANGE % "set()"))

# ------------------------------------------------------------------ core.make_middleware_chain: temporaries re-used from phase to phase
_MMC_BODY_OLD = ("    req_avail = set(preprovided) - set(['next', 'context'])\n"
                 '    req_sigs = [(mw.request, mw.provides)\n'
                 '                for mw in middlewares if mw.request]\n'
                 '    req_funcs, req_provides = list(zip(*req_sigs)) or ((), ())\n'
                 '    req_all_provides = set(itertools.chain.from_iterable(req_provides))\n'
                 '\n'
                 '    ep_avail = req_avail | req_all_provides\n'
                 '    ep_sigs = [(mw.endpoint, mw.endpoint_provides)\n'
                 '               for mw in middlewares if mw.endpoint]\n'
                 '    ep_funcs, ep_provides = list(zip(*ep_sigs)) or ((), ())\n'
                 '    ep_chain, ep_args, ep_unres = make_chain(ep_funcs,\n'
                 '                                             ep_provides,\n'
                 '                                             endpoint,\n'
                 '                                             ep_avail,\n'
                 '                                             _INNER_NAME)\n'
                 '    if ep_unres:\n'
                 '        raise NameError("unresolved endpoint middleware arguments: %r"\n'
                 '                        % list(ep_unres))\n'
                 '\n'
                 "    rn_avail = ep_avail | set(['context'])\n"
                 '    rn_sigs = [(mw.render, mw.render_provides)\n'
                 '               for mw in middlewares if mw.render]\n'
                 '    rn_funcs, rn_provides = list(zip(*rn_sigs)) or ((), ())\n'
                 '    rn_chain, rn_args, rn_unres = make_chain(rn_funcs,\n'
                 '                                             rn_provides,\n'
                 '                                             render,\n'
                 '                                             rn_avail,\n'
                 '                                             _INNER_NAME)\n'
                 '    if rn_unres:\n'
                 '        raise NameError("unresolved render middleware arguments: %r"\n'
                 '                        % list(rn_unres))\n'
                 '\n'
                 "    req_args = (ep_args | rn_args) - set(['context'])\n"
                 '    req_func = _create_request_inner(ep_chain,\n'
                 '                                     rn_chain,\n'
                 '                                     req_args,\n'
                 '                                     ep_args,\n'
                 '                                     rn_args)\n'
                 '    req_chain, req_chain_args, req_unres = make_chain(req_funcs,\n'
                 '                                                      req_provides,\n'
                 '                                                      req_func,\n'
                 '                                                      req_avail,\n'
                 '                                                      _INNER_NAME)\n'
                 '    if req_unres:\n'
                 '        raise NameError("unresolved request middleware arguments: %r"\n'
                 '                        % list(req_unres))\n'
                 '    return req_chain\n')
# %(sel_*)s: how one phase's (functions, provides) lists are collected; %(rn_test)s: the test behind the render make_chain
_MMC_REUSED = ("    req_avail = set(preprovided) - set(['next', 'context'])\n"
               "%(sel_req)s"
               "    req_funcs, req_provides = funcs, provides\n"
               "    req_all_provides = set(itertools.chain.from_iterable(req_provides))\n"
               "\n"
               "    ep_avail = req_avail | req_all_provides\n"
               "%(sel_ep)s"
               "    chain, args, unres = make_chain(funcs, provides, endpoint, ep_avail, _INNER_NAME)\n"
               "    if unres:\n"
               "        raise NameError('unresolved %%s middleware arguments: %%r' %% ('endpoint', list(unres)))\n"
               "    ep_chain, ep_args = chain, args\n"
               "\n"
               "    rn_avail = ep_avail | set(['context'])\n"
               "%(sel_rn)s"
               "    chain, args, unres = make_chain(funcs, provides, render, rn_avail, _INNER_NAME)\n"
               "%(rn_test)s"
               "    rn_chain, rn_args = chain, args\n"
               "\n"
               "    req_args = (ep_args | rn_args) - set(['context'])\n"
               "    req_func = _create_request_inner(ep_chain, rn_chain, req_args, ep_args, rn_args)\n"
               "    chain, args, unres = make_chain(req_funcs, req_provides, req_func, req_avail, _INNER_NAME)\n"
               "    if unres:\n"
               "        raise NameError('unresolved %%s middleware arguments: %%r' %% ('request', list(unres)))\n"
               "    return chain\n")
_RN_TEST = ("    if unres:\n"
            "        raise NameError('unresolved %s middleware arguments: %r' % ('render', list(unres)))\n")


def _sel_getattr(slot, prov, rebind=True):
    """(mw.<slot>, getattr(mw, provides_attr)) with provides_attr a local that is re-bound for every phase"""
    return (("    provides_attr = '%s'\n" % prov if rebind else "") +
            "    sigs = [(mw.%s, getattr(mw, provides_attr)) for mw in middlewares if mw.%s]\n"
            "    funcs, provides = list(zip(*sigs)) or ((), ())\n" % (slot, slot))


def _sel_attrgetter(slot, prov):
    return ("    get_func = attrgetter('%s')\n    get_provides = attrgetter('%s')\n"
            "    sigs = [(get_func(mw), get_provides(mw)) for mw in middlewares if get_func(mw)]\n"
            "    funcs, provides = list(zip(*sigs)) or ((), ())\n" % (slot, prov))


def _sel_loop(slot, prov, skip="not func"):
    """a loop with a loop-local name for the slot function and an early continue; list locals re-used"""
    return ("    funcs, provides = [], []\n"
            "    for mw in middlewares:\n"
            "        func = mw.%s\n"
            "        if %s:\n"
            "            continue\n"
            "        funcs.append(func)\n"
            "        provides.append(mw.%s)\n"
            "    funcs, provides = tuple(funcs), tuple(provides)\n" % (slot, skip, prov))


_IMPORT_OLD = "import itertools\n"
_IMPORT_AG = "import itertools\nfrom operator import attrgetter\n"
T('pkgA_twin_phase_temporaries_reused_getattr_local', ALL4,
  (C, _MMC_BODY_OLD, _MMC_REUSED % {'sel_req': _sel_getattr('request', 'provides'), 'sel_ep': _sel_getattr('endpoint', 'endpoint_provides'),
                                    'sel_rn': _sel_getattr('render', 'render_provides'), 'rn_test': _RN_TEST}))
B('pkgA_phase_temporaries_reused_stale_provides_attr', ['C01', 'C03'], {'C01': 'R01.d', 'C03': 'R03.d'},
  (C, _MMC_BODY_OLD, _MMC_REUSED % {'sel_req': _sel_getattr('request', 'provides'), 'sel_ep': _sel_getattr('endpoint', 'endpoint_provides'),
                                    'sel_rn': _sel_getattr('render', 'render_provides', rebind=False), 'rn_test': _RN_TEST}))
B('pkgA_phase_temporaries_reused_render_test_missing', ['C01', 'C04'], {'C01': 'R01.b', 'C04': 'R04.e'},
  (C, _MMC_BODY_OLD, _MMC_REUSED % {'sel_req': _sel_getattr('request', 'provides'), 'sel_ep': _sel_getattr('endpoint', 'endpoint_provides'),
                                    'sel_rn': _sel_getattr('render', 'render_provides'), 'rn_test': ""}))
T('pkgA_twin_phase_attrgetter_locals', ALL4,
  (C, _IMPORT_OLD, _IMPORT_AG),
  (C, _MMC_BODY_OLD, _MMC_REUSED % {'sel_req': _sel_attrgetter('request', 'provides'), 'sel_ep': _sel_attrgetter('endpoint', 'endpoint_provides'),
                                    'sel_rn': _sel_attrgetter('render', 'render_provides'), 'rn_test': _RN_TEST}))
B('pkgA_phase_attrgetter_locals_crossed', ['C01', 'C03'], {'C01': 'R01.d', 'C03': 'R03.d'},
  (C, _IMPORT_OLD, _IMPORT_AG),
  (C, _MMC_BODY_OLD, _MMC_REUSED % {'sel_req': _sel_attrgetter('request', 'provides'), 'sel_ep': _sel_attrgetter('endpoint', 'provides'),
                                    'sel_rn': _sel_attrgetter('render', 'render_provides'), 'rn_test': _RN_TEST}))
T('pkgA_twin_phase_loop_local_slot_and_continue', ALL4,
  (C, _MMC_BODY_OLD, _MMC_REUSED % {'sel_req': _sel_loop('request', 'provides'), 'sel_ep': _sel_loop('endpoint', 'endpoint_provides'),
                                    'sel_rn': _sel_loop('render', 'render_provides'), 'rn_test': _RN_TEST}))
B('pkgA_phase_loop_continue_inverted', ['C03'], 'R03.d',
  (C, _MMC_BODY_OLD, _MMC_REUSED % {'sel_req': _sel_loop('request', 'provides'), 'sel_ep': _sel_loop('endpoint', 'endpoint_provides', skip="func"),
                                    'sel_rn': _sel_loop('render', 'render_provides'), 'rn_test': _RN_TEST}))
B('pkgA_phase_loop_local_slot_wrong_provides', ['C01', 'C03'], {'C01': 'R01.d', 'C03': 'R03.d'},
  (C, _MMC_BODY_OLD, _MMC_REUSED % {'sel_req': _sel_loop('request', 'provides'), 'sel_ep': _sel_loop('endpoint', 'endpoint_provides'),
                                    'sel_rn': _sel_loop('render', 'endpoint_provides'), 'rn_test': _RN_TEST}))
# one pass over the stack filling a pair of lists per phase
_MMC_PAIRS = ("    req, ep, rn = ([], []), ([], []), ([], [])\n"
              "    for mw in middlewares:\n"
              "        if mw.request:\n"
              "            req[0].append(mw.request)\n"
              "            req[1].append(mw.provides)\n"
              "        if mw.endpoint:\n"
              "            ep[0].append(mw.endpoint)\n"
              "            ep[1].append(mw.endpoint_provides)\n"
              "        %s mw.render:\n"
              "            rn[0].append(mw.render)\n"
              "            rn[1].append(%s)\n")
_MMC_PAIRS_EDITS = (
    (C, "    req_avail = set(preprovided) - set(['next', 'context'])\n" + _REQ_SIGS_OLD,
        "%s    req_avail = set(preprovided) - set(['next', 'context'])\n    req_funcs, req_provides = req\n"),
    (C, _EP_SIGS_OLD, "    ep_funcs, ep_provides = ep\n"),
    (C, _RN_SIGS_OLD, "    rn_funcs, rn_provides = rn\n"))


def _pairs_edits(kw, prov):
    e = list(_MMC_PAIRS_EDITS)
    e[0] = (e[0][0], e[0][1], e[0][2] % (_MMC_PAIRS % (kw, prov)))
    return e


T('pkgA_twin_phase_pairs_filled_by_one_loop', ALL4, *_pairs_edits('if', 'mw.render_provides'))
B('pkgA_phase_pairs_render_only_without_endpoint', ['C03'], 'R03.d', *_pairs_edits('elif', 'mw.render_provides'))
B('pkgA_phase_pairs_render_wrong_provides', ['C01', 'C03'], {'C01': 'R01.d', 'C03': 'R03.d'}, *_pairs_edits('if', 'mw.provides'))

# ------------------------------------------------------------------ sinter.make_chain: the lists reach the generator as declared
_MK_PROV_OLD = "    provides = list(provides)\n"
T('pkgA_twin_make_chain_provides_copied_elementwise', ['C01', 'C02', 'C03'],
  (S, _MK_PROV_OLD, "    provides = [tuple(p) for p in provides]\n"))
T('pkgA_twin_make_chain_sorted_outer_args_only', ['C01', 'C02', 'C03'],
  (S, _MK_CALL_OLD, "    chain = compile_chain(funcs + [final_func],\n                          [tuple(sorted(args))] + provides, inner_name)\n"))
B('pkgA_make_chain_provides_sorted', ['C01', 'C02', 'C03'], {'C01': 'R01.f', 'C02': 'R02.e', 'C03': 'R03.b'},
  (S, _MK_PROV_OLD, "    provides = [tuple(sorted(p)) for p in provides]\n"))
B('pkgA_make_chain_provides_mapped_sorted', ['C01', 'C02', 'C03'], {'C01': 'R01.f', 'C02': 'R02.e', 'C03': 'R03.b'},
  (S, _MK_PROV_OLD, "    provides = list(map(sorted, provides))\n"))
B('pkgA_make_chain_provides_deduplicated', ['C02'], 'R02.e',
  (S, _MK_PROV_OLD, "    provides = [tuple(set(p)) for p in provides]\n"))
B('pkgA_make_chain_codegen_params_sorted_at_call', ['C01', 'C02', 'C03'], {'C01': 'R01.f', 'C02': 'R02.e', 'C03': 'R03.b'},
  (S, _MK_CALL_OLD, "    chain = compile_chain(funcs + [final_func],\n                          [args] + [sorted(p) for p in provides], inner_name)\n"))

# ------------------------------------------------------------------ sinter.get_fb: self is dropped for what f is, not for what its instance holds
_DROP_OLD = "    if drop_self and isinstance(f, types.MethodType):\n        ret.args = ret.args[1:]  # discard \"self\" on methods\n"
_SPLIT_METHOD = ("def _split_method(f):\n"
                 "    if isinstance(f, types.MethodType):\n"
                 "        return f.__self__, f.__func__\n"
                 "    return None, f\n\n\n"
                 "def get_fb(f, drop_self=True):\n")
T('pkgA_twin_self_drop_inspect_ismethod', ['C01'],
  (S, _DROP_OLD, "    if inspect.ismethod(f) and drop_self:\n        ret.args = ret.args[1:]\n"))
T('pkgA_twin_self_drop_named_flag', ['C01'],
  (S, _DROP_OLD, "    is_bound_method = isinstance(f, types.MethodType)\n    if drop_self:\n        if is_bound_method:\n            del ret.args[0]\n"))
T('pkgA_twin_self_drop_split_helper_is_not_none', ['C01'],
  (S, "def get_fb(f, drop_self=True):\n", _SPLIT_METHOD),
  (S, _DROP_OLD, "    im_self, _ = _split_method(f)\n    if drop_self and im_self is not None:\n        ret.args = ret.args[1:]\n"))
B('pkgA_self_drop_split_helper_truthiness', ['C01'], 'R01.e',
  (S, "def get_fb(f, drop_self=True):\n", _SPLIT_METHOD),
  (S, _DROP_OLD, "    im_self, _ = _split_method(f)\n    if drop_self and im_self:\n        ret.args = ret.args[1:]\n"))
B('pkgA_self_drop_getattr_truthiness', ['C01'], 'R01.e',
  (S, _DROP_OLD, "    if drop_self and getattr(f, '__self__', None):\n        ret.args = ret.args[1:]\n"))
B('pkgA_self_drop_method_and_nonempty_instance', ['C01'], 'R01.e',
  (S, _DROP_OLD, "    if drop_self and isinstance(f, types.MethodType) and len(f.__self__):\n        ret.args = ret.args[1:]\n"))
B('pkgA_self_drop_early_return_for_falsy_instance', ['C01'], 'R01.e',
  (S, _DROP_OLD, "    if isinstance(f, types.MethodType) and not f.__self__:\n        return ret\n" + _DROP_OLD))
B('pkgA_self_drop_for_every_callable', ['C01'], 'R01.e',
  (S, _DROP_OLD, "    if drop_self:\n        ret.args = ret.args[1:]\n"))
B('pkgA_self_never_dropped', ['C01'], 'R01.e',
  (S, _DROP_OLD, ""))

# ------------------------------------------------------------------ route: what binding counted as available is offered per request
_EXEC_RES_OLD = ("                       '_application': self.bound_apps[-1]}\n"
                 "        injectables.update(self.resources)\n"
                 "        injectables.update(kwargs)\n"
                 "        return inject(self._execute, injectables)\n")
_REQ_ARGS_OLD = "        self._required_args = self._resolve_required_args()\n"
T('pkgA_twin_execute_resources_snapshot_attribute', ['C01'],
  (R, _REQ_ARGS_OLD, _REQ_ARGS_OLD + "        self._resource_injectables = dict(self.resources)\n"),
  (R, _EXEC_RES_OLD, _EXEC_RES_OLD.replace("injectables.update(self.resources)", "injectables.update(self._resource_injectables)")))
B('pkgA_execute_resources_filtered_at_bind_time', ['C01'], 'R01.a',
  (R, _REQ_ARGS_OLD, _REQ_ARGS_OLD + "        self._resource_injectables = {k: v for k, v in self.resources.items() if k in self._required_args}\n"),
  (R, _EXEC_RES_OLD, _EXEC_RES_OLD.replace("injectables.update(self.resources)", "injectables.update(self._resource_injectables)")))
B('pkgA_execute_resources_filtered_per_request', ['C01'], 'R01.a',
  (R, _EXEC_RES_OLD, _EXEC_RES_OLD.replace("injectables.update(self.resources)",
                                           "injectables.update((k, v) for k, v in self.resources.items() if self.is_required_arg(k))")))
B('pkgA_execute_route_resources_only', ['C01'], 'R01.a',
  (R, _EXEC_RES_OLD, _EXEC_RES_OLD.replace("injectables.update(self.resources)", "injectables.update(self.unbound_route.resources)")))
B('pkgA_execute_call_time_params_filtered', ['C01'], 'R01.a',
  (R, _EXEC_RES_OLD, _EXEC_RES_OLD.replace("injectables.update(kwargs)",
                                           "injectables.update({k: v for k, v in kwargs.items() if k in self._required_args})")))

# ------------------------------------------------------------------ route: the chain a binding executes is compiled from its own merged list
_EXEC_ASSIGN_OLD = "        self._execute = make_middleware_chain(self.middlewares, unbound_route.endpoint, render, provided)\n"
_MK_CHAIN_CALL = "make_middleware_chain(self.middlewares, unbound_route.endpoint, render, provided)"
T('pkgA_twin_chain_named_before_stored', ['C01', 'C03'],
  (R, _EXEC_ASSIGN_OLD, "        compiled = %s\n        self._execute = compiled\n" % _MK_CHAIN_CALL))
B('pkgA_chain_reused_from_previous_binding', ['C03'], 'R03.d',
  (R, _EXEC_ASSIGN_OLD,
      "        self._provided = provided\n"
      "        if isinstance(route, BoundRoute) and render is route.render and provided == route._provided \\\n"
      "                and self.middlewares == route.middlewares:\n"
      "            self._execute = route._execute\n"
      "        else:\n"
      "            self._execute = %s\n" % _MK_CHAIN_CALL))
B('pkgA_chain_previous_binding_or_new', ['C03'], 'R03.d',
  (R, _EXEC_ASSIGN_OLD, "        self._execute = getattr(route, '_execute', None) or %s\n" % _MK_CHAIN_CALL))
B('pkgA_chain_memoised_by_stack', ['C03'], 'R03.d',
  (R, "class BoundRoute(object):\n", "_CHAINS = {}\n\n\nclass BoundRoute(object):\n"),
  (R, _EXEC_ASSIGN_OLD,
      "        key = (tuple(self.middlewares), unbound_route.endpoint, render, frozenset(provided))\n"
      "        if key not in _CHAINS:\n"
      "            _CHAINS[key] = %s\n"
      "        self._execute = _CHAINS[key]\n" % _MK_CHAIN_CALL))
B('pkgA_chain_compiled_from_unmerged_list', ['C03'], 'R03.d',
  (R, _EXEC_ASSIGN_OLD, "        self._execute = make_middleware_chain(route.middlewares, unbound_route.endpoint, render, provided)\n"))

# ------------------------------------------------------------------ application / route: shapes the front-end dissolves
T('pkgA_twin_routes_local_rebound_before_loop', ['C01'],
  (A, "        routes = routes or []\n        self.routes = []\n", "        entries = routes\n        entries = entries or []\n        self.routes = []\n"),
  (A, "        for entry in routes:\n            self.add(entry)\n", "        for entry in entries:\n            self.add(entry)\n"))
B('pkgA_routes_local_rebound_to_nothing', ['C01'], 'R01.a',
  (A, "        routes = routes or []\n        self.routes = []\n", "        entries = routes or []\n        entries = []\n        self.routes = []\n"),
  (A, "        for entry in routes:\n            self.add(entry)\n", "        for entry in entries:\n            self.add(entry)\n"))
_EXEC_BOTH_OLD = ("    def execute(self, request, **kwargs):\n"
                  "        injectables = {'_route': self,\n"
                  "                       'request': request,\n"
                  "                       '_application': self.bound_apps[-1]}\n"
                  "        injectables.update(self.resources)\n"
                  "        injectables.update(kwargs)\n"
                  "        return inject(self._execute, injectables)\n")
_ERR_BOTH_OLD = ("        injectables = {'_route': self,\n"
                 "                       '_error': _error,\n"
                 "                       'request': request,\n"
                 "                       '_application': self.bound_apps[-1]}\n"
                 "        injectables.update(self.resources)\n"
                 "        injectables.update(kwargs)\n"
                 "        return inject(self.render_error, injectables)\n")
_MK_INJ = ("    def _make_injectables(self, request, overrides, **extra_builtins):\n"
           "        injectables = {'_route': self}\n"
           "        injectables.update(extra_builtins)\n"
           "        injectables['request'] = request\n"
           "        injectables['_application'] = self.bound_apps[-1]\n"
           "%s"
           "        return injectables\n\n"
           "    def execute(self, request, **kwargs):\n"
           "        injectables = self._make_injectables(request, kwargs)\n"
           "        return inject(self._execute, injectables)\n")
_MK_INJ_OK = "        injectables.update(self.resources)\n        injectables.update(overrides)\n"
_MK_INJ_BAD = "        injectables.update(overrides)\n        injectables.update(self.resources)\n"
_ERR_NEW = ("        injectables = self._make_injectables(request, kwargs, _error=_error)\n"
            "        return inject(self.render_error, injectables)\n")
T('pkgA_twin_execute_shared_builder_extra_builtins', ['C01', 'C02', 'C04'],
  (R, _EXEC_BOTH_OLD, _MK_INJ % _MK_INJ_OK), (R, _ERR_BOTH_OLD, _ERR_NEW))
B('pkgA_execute_shared_builder_resources_over_params', ['C02'], 'R02.c',
  (R, _EXEC_BOTH_OLD, _MK_INJ % _MK_INJ_BAD), (R, _ERR_BOTH_OLD, _ERR_NEW))
B('pkgA_execute_builtin_set_after_resources', ['C02'], 'R02.c',
  (R, _EXEC_BOTH_OLD, _EXEC_BOTH_OLD.replace("                       'request': request,\n", "")
      .replace("        injectables.update(kwargs)\n", "        injectables['request'] = request\n        injectables.update(kwargs)\n")))
_DISPATCH_HEAD_OLD = ("        for route in self.routes + [self._null_route]:\n"
                      "            path_params = route.match_path(url_path)\n"
                      "            if path_params is None:\n"
                      "                continue\n"
                      "            request.path_params = path_params\n"
                      "            params = dict(base_params, **path_params)\n")
_ITER_MATCHES = ("    def _iter_path_matches(self, request, url_path, base_params):\n"
                 "        for route in self.routes + [self._null_route]:\n"
                 "            path_params = route.match_path(url_path)\n"
                 "            if path_params is None:\n"
                 "                continue\n"
                 "            request.path_params = path_params\n"
                 "            yield route, %s\n\n"
                 "    def dispatch(self, request):\n")
T('pkgA_twin_dispatch_loop_head_generator', ['C02', 'C04'],
  (A, "    def dispatch(self, request):\n", _ITER_MATCHES % "dict(base_params, **path_params)"),
  (A, _DISPATCH_HEAD_OLD, "        for route, params in self._iter_path_matches(request, url_path, base_params):\n"))
B('pkgA_dispatch_loop_head_generator_shared_dict', ['C02'], 'R02.c',
  (A, "    def dispatch(self, request):\n", _ITER_MATCHES % "base_params"),
  (A, _DISPATCH_HEAD_OLD, "        for route, params in self._iter_path_matches(request, url_path, base_params):\n            params.update(request.path_params)\n"))
B('pkgA_dispatch_loop_head_generator_params_under_resources', ['C02'], 'R02.c',
  (A, "    def dispatch(self, request):\n", _ITER_MATCHES % "dict(path_params, **base_params)"),
  (A, _DISPATCH_HEAD_OLD, "        for route, params in self._iter_path_matches(request, url_path, base_params):\n"))


# =================================================================== seeded round e: state that outlives a call / a binding
# ------------------------------------------------------------------ sinter.get_fb: nothing left on the callable, memo keyed by the callable
_FB_RET_OLD = ("    if drop_self and isinstance(f, types.MethodType):\n"
               "        ret.args = ret.args[1:]  # discard \"self\" on methods\n"
               "    return ret\n")
_FB_DROP = ("    if drop_self and isinstance(f, types.MethodType):\n"
            "        ret.args = ret.args[1:]  # discard \"self\" on methods\n")
_FB_BUILD_OLD = "    ret = FunctionBuilder.from_func(f)\n"
_FB_TABLE_OLD = "_INDENT = '    '\n"
B('pkgA_fb_parked_on_the_function', ['C01', 'C02'], {'C01': 'R01.e', 'C02': 'R02.b'},
  (S, _FB_RET_OLD, _FB_DROP + "    elif inspect.isfunction(f):\n        try:\n            f._sinter_fb = ret\n"
                              "        except (AttributeError, TypeError):\n            pass\n    return ret\n"))
B('pkgA_fb_parked_with_setattr', ['C01', 'C02'], {'C01': 'R01.e', 'C02': 'R02.b'},
  (S, _FB_RET_OLD, _FB_DROP + "    if inspect.isfunction(f):\n        setattr(f, '_sinter_fb', ret)\n    return ret\n"))
B('pkgA_fb_parked_in_function_dict', ['C01', 'C02'], {'C01': 'R01.e', 'C02': 'R02.b'},
  (S, _FB_RET_OLD, _FB_DROP + "    func = f\n    if inspect.isfunction(func):\n        func.__dict__['_sinter_fb'] = ret\n    return ret\n"))
_FB_MEMO_LOOKUP = ("    cache_key = %s\n"
                   "    if %s:\n"
                   "        try:\n"
                   "            return _FB_CACHE[cache_key]\n"
                   "        except KeyError:\n"
                   "            pass\n"
                   "\n")
_FB_MEMO_STORE = "    if %s:\n        _FB_CACHE[cache_key] = ret\n    return ret\n"


def _fb_memo(key, cond):
    return ((S, _FB_TABLE_OLD, _FB_TABLE_OLD + "_FB_CACHE = {}\n"),
            (S, _FB_BUILD_OLD, _FB_MEMO_LOOKUP % (key, cond) + _FB_BUILD_OLD),
            (S, _FB_RET_OLD, _FB_DROP + _FB_MEMO_STORE % cond))


T('pkgA_twin_fb_memo_keyed_by_the_function', ['C01', 'C02'], *_fb_memo("(f, drop_self)", "inspect.isfunction(f)"))
B('pkgA_fb_memo_keyed_by_code_object', ['C01', 'C02'], {'C01': 'R01.e', 'C02': 'R02.b'},
  *_fb_memo("(getattr(f, '__code__', None), drop_self)", "cache_key[0] is not None"))
B('pkgA_fb_memo_keyed_by_id', ['C01', 'C02'], {'C01': 'R01.e', 'C02': 'R02.b'},
  *_fb_memo("(id(f), drop_self)", "inspect.isfunction(f)"))
B('pkgA_fb_memo_keyed_by_qualified_name', ['C02'], 'R02.b',
  *_fb_memo("getattr(f, '__module__', None), getattr(f, '__qualname__', None)", "cache_key[1] is not None"))

# ------------------------------------------------------------------ core.merge_middlewares: a list of its own
_MERGE_HEAD_OLD = "    old = list(old)\n    merged = list(new)\n"
T('pkgA_twin_merge_copies_by_slice_and_display', ALL4,
  (C, _MERGE_HEAD_OLD, "    merged = [*new]\n"))
B('pkgA_merge_accumulates_in_the_callers_list', ALL4, {'C01': 'R01.a', 'C02': 'R02.b', 'C03': 'R03.d', 'C04': 'R04.a'},
  (C, _MERGE_HEAD_OLD, "    merged = new\n"))
B('pkgA_merge_accumulates_in_named_alias', ['C01', 'C02'], {'C01': 'R01.a', 'C02': 'R02.b'},
  (C, _MERGE_HEAD_OLD, "    outer = new\n    merged = outer\n"))
B('pkgA_merge_writes_result_back_into_new', ['C02'], 'R02.b',
  (C, "    return merged\n\n\nclass DummyMiddleware", "    new[:] = merged\n    return merged\n\n\nclass DummyMiddleware"))

# ------------------------------------------------------------------ route / application: the stack is pinned at construction
_ROUTE_MW_OLD = "        self.middlewares = list(kwargs.pop('middlewares', []))\n"
_APP_MW_OLD = "        self.middlewares = list(middlewares or [])\n"
T('pkgA_twin_route_middlewares_pinned_as_tuple', ['C03', 'C04'],
  (R, _ROUTE_MW_OLD, "        self.middlewares = tuple(kwargs.pop('middlewares', ()))\n"))
T('pkgA_twin_route_middlewares_pinned_by_display', ['C03'],
  (R, _ROUTE_MW_OLD, "        given_middlewares = kwargs.pop('middlewares', [])\n        self.middlewares = [*given_middlewares]\n"))
B('pkgA_route_keeps_the_callers_middleware_list', ['C03'], 'R03.d',
  (R, _ROUTE_MW_OLD, "        self.middlewares = kwargs.pop('middlewares', [])\n"))
B('pkgA_route_keeps_the_callers_list_or_default', ['C03'], 'R03.d',
  (R, _ROUTE_MW_OLD, "        given_middlewares = kwargs.pop('middlewares', None)\n        self.middlewares = given_middlewares or []\n"))
B('pkgA_application_keeps_the_callers_middleware_list', ['C03'], 'R03.d',
  (A, _APP_MW_OLD, "        self.middlewares = middlewares or []\n"))

# ------------------------------------------------------------------ core.make_middleware_chain: the unresolved set is computed on every path
_EP_MAKE_OLD = ("    ep_chain, ep_args, ep_unres = make_chain(ep_funcs,\n"
                "                                             ep_provides,\n"
                "                                             endpoint,\n"
                "                                             ep_avail,\n"
                "                                             _INNER_NAME)\n")
_RN_MAKE_OLD = ("    rn_chain, rn_args, rn_unres = make_chain(rn_funcs,\n"
                "                                             rn_provides,\n"
                "                                             render,\n"
                "                                             rn_avail,\n"
                "                                             _INNER_NAME)\n")
_PHASE_FAST = ("def _make_phase_chain(funcs, provides, final_func, avail):\n"
               "    if funcs:\n"
               "        return make_chain(funcs, provides, final_func, avail, _INNER_NAME)\n"
               "    required = set(get_arg_names(final_func, only_required=True))\n"
               "    optional = set(get_arg_names(final_func)) - required\n"
               "    return final_func, required | (optional & set(avail)), set()\n\n\n"
               "def make_middleware_chain(")
T('pkgA_twin_unresolved_set_sorted_before_test', ['C01', 'C04'],
  (C, _EP_MAKE_OLD, _EP_MAKE_OLD + "    ep_unres = sorted(ep_unres)\n"))
B('pkgA_phase_fast_path_reports_nothing', ['C01', 'C04'], {'C01': 'R01.b', 'C04': 'R04.e'},
  (C, "def make_middleware_chain(", _PHASE_FAST),
  (C, _EP_MAKE_OLD, "    ep_chain, ep_args, ep_unres = _make_phase_chain(ep_funcs, ep_provides, endpoint, ep_avail)\n"),
  (C, _RN_MAKE_OLD, "    rn_chain, rn_args, rn_unres = _make_phase_chain(rn_funcs, rn_provides, render, rn_avail)\n"))
B('pkgA_render_fast_path_constant_tuple', ['C01', 'C04'], {'C01': 'R01.b', 'C04': 'R04.e'},
  (C, _RN_MAKE_OLD, "    if rn_funcs:\n" + _RN_MAKE_OLD.replace("    rn_chain", "        rn_chain").replace("\n     ", "\n         ") +
      "    else:\n        rn_chain, rn_args, rn_unres = render, set(get_arg_names(render)) & rn_avail, ()\n"))


# =================================================================== fifth pass (refactoring round 4: moves, modernisation, control flow, data)
# ------------------------------------------------------------------ sinter.build_chain_str: the tails of the depth loop reversed in place
_BCS_LOOP_TAIL = "    return ''.join(def_strs + tail_strs[::-1])\n"
_BCS_LOOP_REV = _BCS_LOOP.replace(_BCS_LOOP_TAIL, "    tail_strs.reverse()\n    return ''.join(def_strs + tail_strs)\n")
_BCS_LOOP_REV_ALIAS = _BCS_LOOP.replace(_BCS_LOOP_TAIL, "    closing = tail_strs\n    closing.reverse()\n    return ''.join(def_strs + tail_strs)\n")
T('pkgA_twin_level_depth_loop_tails_reversed_in_place', ['C01', 'C02', 'C03'], (S, _BCS_LOOP_OLD, _BCS_LOOP_REV % _LOOP_OK))
T('pkgA_twin_level_depth_loop_tails_reversed_through_alias', ['C01', 'C02', 'C03'], (S, _BCS_LOOP_OLD, _BCS_LOOP_REV_ALIAS % _LOOP_OK))
_BCS_LOOP_REV_ALIAS_FIRST = _BCS_LOOP_REV.replace("    tail_strs = []\n", "    tail_strs = []\n    closing = tail_strs\n").replace(
    "    tail_strs.reverse()\n", "    closing.reverse()\n")
T('pkgA_twin_level_depth_loop_tails_reversed_through_earlier_alias', ['C01', 'C02', 'C03'], (S, _BCS_LOOP_OLD, _BCS_LOOP_REV_ALIAS_FIRST % _LOOP_OK))
B('pkgA_level_depth_loop_reversed_in_place_update_after_filter', ['C01', 'C02', 'C03'], {'C01': 'R01.f', 'C02': 'R02.b', 'C03': 'R03.b'},
  (S, _BCS_LOOP_OLD, _BCS_LOOP_REV % _LOOP_LATE_UPDATE))
B('pkgA_level_depth_loop_reversed_in_place_positional_call', ['C01', 'C02'], {'C01': 'R01.f', 'C02': 'R02.a'},
  (S, _BCS_LOOP_OLD, _BCS_LOOP_REV % (_LOOP_OK.replace("'%s=%s' % (name, name)", "'%s' % (name,)"))))

# ------------------------------------------------------------------ core.make_middleware_chain: the request provides flattened by set().union(*..)
_FLAT_OLD = "    req_all_provides = set(itertools.chain.from_iterable(req_provides))\n"
T('pkgA_twin_request_provides_union_star', ALL4, (C, _FLAT_OLD, "    req_all_provides = set().union(*req_provides)\n"))
T('pkgA_twin_request_provides_union_star_from_request_names', ALL4,
  (C, _FLAT_OLD, "    req_all_provides = set(req_avail).union(*req_provides)\n"))
B('pkgA_request_provides_union_star_from_context', ['C01', 'C04'], {'C01': 'R01.d', 'C04': 'R04.e'},
  (C, _FLAT_OLD, "    req_all_provides = {'context'}.union(*req_provides)\n"))
B('pkgA_request_provides_union_star_from_preprovided', ['C01', 'C04'], {'C01': 'R01.d', 'C04': 'R04.e'},
  (C, _FLAT_OLD, "    req_all_provides = set(preprovided).union(*req_provides)\n"))
B('pkgA_request_provides_union_star_dropped', ['C01'], 'R01.d',
  (C, _FLAT_OLD, "    req_all_provides = set().union(*())\n"))

# ------------------------------------------------------------------ definitions that live in another module of the package and are imported back
_CORE_IMPORT_OLD = "from ..sinter import make_chain, get_arg_names, compile_code\n"
_SINTER_ANCHOR = "def compile_chain(funcs, params, inner_name, verbose=_VERBOSE):\n"
_MERGE_DEF = ("def merge_middlewares(old, new):\n"
              "    # TODO: since duplicate provides aren't allowed\n"
              "    # an error needs to be raised if a middleware is\n"
              "    # set to non-unique and has provides params\n"
              "    old = list(old)\n"
              "    merged = list(new)\n"
              "    for mw in old:\n"
              "        if mw.unique and mw in merged:\n"
              "            if mw.reorderable:\n"
              "                continue\n"
              "            else:\n"
              "                raise ValueError('multiple inclusion of unique '\n"
              "                                 'middleware %r' % mw.name)\n"
              "        merged.append(mw)\n"
              "    return merged\n"
              "\n\n")


def _merge_moved(text):
    return ((C, _MERGE_DEF, ""), (C, _CORE_IMPORT_OLD, "from ..sinter import make_chain, get_arg_names, compile_code, merge_middlewares\n"),
            (S, _SINTER_ANCHOR, text + _SINTER_ANCHOR))
T('pkgA_twin_merge_lives_in_another_module', ALL4, *_merge_moved(_MERGE_DEF))
B('pkgA_merge_in_another_module_drops_non_unique_duplicates', ['C01', 'C03', 'C04'], {'C01': 'R01.a', 'C03': 'R03.d', 'C04': 'R04.a'},
  *_merge_moved(_MERGE_DEF.replace("if mw.unique and mw in merged:", "if mw in merged:")))
B('pkgA_merge_in_another_module_accumulates_in_the_callers_list', ALL4, {'C01': 'R01.a', 'C02': 'R02.b', 'C03': 'R03.d', 'C04': 'R04.a'},
  *_merge_moved(_MERGE_DEF.replace("merged = list(new)", "merged = new")))
B('pkgA_merge_in_another_module_skips_non_reorderable', ['C03'], 'R03.d',
  *_merge_moved(_MERGE_DEF.replace("            if mw.reorderable:\n                continue\n            else:\n"
                                   "                raise ValueError('multiple inclusion of unique '\n"
                                   "                                 'middleware %r' % mw.name)\n", "            continue\n")))

_CHECKS_DEF = ("def check_middleware(mw):\n"
               "    for f_name in ('request', 'endpoint', 'render'):\n"
               "        func = getattr(mw, f_name, None)\n"
               "        if not func:\n"
               "            continue\n"
               "        if not callable(func):\n"
               "            raise TypeError('expected %s.%s to be a function'\n"
               "                            % (mw.name, f_name))\n"
               "        if not get_arg_names(func)[0] == 'next':\n"
               "            raise TypeError(\"middleware functions must take argument\"\n"
               "                            \" 'next' as the first parameter (%s.%s)\"\n"
               "                            % (mw.name, f_name))\n"
               "    return\n"
               "\n\n"
               "def check_middlewares(middlewares, args_dict=None):\n"
               "    args_dict = args_dict or {}\n"
               "\n"
               "    provided_by = defaultdict(list)\n"
               "    for source, arg_list in args_dict.items():\n"
               "        for arg_name in arg_list:\n"
               "            provided_by[arg_name].append(source)\n"
               "\n"
               "    for mw in middlewares:\n"
               "        check_middleware(mw)\n"
               "        for arg in mw.provides:\n"
               "            provided_by[arg].append(mw)\n"
               "        for arg in mw.endpoint_provides:\n"
               "            provided_by[arg].append(mw)\n"
               "        for arg in mw.render_provides:\n"
               "            provided_by[arg].append(mw)\n"
               "\n"
               "    conflicts = [(n, tuple(ps)) for (n, ps) in\n"
               "                 provided_by.items() if len(ps) > 1]\n"
               "    if conflicts:\n"
               "        raise NameError('found conflicting provides: %r' % conflicts)\n"
               "    return True\n"
               "\n\n")


def _checks_moved(text, extra=""):
    return ((C, _CHECKS_DEF, ""),
            (C, _CORE_IMPORT_OLD, "from ..sinter import make_chain, get_arg_names, compile_code, check_middleware, check_middlewares\n"),
            (S, _SINTER_ANCHOR, "from collections import defaultdict\n" + extra + "\n\n" + text + _SINTER_ANCHOR))
T('pkgA_twin_checks_live_in_another_module', ['C01', 'C04'], *_checks_moved(_CHECKS_DEF))
# (the reserved first parameter named by a constant of the module the check lives in now)
T('pkgA_twin_checks_in_another_module_first_parameter_constant', ['C01', 'C04'],
  *_checks_moved(_CHECKS_DEF.replace("get_arg_names(func)[0] == 'next'", "get_arg_names(func)[0] == _FIRST_PARAMETER"), "_FIRST_PARAMETER = 'next'\n"))
B('pkgA_checks_in_another_module_first_parameter_constant_wrong', ['C04'], 'R04.d',
  *_checks_moved(_CHECKS_DEF.replace("get_arg_names(func)[0] == 'next'", "get_arg_names(func)[0] == _FIRST_PARAMETER"), "_FIRST_PARAMETER = 'self'\n"))
B('pkgA_checks_in_another_module_conditional_per_middleware_check', ['C04'], 'R04.d',
  *_checks_moved(_CHECKS_DEF.replace("        check_middleware(mw)\n", "        if mw.provides:\n            check_middleware(mw)\n")))
B('pkgA_checks_in_another_module_render_provides_not_recorded', ['C04'], 'R04.a',
  *_checks_moved(_CHECKS_DEF.replace("        for arg in mw.render_provides:\n            provided_by[arg].append(mw)\n", "")))
B('pkgA_checks_in_another_module_slot_table_lacks_render', ['C04'], 'R04.d',
  *_checks_moved(_CHECKS_DEF.replace("for f_name in ('request', 'endpoint', 'render'):", "for f_name in ('request', 'endpoint'):")))

# (a string helper of the request core that lives in another module: the template evaluator follows the import)
_NAS_DEF = "def _named_arg_str(args):\n    return ', '.join([a + '=' + a for a in args])\n\n\n"


def _nas_moved(body):
    return ((C, _NAS_DEF, ""), (C, _CORE_IMPORT_OLD, "from ..sinter import make_chain, get_arg_names, compile_code, named_arg_str\n"),
            (C, "    ep_args_str = _named_arg_str(endpoint_args)\n    rn_args_str = _named_arg_str(render_args)\n",
                "    ep_args_str = named_arg_str(endpoint_args)\n    rn_args_str = named_arg_str(render_args)\n"),
            (S, _SINTER_ANCHOR, "def named_arg_str(args):\n    return %s\n\n\n" % body + _SINTER_ANCHOR))
T('pkgA_twin_request_core_arg_string_helper_in_another_module', ['C02', 'C03'], *_nas_moved("', '.join([a + '=' + a for a in args])"))
B('pkgA_request_core_arg_string_helper_in_another_module_positional', ['C02'], 'R02.a', *_nas_moved("', '.join([a for a in args])"))


# =================================================================== seeded round f: error paths / boundaries, interface drift
# ------------------------------------------------------------------ route.BoundRoute.match_path: a returned mapping has every binding of the table
_MP_OLD = ("        try:\n"
           "            for conv_name, conv in self.converters.items():\n"
           "                ret[conv_name] = conv(groups[conv_name])\n"
           "        except (KeyError, TypeError, ValueError):\n"
           "            return None\n"
           "        return ret\n")
_MP_PER_BINDING = ("        for conv_name, conv in self.converters.items():\n"
                   "            try:\n"
                   "                ret[conv_name] = conv(groups[conv_name])\n"
                   "            except (KeyError, TypeError, ValueError):\n"
                   "                %s\n"
                   "        return ret\n")
T('pkgA_twin_match_path_try_per_binding', ['C01', 'C02'], (R, _MP_OLD, _MP_PER_BINDING % "return None"))
T('pkgA_twin_match_path_value_converted_then_stored', ['C01', 'C02'],
  (R, _MP_OLD, "        for conv_name, conv in self.converters.items():\n"
               "            try:\n"
               "                value = conv(groups[conv_name])\n"
               "            except (KeyError, TypeError, ValueError):\n"
               "                return None\n"
               "            ret[conv_name] = value\n"
               "        return ret\n"))
T('pkgA_twin_match_path_comprehension', ['C01', 'C02'],
  (R, _MP_OLD, "        try:\n"
               "            ret = {name: conv(groups[name]) for name, conv in self.converters.items()}\n"
               "        except (KeyError, TypeError, ValueError):\n"
               "            return None\n"
               "        return ret\n"))
B('pkgA_match_path_failed_binding_skipped', ['C01'], 'R01.a', (R, _MP_OLD, _MP_PER_BINDING % "continue"))
B('pkgA_match_path_failed_binding_ends_the_loop', ['C01'], 'R01.a', (R, _MP_OLD, _MP_PER_BINDING % "break"))
B('pkgA_match_path_empty_group_not_stored', ['C01'], 'R01.a',
  (R, _MP_OLD, "        try:\n"
               "            for conv_name, conv in self.converters.items():\n"
               "                if not groups[conv_name]:\n"
               "                    continue\n"
               "                ret[conv_name] = conv(groups[conv_name])\n"
               "        except (KeyError, TypeError, ValueError):\n"
               "            return None\n"
               "        return ret\n"))
B('pkgA_match_path_comprehension_filters_empty_groups', ['C01'], 'R01.a',
  (R, _MP_OLD, "        try:\n"
               "            ret = {name: conv(groups[name]) for name, conv in self.converters.items() if groups[name]}\n"
               "        except (KeyError, TypeError, ValueError):\n"
               "            return None\n"
               "        return ret\n"))

# ------------------------------------------------------------------ route.BoundRoute.__init__: the 'url' source is the table the matcher binds from
_URL_SRC_OLD = "        src_provides_map = {'url': set(self.converters),\n"
_URL_SRC = "        src_provides_map = {'url': %s,\n"
_URL_BOTH = {'C01': 'R01.a', 'C02': 'R02.c'}
T('pkgA_twin_url_source_through_path_args', ['C01', 'C02', 'C04'], (R, _URL_SRC_OLD, _URL_SRC % "set(self.path_args)"))
T('pkgA_twin_url_source_sorted_local', ['C01', 'C02', 'C04'],
  (R, _URL_SRC_OLD, "        url_names = sorted(self.converters)\n" + _URL_SRC % "set(url_names)"))
T('pkgA_twin_url_source_key_comprehension', ['C01', 'C02', 'C04'],
  (R, _URL_SRC_OLD, _URL_SRC % "{name for name, _conv in self.converters.items()}"))
T('pkgA_twin_url_source_keys_frozen', ['C01', 'C02', 'C04'], (R, _URL_SRC_OLD, _URL_SRC % "frozenset(self.converters.keys())"))
B('pkgA_url_source_read_off_the_wrapped_route', ['C01', 'C02'], _URL_BOTH,
  (R, _URL_SRC_OLD, _URL_SRC % "set(getattr(route, 'path_args', self.converters))"))
B('pkgA_url_source_second_scan_of_the_pattern', ['C01', 'C02'], _URL_BOTH,
  (R, _URL_SRC_OLD, _URL_SRC % "set(m.group('name') for m in BINDING.finditer(self.pattern))"))
B('pkgA_url_source_compiled_from_the_unprefixed_pattern', ['C01', 'C02'], _URL_BOTH,
  (R, _URL_SRC_OLD, _URL_SRC % "set(_compile_path_pattern(route.pattern, self.slash_mode)[1])"))
B('pkgA_url_source_filtered', ['C01', 'C02'], _URL_BOTH,
  (R, _URL_SRC_OLD, _URL_SRC % "set(name for name in self.converters if not name.startswith('_'))"))
B('pkgA_url_source_path_args_parsed_separately', ['C01', 'C02'], _URL_BOTH,
  (R, "        self.path_args = self.converters.keys()\n",
      "        self.path_args = [seg.strip('<>').partition(':')[0] for seg in self.pattern.split('/') if seg.startswith('<')]\n"),
  (R, _URL_SRC_OLD, _URL_SRC % "set(self.path_args)"))

# ------------------------------------------------------------------ application.Application.__init__: nothing is bound before what binding reads is assigned
_AI_OLD = ("        self.middlewares = list(middlewares or [])\n"
           "        check_middlewares(self.middlewares)\n"
           "        self.render_factory = render_factory\n"
           "\n"
           "        self.set_error_handler(error_handler)\n"
           "\n"
           "        routes = routes or []\n"
           "        self.routes = []\n"
           "        self._null_route = NullRoute().bind(self)\n"
           "        for entry in routes:\n"
           "            self.add(entry)\n")
T('pkgA_twin_application_null_route_bound_before_the_route_list', ['C01', 'C03', 'C04'],
  (A, _AI_OLD, "        self.middlewares = list(middlewares or [])\n"
               "        check_middlewares(self.middlewares)\n"
               "        self.render_factory = render_factory\n"
               "        self.set_error_handler(error_handler)\n"
               "        self._null_route = NullRoute().bind(self)\n"
               "\n"
               "        self.routes = []\n"
               "        for entry in routes or []:\n"
               "            self.add(entry)\n"))
T('pkgA_twin_application_state_assigned_in_another_order', ['C01', 'C03', 'C04'],
  (A, _AI_OLD, "        self.render_factory = render_factory\n"
               "        self.set_error_handler(error_handler)\n"
               "        self.middlewares = list(middlewares or [])\n"
               "        check_middlewares(self.middlewares)\n"
               "\n"
               "        routes = routes or []\n"
               "        self.routes = []\n"
               "        self._null_route = NullRoute().bind(self)\n"
               "        for entry in routes:\n"
               "            self.add(entry)\n"))
T('pkgA_twin_application_middlewares_set_by_a_method', ['C03'],
  (A, _AI_OLD, _AI_OLD.replace("        self.middlewares = list(middlewares or [])\n        check_middlewares(self.middlewares)\n",
                               "        self.set_middlewares(middlewares)\n")),
  (A, "    def set_error_handler(self, error_handler=None):\n",
      "    def set_middlewares(self, middlewares=None):\n"
      "        self.middlewares = list(middlewares or [])\n"
      "        check_middlewares(self.middlewares)\n"
      "\n"
      "    def set_error_handler(self, error_handler=None):\n"))
B('pkgA_application_routes_added_before_the_middlewares_are_set', ['C03'], 'R03.d',
  (A, _AI_OLD, "        self.render_factory = render_factory\n"
               "        self.set_error_handler(error_handler)\n"
               "\n"
               "        self.routes = []\n"
               "        for entry in routes or []:\n"
               "            self.add(entry)\n"
               "\n"
               "        self.middlewares = list(middlewares or [])\n"
               "        check_middlewares(self.middlewares)\n"
               "        self._null_route = NullRoute().bind(self)\n"))
B('pkgA_application_fallback_bound_by_a_method_called_too_early', ['C03'], 'R03.d',
  (A, _AI_OLD, "        self.bind_fallback_route()\n" + _AI_OLD.replace("        self._null_route = NullRoute().bind(self)\n", "")),
  (A, "    def set_error_handler(self, error_handler=None):\n",
      "    def bind_fallback_route(self):\n"
      "        self._null_route = NullRoute().bind(self)\n"
      "\n"
      "    def set_error_handler(self, error_handler=None):\n"))
B('pkgA_application_middlewares_set_by_a_method_called_after_binding', ['C03'], 'R03.d',
  (A, _AI_OLD, _AI_OLD.replace("        self.middlewares = list(middlewares or [])\n        check_middlewares(self.middlewares)\n", "") +
      "        self.set_middlewares(middlewares)\n"),
  (A, "    def set_error_handler(self, error_handler=None):\n",
      "    def set_middlewares(self, middlewares=None):\n"
      "        self.middlewares = list(middlewares or [])\n"
      "        check_middlewares(self.middlewares)\n"
      "\n"
      "    def set_error_handler(self, error_handler=None):\n"))

# ------------------------------------------------------------------ route.BoundRoute.__init__: the conflict check runs on every binding path
_CM_CALL_OLD = "        check_middlewares(self.middlewares, src_provides_map)\n"
_CM_COND = {'C01': 'R01.a', 'C04': 'R04.a'}
T('pkgA_twin_conflict_check_reraising_handler', ['C01', 'C04'],
  (R, _CM_CALL_OLD, "        try:\n            check_middlewares(self.middlewares, src_provides_map)\n        except NameError:\n            raise\n"))
T('pkgA_twin_conflict_check_after_the_provided_set', ['C01', 'C04'],
  (R, _CM_CALL_OLD + "        provided = set.union(*src_provides_map.values())\n",
      "        provided = set.union(*src_provides_map.values())\n" + _CM_CALL_OLD))
B('pkgA_conflict_check_only_for_a_non_empty_stack', ['C01', 'C04'], _CM_COND,
  (R, _CM_CALL_OLD, "        if len(self.middlewares) > 0:\n            check_middlewares(self.middlewares, src_provides_map)\n"))
B('pkgA_conflict_check_skipped_for_the_fallback_route', ['C01', 'C04'], _CM_COND,
  (R, _CM_CALL_OLD, "        if not isinstance(unbound_route, NullRoute):\n            check_middlewares(self.middlewares, src_provides_map)\n"))
B('pkgA_conflict_check_skipped_when_rebinding', ['C01', 'C04'], _CM_COND,
  (R, _CM_CALL_OLD, "        if route is unbound_route:\n            check_middlewares(self.middlewares, src_provides_map)\n"))
B('pkgA_conflict_check_error_swallowed', ['C04'], 'R04.a',
  (R, _CM_CALL_OLD, "        try:\n            check_middlewares(self.middlewares, src_provides_map)\n        except NameError:\n            pass\n"))

# ------------------------------------------------------------------ round g: core._create_request_inner vs. make_chain's argument sets
# (the generated caller passes each chain exactly the names make_chain derived as its signature)
_RN_STR_OLD = "    rn_args_str = _named_arg_str(render_args)\n"
_EP_STR_OLD = "    ep_args_str = _named_arg_str(endpoint_args)\n"
_ALL_STR_OLD = "    all_args_str = ','.join(all_args)\n"
T('pkgA_twin_core_call_names_sorted', ['C01', 'C02', 'C03'],
  (C, _ALL_STR_OLD, "    all_args_str = ', '.join(sorted(all_args))\n"),
  (C, _EP_STR_OLD, "    ep_args_str = _named_arg_str(sorted(endpoint_args))\n"),
  (C, _RN_STR_OLD, "    rn_args_str = _named_arg_str(sorted(render_args))\n"))
T('pkgA_twin_core_call_names_percent_generator', ['C01', 'C02', 'C03'],
  (C, _RN_STR_OLD, "    rn_args_str = ', '.join('%s=%s' % (name, name) for name in list(render_args))\n"))
T('pkgA_twin_core_call_names_format_index', ['C01', 'C02', 'C03'],
  (C, _EP_STR_OLD, "    ep_args_str = ', '.join(['{0}={0}'.format(name) for name in endpoint_args])\n"))
B('pkgA_core_render_call_always_passes_context', ['C01'], 'R01.d',
  (C, _RN_STR_OLD, "    rn_args_str = _named_arg_str(['context'] + [a for a in all_args if a in render_args])\n"))
B('pkgA_core_render_call_union_with_context', ['C01'], 'R01.d',
  (C, _RN_STR_OLD, "    rn_args_str = _named_arg_str(set(render_args) | set(['context']))\n"))
B('pkgA_core_render_call_only_request_args', ['C01'], 'R01.d',
  (C, _RN_STR_OLD, "    rn_args_str = _named_arg_str([a for a in render_args if a in all_args])\n"))
B('pkgA_core_render_call_context_written_into_template', ['C01'], 'R01.d',
  (C, "        resp = render({render_args})\n", "        resp = render(context=context, {render_args})\n"))
B('pkgA_core_endpoint_call_gets_every_core_arg', ['C01'], 'R01.d',
  (C, _EP_STR_OLD, "    ep_args_str = _named_arg_str(all_args)\n"))
B('pkgA_core_def_drops_a_name', ['C01'], 'R01.d',
  (C, _ALL_STR_OLD, "    all_args_str = ','.join([a for a in all_args if a != '_route'])\n"))

# ------------------------------------------------------------------ round g: check_middlewares' name spaces vs. what make_middleware_chain lets meet
_CMW_OLD = ("    provided_by = defaultdict(list)\n"
            "    for source, arg_list in args_dict.items():\n"
            "        for arg_name in arg_list:\n"
            "            provided_by[arg_name].append(source)\n"
            "\n"
            "    for mw in middlewares:\n"
            "        check_middleware(mw)\n"
            "        for arg in mw.provides:\n"
            "            provided_by[arg].append(mw)\n"
            "        for arg in mw.endpoint_provides:\n"
            "            provided_by[arg].append(mw)\n"
            "        for arg in mw.render_provides:\n"
            "            provided_by[arg].append(mw)\n"
            "\n"
            "    conflicts = [(n, tuple(ps)) for (n, ps) in\n"
            "                 provided_by.items() if len(ps) > 1]\n")
_CMW_PER_PHASE = ("    for mw in middlewares:\n"
                  "        check_middleware(mw)\n"
                  "    conflicts = []\n"
                  "    for phase in %s:\n"
                  "        provided_by = defaultdict(list)\n"
                  "        for source, arg_list in args_dict.items():\n"
                  "            for arg_name in arg_list:\n"
                  "                provided_by[arg_name].append(source)\n"
                  "        for mw in middlewares:\n"
                  "%s"
                  "            for arg in getattr(mw, phase):\n"
                  "                provided_by[arg].append(mw)\n"
                  "        for n, ps in provided_by.items():\n"
                  "            if len(ps) > 1 and (n, tuple(ps)) not in conflicts:\n"
                  "                conflicts.append((n, tuple(ps)))\n")
_CMW_TWO_MAPS = ("    provided_by = defaultdict(list)\n"
                 "    inner_by = defaultdict(list)\n"
                 "    for source, arg_list in args_dict.items():\n"
                 "        for arg_name in arg_list:\n"
                 "            provided_by[arg_name].append(source)\n"
                 "            inner_by[arg_name].append(source)\n"
                 "\n"
                 "    for mw in middlewares:\n"
                 "        check_middleware(mw)\n"
                 "        for arg in mw.provides:\n"
                 "            provided_by[arg].append(mw)\n"
                 "%s"
                 "\n"
                 "    conflicts = [(n, tuple(ps)) for (n, ps) in\n"
                 "                 list(provided_by.items()) + list(inner_by.items()) if len(ps) > 1]\n")
# (per-phase rounds that each also hold what is forwarded into that phase: the request provides)
T('pkgA_twin_conflict_rounds_each_with_request_provides', ['C02'],
  (C, _CMW_OLD, _CMW_PER_PHASE % ("('endpoint_provides', 'render_provides')",
                                  "            for arg in mw.provides:\n                provided_by[arg].append(mw)\n")))
T('pkgA_twin_conflict_map_attribute_table', ['C02'],
  (C, "        for arg in mw.provides:\n            provided_by[arg].append(mw)\n"
      "        for arg in mw.endpoint_provides:\n            provided_by[arg].append(mw)\n"
      "        for arg in mw.render_provides:\n            provided_by[arg].append(mw)\n",
      "        for attr in ('provides', 'endpoint_provides', 'render_provides'):\n"
      "            for arg in getattr(mw, attr):\n                provided_by[arg].append(mw)\n"))
B('pkgA_conflict_rounds_per_phase', ['C02'], 'R02.e',
  (C, _CMW_OLD, _CMW_PER_PHASE % ("('provides', 'endpoint_provides', 'render_provides')", "")))
B('pkgA_conflict_two_maps_request_vs_inner_phases', ['C02'], 'R02.e',
  (C, _CMW_OLD, _CMW_TWO_MAPS % ("        for arg in mw.endpoint_provides:\n            inner_by[arg].append(mw)\n"
                                 "        for arg in mw.render_provides:\n            inner_by[arg].append(mw)\n")))
B('pkgA_conflict_two_maps_render_apart', ['C02'], 'R02.e',
  (C, _CMW_OLD, _CMW_TWO_MAPS % ("        for arg in mw.endpoint_provides:\n            provided_by[arg].append(mw)\n"
                                 "        for arg in mw.render_provides:\n            inner_by[arg].append(mw)\n")))
B('pkgA_conflict_round_for_inner_phases_without_preprovided', ['C02'], 'R02.e',
  (C, _CMW_OLD, (_CMW_PER_PHASE % ("('endpoint_provides', 'render_provides')",
                                   "            for arg in mw.provides:\n                provided_by[arg].append(mw)\n")).replace(
      "        for source, arg_list in args_dict.items():\n"
      "            for arg_name in arg_list:\n"
      "                provided_by[arg_name].append(source)\n", "")))

# ------------------------------------------------------------------ round 7: inject with a single exit (filter unless **kwargs)
_INJ_TAIL_OLD = ("    if fb.varkw:\n"
                 "        return f(**all_kwargs)\n"
                 "\n"
                 "    kwargs = dict([(k, v) for k, v in all_kwargs.items() if k in fb.get_arg_names()])\n"
                 "    return f(**kwargs)\n")
_INJ_SINGLE_EXIT = ("    if %s:\n"
                    "        declared = fb.get_arg_names()\n"
                    "        all_kwargs = {k: v for k, v in all_kwargs.items() if k in declared}\n"
                    "    return f(**all_kwargs)\n")
T('pkgA_twin_inject_single_exit_filter', ['C02'],
  (S, _INJ_TAIL_OLD, _INJ_SINGLE_EXIT % 'not fb.varkw'))
B('pkgA_inject_single_exit_guard_inverted', ['C02'], 'R02.b',
  (S, _INJ_TAIL_OLD, _INJ_SINGLE_EXIT % 'fb.varkw'))
B('pkgA_inject_single_exit_touched_after_filter', ['C02'], 'R02.b',
  (S, _INJ_TAIL_OLD, (_INJ_SINGLE_EXIT % 'not fb.varkw').replace("    return f(", "    all_kwargs.update(injectables)\n    return f(")))
# ------------------------------------------------------------------ seventh pass (round x)
# the names only the chain binds, as a module constant (a frozenset built from other constants)
_X_CONST_OLD = "_INNER_NAME = 'next'\n"
_X_AVAIL_OLD = "    req_avail = set(preprovided) - set(['next', 'context'])\n"
T('pkgA_twin_chain_bound_names_constant', ALL4,
  (C, _X_CONST_OLD, "_INNER_NAME = 'next'\n_CTX_NAME = 'context'\n_BOUND_BY_CHAIN = frozenset([_INNER_NAME, _CTX_NAME])\n"),
  (C, _X_AVAIL_OLD, "    req_avail = set(preprovided) - _BOUND_BY_CHAIN\n"),
  (C, "    rn_avail = ep_avail | set(['context'])\n", "    rn_avail = ep_avail | {_CTX_NAME}\n"))
B('pkgA_chain_bound_names_constant_lacks_context', ['C01', 'C04'], {'C01': 'R01.d', 'C04': 'R04'},
  (C, _X_CONST_OLD, "_INNER_NAME = 'next'\n_BOUND_BY_CHAIN = frozenset([_INNER_NAME])\n"),
  (C, _X_AVAIL_OLD, "    req_avail = set(preprovided) - _BOUND_BY_CHAIN\n"))

# the (function, provides) pairs collected by a loop into one temporary that is re-used from phase to phase
_X_SIGS_LOOP = ("    sigs = []\n    for mw in middlewares:\n        func = mw.%s\n        if func:\n            sigs.append((func, mw.%s))\n"
                "    %s_funcs, %s_provides = list(zip(*sigs)) or ((), ())\n")
_X_SIGS_EDITS = [
    (C, "    req_sigs = [(mw.request, mw.provides)\n                for mw in middlewares if mw.request]\n"
        "    req_funcs, req_provides = list(zip(*req_sigs)) or ((), ())\n", _X_SIGS_LOOP % ('request', 'provides', 'req', 'req')),
    (C, "    rn_sigs = [(mw.render, mw.render_provides)\n               for mw in middlewares if mw.render]\n"
        "    rn_funcs, rn_provides = list(zip(*rn_sigs)) or ((), ())\n", _X_SIGS_LOOP % ('render', 'render_provides', 'rn', 'rn'))]
_X_EP_OLD = ("    ep_sigs = [(mw.endpoint, mw.endpoint_provides)\n               for mw in middlewares if mw.endpoint]\n"
             "    ep_funcs, ep_provides = list(zip(*ep_sigs)) or ((), ())\n")
T('pkgA_twin_sigs_loops_one_temporary', ALL4, *(_X_SIGS_EDITS + [(C, _X_EP_OLD, _X_SIGS_LOOP % ('endpoint', 'endpoint_provides', 'ep', 'ep'))]))
B('pkgA_sigs_loops_endpoint_paired_with_provides', ['C01', 'C03'], {'C01': 'R01.d', 'C03': 'R03.d'},
  *(_X_SIGS_EDITS + [(C, _X_EP_OLD, _X_SIGS_LOOP % ('endpoint', 'provides', 'ep', 'ep'))]))

# the conversion loop of match_path in a closed helper of a new private module
_X_MP_OLD = ("        ret = {}\n        match = self.regex.match(path)\n        if not match:\n            return None\n"
             "        groups = match.groupdict()\n        try:\n            for conv_name, conv in self.converters.items():\n"
             "                ret[conv_name] = conv(groups[conv_name])\n        except (KeyError, TypeError, ValueError):\n"
             "            return None\n        return ret\n")
_X_MP_NEW = ("        match = self.regex.match(path)\n        if not match:\n            return None\n        try:\n"
             "            return convert_groups(self.converters, match.groupdict())\n        except (KeyError, TypeError, ValueError):\n"
             "            return None\n")
_X_MP_IMPORT = (R, "from .sinter import inject, get_arg_names, get_fb, get_callable_name\n",
                "from .sinter import inject, get_arg_names, get_fb, get_callable_name\nfrom ._urlconv import convert_groups\n")
_X_HELPER = ('"""Private helpers of the URL pattern language."""\n\n\ndef convert_groups(converters, groups):\n    ret = {}\n'
             '    for conv_name, conv in converters.items():\n        ret[conv_name] = %s\n    return ret\n')
T('pkgA_twin_match_path_helper_in_private_module', ['C01', 'C02', 'C04'],
  ('clastic/_urlconv.py', '__NEW__', _X_HELPER % 'conv(groups[conv_name])'), _X_MP_IMPORT, (R, _X_MP_OLD, _X_MP_NEW))
B('pkgA_match_path_helper_in_private_module_raw_values', ['C02'], 'R02.d',
  ('clastic/_urlconv.py', '__NEW__', _X_HELPER % 'groups[conv_name]'), _X_MP_IMPORT, (R, _X_MP_OLD, _X_MP_NEW))
