"""Variants of package A (C01..C04): the kinds of behaviour-preserving rewrites the chain rules were taught to follow
(T), and breaking edits in those new shapes that must still be caught by the named rule (B)."""
from .variants import B, T, S, C, R, A, E, ST, CK, STATS, GZ, CC, PF, RS, FL, META, CE

ALL4 = ['C01', 'C02', 'C03', 'C04']

# ------------------------------------------------------------------ sinter.make_chain / compile_chain
_MK_OLD = ("    reqs, opts = chain_argspec(funcs + [final_func],\n"
           "                               provides + [()], inner_name)\n")
_MK_CALL_OLD = ("    chain = compile_chain(funcs + [final_func],\n"
                "                          [args] + provides, inner_name)\n")
T('pkgA_twin_make_chain_named_lists', ['C01', 'C02', 'C03'],
  (S, _MK_OLD, "    chain_funcs = funcs + [final_func]\n    reqs, opts = chain_argspec(func_list=chain_funcs, provides=provides + [()], inner_name=inner_name)\n"),
  (S, _MK_CALL_OLD, "    level_params = [args] + provides\n    chain = compile_chain(chain_funcs, level_params, inner_name)\n"))
T('pkgA_twin_make_chain_starred', ['C01', 'C02', 'C03'],
  (S, _MK_OLD, "    reqs, opts = chain_argspec([*funcs, final_func], [*provides, ()], inner_name)\n"),
  (S, _MK_CALL_OLD, "    chain = compile_chain([*funcs, final_func], [args, *provides], inner_name)\n"))
B('pkgA_make_chain_params_misaligned', ['C01'], 'R01.f',
  (S, _MK_CALL_OLD, "    level_params = provides + [args]\n    chain = compile_chain(funcs + [final_func], level_params, inner_name)\n"))
T('pkgA_twin_compile_chain_named_env', ['C01', 'C02', 'C03'],
  (S, "    return compile_code(call_str, inner_name, {'funcs': funcs}, verbose=verbose)",
      "    chain_env = {'funcs': funcs}\n    return compile_code(call_str, name=inner_name, env=chain_env, verbose=verbose)"))
B('pkgA_compile_chain_env_copy_of_other', ['C01'], 'R01.f',
  (S, "    return compile_code(call_str, inner_name, {'funcs': funcs}, verbose=verbose)",
      "    chain_env = {'funcs': params}\n    return compile_code(call_str, name=inner_name, env=chain_env, verbose=verbose)"))
T('pkgA_twin_argspec_named_predicate', ['C01'],
  (S, "        defaults_dict = fb.get_defaults_dict()\n\n        defaulted, undefaulted = iterutils.partition(arg_names, key=defaults_dict.__contains__)\n",
      "        has_default = fb.get_defaults_dict().__contains__\n\n        defaulted, undefaulted = iterutils.partition(arg_names, key=has_default)\n"))

# ------------------------------------------------------------------ sinter.build_chain_str (generated level)
_BCS_ARGS_OLD = ("    params_sofar.update(params[0])\n"
                 "    inner_args = get_fb(funcs[0]).get_arg_names()\n"
                 "    inner_arg_dict = dict([(a, a) for a in inner_args])\n"
                 "    inner_arg_items = sorted(inner_arg_dict.items())\n"
                 "    inner_args = ', '.join(['%s=%s' % kv for kv in inner_arg_items\n"
                 "                           if kv[0] in params_sofar])\n")
_BCS_ARGS_ALIASED = ("    cur_func, cur_params = funcs[0], params[0]\n"
                     "    params_sofar.update(cur_params)\n"
                     "    accepted_names = set(get_fb(cur_func).get_arg_names())\n"
                     "    passed_names = sorted([name for name in accepted_names if name in params_sofar])\n"
                     "    inner_args = ', '.join(['%s=%s' % (name, name) for name in passed_names])\n")
T('pkgA_twin_level_aliases_and_named_filter', ['C01', 'C02', 'C03'], (S, _BCS_ARGS_OLD, _BCS_ARGS_ALIASED))
B('pkgA_level_filter_after_recursion', ['C01', 'C02', 'C03'], {'C01': 'R01.f', 'C02': 'R02.b', 'C03': 'R03.b'},
  (S, _BCS_ARGS_OLD, "    params_sofar.update(params[0])\n"),
  (S, "    htb_str = '%s__traceback_hide__ = True\\n' % (inner_indent,)\n",
      "    htb_str = '%s__traceback_hide__ = True\\n' % (inner_indent,)\n"
      "    passed_names = sorted([name for name in get_fb(funcs[0]).get_arg_names() if name in params_sofar])\n"
      "    inner_args = ', '.join(['%s=%s' % (name, name) for name in passed_names])\n"))
B('pkgA_level_sorted_def_params', ['C01', 'C02', 'C03'], {'C01': 'R01.f', 'C02': 'R02.b', 'C03': 'R03.b'},
  (S, "    outer_arg_str = ', '.join(params[0])\n", "    outer_arg_str = ', '.join(sorted(params[0]))\n"))
_BCS_TAIL_OLD = ("    def_str = '%sdef %s(%s):\\n' % (outer_indent, inner_name, outer_arg_str)\n"
                 "    body_str = build_chain_str(funcs[1:], params[1:], inner_name, params_sofar, level + 1)\n"
                 "    #func_name = get_func_name(funcs[0])\n"
                 "    #func_alias = get_inner_func_alias(funcs[0])\n"
                 "    htb_str = '%s__traceback_hide__ = True\\n' % (inner_indent,)\n"
                 "    return_str = '%sreturn funcs[%s](%s)\\n' % (inner_indent, level, inner_args)\n"
                 "    return ''.join([def_str, body_str, htb_str + return_str])\n")
T('pkgA_twin_level_format_positional', ['C01', 'C02', 'C03'],
  (S, _BCS_TAIL_OLD,
      "    def_str = '{0}def {1}({2}):\\n'.format(outer_indent, inner_name, outer_arg_str)\n"
      "    body_str = build_chain_str(funcs[1:], params[1:], inner_name, params_sofar=params_sofar, level=level + 1)\n"
      "    htb_str = '{}__traceback_hide__ = True\\n'.format(inner_indent)\n"
      "    return_str = '{0}return funcs[{1}]({2})\\n'.format(inner_indent, level, inner_args)\n"
      "    return def_str + body_str + htb_str + return_str\n"))
T('pkgA_twin_level_lines_list', ['C01', 'C02', 'C03'],
  (S, _BCS_TAIL_OLD,
      "    lines = ['%sdef %s(%s):\\n' % (outer_indent, inner_name, outer_arg_str)]\n"
      "    lines.append(build_chain_str(funcs=funcs[1:], params=params[1:], inner_name=inner_name,\n"
      "                                 params_sofar=params_sofar, level=level + 1))\n"
      "    lines.append('%s__traceback_hide__ = True\\n' % (inner_indent,))\n"
      "    lines.append('%sreturn funcs[%s](%s)\\n' % (inner_indent, level, inner_args))\n"
      "    return ''.join(lines)\n"))
B('pkgA_level_lines_call_before_nested_def', ['C03'], 'R03.a',
  (S, _BCS_TAIL_OLD,
      "    lines = ['%sdef %s(%s):\\n' % (outer_indent, inner_name, outer_arg_str)]\n"
      "    lines.append('%s__traceback_hide__ = True\\n' % (inner_indent,))\n"
      "    lines.append('%sreturn funcs[%s](%s)\\n' % (inner_indent, level, inner_args))\n"
      "    lines.append(build_chain_str(funcs=funcs[1:], params=params[1:], inner_name=inner_name,\n"
      "                                 params_sofar=params_sofar, level=level + 1))\n"
      "    return ''.join(lines)\n"))
# the recursion written as a depth loop: heads in order, tails reversed
_BCS_LOOP_OLD = _BCS_ARGS_OLD + ("    outer_indent = _INDENT * level\n"
                                 "    inner_indent = outer_indent + _INDENT\n"
                                 "    outer_arg_str = ', '.join(params[0])\n") + _BCS_TAIL_OLD
_BCS_LOOP = ("    def_strs = []\n"
             "    tail_strs = []\n"
             "    for depth in range(len(funcs)):\n"
             "        cur_level = level + depth\n"
             "        cur_params = params[depth]\n"
             "%s"
             "        outer_indent = _INDENT * cur_level\n"
             "        inner_indent = outer_indent + _INDENT\n"
             "        def_strs.append('%%sdef %%s(%%s):\\n' %% (outer_indent, inner_name, ', '.join(cur_params)))\n"
             "        tail_strs.append('%%s__traceback_hide__ = True\\n%%sreturn funcs[%%s](%%s)\\n'\n"
             "                         %% (inner_indent, inner_indent, cur_level, call_kwargs))\n"
             "    return ''.join(def_strs + tail_strs[::-1])\n")
_LOOP_OK = ("        params_sofar.update(cur_params)\n"
            "        arg_names = sorted(set(get_fb(funcs[depth]).get_arg_names()))\n"
            "        call_kwargs = ', '.join(['%s=%s' % (name, name) for name in arg_names if name in params_sofar])\n")
_LOOP_LATE_UPDATE = ("        arg_names = sorted(set(get_fb(funcs[depth]).get_arg_names()))\n"
                     "        call_kwargs = ', '.join(['%s=%s' % (name, name) for name in arg_names if name in params_sofar])\n"
                     "        params_sofar.update(cur_params)\n")
T('pkgA_twin_level_depth_loop', ['C01', 'C02', 'C03'], (S, _BCS_LOOP_OLD, _BCS_LOOP % _LOOP_OK))
B('pkgA_level_depth_loop_update_after_filter', ['C01', 'C02', 'C03'], {'C01': 'R01.f', 'C02': 'R02.b', 'C03': 'R03.b'},
  (S, _BCS_LOOP_OLD, _BCS_LOOP % _LOOP_LATE_UPDATE))

# ------------------------------------------------------------------ core._create_request_inner
_CRI_OLD = ("    all_args_str = ','.join(all_args)\n"
            "    ep_args_str = _named_arg_str(endpoint_args)\n"
            "    rn_args_str = _named_arg_str(render_args)\n"
            "\n"
            "    code_str = _REQ_INNER_TMPL.format(all_args=all_args_str,\n"
            "                                      endpoint_args=ep_args_str,\n"
            "                                      render_args=rn_args_str)\n"
            "    env = {'endpoint': endpoint, 'render': render, 'BaseResponse': BaseResponse}\n")
T('pkgA_twin_request_core_fields_dict', ['C02', 'C03'],
  (C, _CRI_OLD,
      "    tmpl_fields = {\n"
      "        'all_args': ','.join(all_args),\n"
      "        'endpoint_args': _named_arg_str(endpoint_args),\n"
      "        'render_args': _named_arg_str(render_args),\n"
      "    }\n"
      "    code_str = _REQ_INNER_TMPL.format(**tmpl_fields)\n"
      "    env = dict(endpoint=endpoint, render=render, BaseResponse=BaseResponse)\n"))
B('pkgA_request_core_fields_swapped', ['C02', 'C03'], {'C02': 'R02.a', 'C03': 'R03.c'},
  (C, _CRI_OLD,
      "    tmpl_fields = {\n"
      "        'all_args': ','.join(all_args),\n"
      "        'endpoint_args': _named_arg_str(render_args),\n"
      "        'render_args': _named_arg_str(endpoint_args),\n"
      "    }\n"
      "    code_str = _REQ_INNER_TMPL.format(**tmpl_fields)\n"
      "    env = dict(endpoint=endpoint, render=render, BaseResponse=BaseResponse)\n"))
B('pkgA_request_core_env_kw_swapped', ['C03'], 'R03.c',
  (C, "    env = {'endpoint': endpoint, 'render': render, 'BaseResponse': BaseResponse}\n",
      "    env = dict(endpoint=render, render=endpoint, BaseResponse=BaseResponse)\n"))

# ------------------------------------------------------------------ core.make_middleware_chain
_NEXT_OLD = ("    if 'next' in get_arg_names(endpoint):\n"
             "        raise NameError(_next_exc_msg % endpoint)\n"
             "    if 'next' in get_arg_names(render):\n"
             "        raise NameError(_next_exc_msg % render)\n")
T('pkgA_twin_next_test_loop', ['C01', 'C04'],
  (C, _NEXT_OLD, "    for final_func in (endpoint, render):\n        if _INNER_NAME in get_arg_names(final_func):\n"
                 "            raise NameError(_next_exc_msg % final_func)\n"))
B('pkgA_next_test_loop_endpoint_only', ['C01', 'C04'], {'C01': 'R01.b', 'C04': 'R04.e'},
  (C, _NEXT_OLD, "    for final_func in (endpoint, endpoint):\n        if _INNER_NAME in get_arg_names(final_func):\n"
                 "            raise NameError(_next_exc_msg % final_func)\n"))
_REQ_SIGS_OLD = ("    req_sigs = [(mw.request, mw.provides)\n"
                 "                for mw in middlewares if mw.request]\n"
                 "    req_funcs, req_provides = list(zip(*req_sigs)) or ((), ())\n")
_EP_SIGS_OLD = ("    ep_sigs = [(mw.endpoint, mw.endpoint_provides)\n"
                "               for mw in middlewares if mw.endpoint]\n"
                "    ep_funcs, ep_provides = list(zip(*ep_sigs)) or ((), ())\n")
_RN_SIGS_OLD = ("    rn_sigs = [(mw.render, mw.render_provides)\n"
                "               for mw in middlewares if mw.render]\n"
                "    rn_funcs, rn_provides = list(zip(*rn_sigs)) or ((), ())\n")
_SPLIT_HELPER = ("\n\ndef _split_phase(middlewares, func_attr, provides_attr):\n"
                 "    sigs = [(getattr(mw, func_attr), getattr(mw, provides_attr))\n"
                 "            for mw in middlewares if getattr(mw, func_attr)]\n"
                 "    if not sigs:\n"
                 "        return (), ()\n"
                 "    funcs, provides = zip(*sigs)\n"
                 "    return funcs, provides\n"
                 "\n\n_REQ_INNER_TMPL = \\\n")
T('pkgA_twin_phase_split_helper', ALL4,
  (C, _REQ_SIGS_OLD, "    req_funcs, req_provides = _split_phase(middlewares, 'request', 'provides')\n"),
  (C, _EP_SIGS_OLD, "    ep_funcs, ep_provides = _split_phase(middlewares, 'endpoint', 'endpoint_provides')\n"),
  (C, _RN_SIGS_OLD, "    rn_funcs, rn_provides = _split_phase(middlewares, 'render', 'render_provides')\n"),
  (C, "\n\n_REQ_INNER_TMPL = \\\n", _SPLIT_HELPER))
B('pkgA_phase_split_helper_wrong_provides', ['C01', 'C03'], {'C01': 'R01.d', 'C03': 'R03.d'},
  (C, _REQ_SIGS_OLD, "    req_funcs, req_provides = _split_phase(middlewares, 'request', 'provides')\n"),
  (C, _EP_SIGS_OLD, "    ep_funcs, ep_provides = _split_phase(middlewares, 'endpoint', 'provides')\n"),
  (C, _RN_SIGS_OLD, "    rn_funcs, rn_provides = _split_phase(middlewares, 'render', 'render_provides')\n"),
  (C, "\n\n_REQ_INNER_TMPL = \\\n", _SPLIT_HELPER))
_EP_UNRES_OLD = ("    if ep_unres:\n"
                 "        raise NameError(\"unresolved endpoint middleware arguments: %r\"\n"
                 "                        % list(ep_unres))\n")
_CHECK_RESOLVED = ("\n\ndef _check_resolved(phase, unresolved):\n"
                   "    if not unresolved:\n"
                   "        return\n"
                   "    raise NameError('unresolved %s middleware arguments: %r' % (phase, list(unresolved)))\n"
                   "\n\n_REQ_INNER_TMPL = \\\n")
T('pkgA_twin_unresolved_guard_helper', ['C01', 'C04'],
  (C, _EP_UNRES_OLD, "    _check_resolved('endpoint', ep_unres)\n"),
  (C, "\n\n_REQ_INNER_TMPL = \\\n", _CHECK_RESOLVED))
B('pkgA_unresolved_guard_helper_inverted', ['C01', 'C04'], {'C01': 'R01.b', 'C04': 'R04.e'},
  (C, _EP_UNRES_OLD, "    _check_resolved('endpoint', ep_unres)\n"),
  (C, "\n\n_REQ_INNER_TMPL = \\\n", _CHECK_RESOLVED.replace('    if not unresolved:\n', '    if unresolved:\n')))
T('pkgA_twin_avail_constants_and_methods', ['C01', 'C04'],
  (C, "    req_avail = set(preprovided) - set(['next', 'context'])\n", "    req_avail = set(preprovided).difference({_INNER_NAME, _CONTEXT_NAME})\n"),
  (C, "    rn_avail = ep_avail | set(['context'])\n", "    rn_avail = ep_avail.union({_CONTEXT_NAME})\n"),
  (C, "_INNER_NAME = 'next'\n", "_INNER_NAME = 'next'\n_CONTEXT_NAME = 'context'\n"))
B('pkgA_avail_constant_forgets_context', ['C04'], 'R04.b',
  (C, "    req_avail = set(preprovided) - set(['next', 'context'])\n", "    req_avail = set(preprovided).difference({_INNER_NAME})\n"))

# ------------------------------------------------------------------ core.merge_middlewares
_MERGE_OLD = ("    old = list(old)\n"
              "    merged = list(new)\n"
              "    for mw in old:\n"
              "        if mw.unique and mw in merged:\n"
              "            if mw.reorderable:\n"
              "                continue\n"
              "            else:\n"
              "                raise ValueError('multiple inclusion of unique '\n"
              "                                 'middleware %r' % mw.name)\n"
              "        merged.append(mw)\n")
_MERGE_NAMED = ("    inner_mws = list(old)\n"
                "    merged = list(new)\n"
                "    for inner_mw in inner_mws:\n"
                "        is_duplicate = inner_mw.unique and inner_mw in merged\n"
                "        if not is_duplicate:\n"
                "            merged.append(inner_mw)\n"
                "            continue\n"
                "        if not inner_mw.reorderable:\n"
                "            raise ValueError('multiple inclusion of unique middleware %r' % inner_mw.name)\n")
T('pkgA_twin_merge_named_condition', ['C03'], (C, _MERGE_OLD, _MERGE_NAMED))
B('pkgA_merge_named_condition_drops_nonunique', ['C03'], 'R03.d',
  (C, _MERGE_OLD, _MERGE_NAMED.replace('is_duplicate = inner_mw.unique and inner_mw in merged', 'is_duplicate = inner_mw in merged')))
B('pkgA_merge_named_condition_never_raises', ['C03'], 'R03.d',
  (C, _MERGE_OLD, _MERGE_NAMED.replace("        if not inner_mw.reorderable:\n            raise ValueError('multiple inclusion of unique middleware %r' % inner_mw.name)\n", '')))
T('pkgA_twin_merge_call_named_args', ['C03'],
  (R, "        self.middlewares = tuple(merge_middlewares(getattr(route, 'middlewares', []), app_mws))\n",
      "        route_mws = getattr(route, 'middlewares', [])\n        merged_mws = merge_middlewares(old=route_mws, new=app_mws)\n"
      "        self.middlewares = tuple(merged_mws)\n"))

# ------------------------------------------------------------------ route: execute / execute_error / BoundRoute.__init__
_EXEC_OLD = ("        injectables = {'_route': self,\n"
             "                       'request': request,\n"
             "                       '_application': self.bound_apps[-1]}\n"
             "        injectables.update(self.resources)\n"
             "        injectables.update(kwargs)\n"
             "        return inject(self._execute, injectables)\n")
_EXEC_HELPER = ("    def _get_injectables(self, builtins, overrides):\n"
                "        injectables = dict(builtins)\n"
                "        for source in (%s):\n"
                "            injectables.update(source)\n"
                "        return injectables\n"
                "\n"
                "    def execute(self, request, **kwargs):\n")
_EXEC_NEW = ("        builtins = {'_route': self,\n"
             "                    'request': request,\n"
             "                    '_application': self.bound_apps[-1]}\n"
             "        injectables = self._get_injectables(builtins, overrides=kwargs)\n"
             "        return inject(self._execute, injectables)\n")
T('pkgA_twin_execute_layer_helper_loop', ['C02', 'C04'],
  (R, _EXEC_OLD, _EXEC_NEW),
  (R, "    def execute(self, request, **kwargs):\n", _EXEC_HELPER % 'self.resources, overrides'))
B('pkgA_execute_layer_helper_loop_wrong_order', ['C02'], 'R02.c',
  (R, _EXEC_OLD, _EXEC_NEW),
  (R, "    def execute(self, request, **kwargs):\n", _EXEC_HELPER % 'overrides, self.resources'))
T('pkgA_twin_execute_dict_display', ['C02', 'C04'],
  (R, _EXEC_OLD,
      "        builtins = {'_route': self,\n"
      "                    'request': request,\n"
      "                    '_application': self.bound_apps[-1]}\n"
      "        return inject(self._execute, {**builtins, **self.resources, **kwargs})\n"))
T('pkgA_twin_execute_error_local_callable', ['C02'],
  (R, "        if not callable(self.render_error):\n            raise TypeError('render_error not set or not callable')\n",
      "        render_error = self.render_error\n        if not callable(render_error):\n            raise TypeError('render_error not set or not callable')\n"),
  (R, "        return inject(self.render_error, injectables)\n", "        return inject(render_error, injectables)\n"))
_RES_OLD = ("        self.resources = dict(app_resources)\n"
            "        self.resources.update(getattr(route, 'resources', {}))\n")
_SRC_OLD = ("        src_provides_map = {'url': set(self.converters),\n"
            "                            'builtins': set(RESERVED_ARGS),\n"
            "                            'resources': set(self.resources)}\n"
            "        check_middlewares(self.middlewares, src_provides_map)\n"
            "        provided = set.union(*src_provides_map.values())\n")
T('pkgA_twin_bind_named_sources', ['C01', 'C02', 'C04'],
  (R, _RES_OLD, "        merged_resources = dict(app_resources)\n        route_resources = getattr(route, 'resources', {})\n"
                "        merged_resources.update(route_resources)\n        self.resources = merged_resources\n"),
  (R, _SRC_OLD, "        url_names = set(self.converters)\n        builtin_names = set(RESERVED_ARGS)\n        resource_names = set(merged_resources)\n"
                "        src_provides_map = {'url': url_names, 'builtins': builtin_names, 'resources': resource_names}\n"
                "        check_middlewares(self.middlewares, args_dict=src_provides_map)\n"
                "        provided = set.union(url_names, builtin_names, resource_names)\n"))
B('pkgA_bind_named_sources_drop_resources', ['C01', 'C04'], {'C01': 'R01.a', 'C04': 'R04.a'},
  (R, _SRC_OLD, "        url_names = set(self.converters)\n        builtin_names = set(RESERVED_ARGS)\n        resource_names = set(self.resources)\n"
                "        src_provides_map = {'url': url_names, 'builtins': builtin_names, 'resources': url_names}\n"
                "        check_middlewares(self.middlewares, args_dict=src_provides_map)\n"
                "        provided = set.union(url_names, builtin_names)\n"))

# ------------------------------------------------------------------ application: __init__ / add / bind_all
T('pkgA_twin_routes_loop_inline_default', ['C01'],
  (A, "        routes = routes or []\n        self.routes = []\n", "        self.routes = []\n"),
  (A, "        for entry in routes:\n            self.add(entry)\n", "        for entry in (routes or []):\n            self.add(entry)\n"))
B('pkgA_routes_loop_skips_first', ['C01'], 'R01.a',
  (A, "        routes = routes or []\n        self.routes = []\n", "        self.routes = []\n"),
  (A, "        for entry in routes:\n            self.add(entry)\n", "        for entry in (routes or [])[1:]:\n            self.add(entry)\n"))
_RES_CHECK_OLD = ("        resource_conflicts = [r for r in RESERVED_ARGS if r in self.resources]\n"
                  "        if resource_conflicts:\n"
                  "            raise NameError('resource names conflict with builtins: %r' %\n"
                  "                            resource_conflicts)\n")
_RES_HELPER = ("def _check_reserved_resources(resources):\n"
               "    reserved_in_use = []\n"
               "    for reserved_name in %s:\n"
               "        if reserved_name in resources:\n"
               "            reserved_in_use.append(reserved_name)\n"
               "    if not reserved_in_use:\n"
               "        return\n"
               "    raise NameError('resource names conflict with builtins: %%r' %% reserved_in_use)\n"
               "\n\ndef _safe_wrap_wsgi(")
T('pkgA_twin_reserved_check_helper_loop', ['C04'],
  (A, _RES_CHECK_OLD, "        _check_reserved_resources(self.resources)\n"),
  (A, "def _safe_wrap_wsgi(", _RES_HELPER % 'RESERVED_ARGS'))
B('pkgA_reserved_check_helper_loop_wrong_table', ['C04'], 'R04.c',
  (A, _RES_CHECK_OLD, "        _check_reserved_resources(self.resources)\n"),
  (A, "def _safe_wrap_wsgi(", _RES_HELPER % "('request', '_application')"))
_ADD_OLD = ("        if callable(getattr(rf, 'bind_all', None)):\n"
            "            bound_routes = rf.bind_all(self, **kwargs)\n"
            "        else:\n"
            "            bound_routes = [rf.bind(self, **kwargs)]\n"
            "        for br in bound_routes:\n"
            "            self.routes.insert(index, br)\n"
            "            index += 1\n")
T('pkgA_twin_add_enumerate_and_local_bind_all', ['C01'],
  (A, _ADD_OLD,
      "        bind_all = getattr(rf, 'bind_all', None)\n"
      "        if callable(bind_all):\n"
      "            bound_routes = bind_all(self, **kwargs)\n"
      "        else:\n"
      "            bound_routes = [rf.bind(self, **kwargs)]\n"
      "        for offset, bound_route in enumerate(bound_routes):\n"
      "            self.routes.insert(index + offset, bound_route)\n"))
B('pkgA_add_enumerate_inserts_unbound', ['C01'], 'R01.a',
  (A, _ADD_OLD,
      "        bind_all = getattr(rf, 'bind_all', None)\n"
      "        if callable(bind_all):\n"
      "            bound_routes = bind_all(self, **kwargs)\n"
      "        else:\n"
      "            bound_routes = [rf]\n"
      "        for offset, bound_route in enumerate(bound_routes):\n"
      "            self.routes.insert(index + offset, bound_route)\n"))
_BIND_ALL_OLD = ("        for rt in self.app.routes:\n"
                 "            if isinstance(rt, NullRoute):\n"
                 "                continue\n"
                 "            bound_rt = rt.bind(app, **kwargs)\n"
                 "            ret.append(bound_rt)\n"
                 "\n"
                 "        return ret\n")
T('pkgA_twin_bind_all_comprehension', ['C01'],
  (A, _BIND_ALL_OLD, "        return [rt.bind(app, **kwargs) for rt in self.app.routes\n                if not isinstance(rt, NullRoute)]\n"))
B('pkgA_bind_all_comprehension_not_rebound', ['C01'], 'R01.a',
  (A, _BIND_ALL_OLD, "        return [rt for rt in self.app.routes\n                if not isinstance(rt, NullRoute)]\n"))

# ------------------------------------------------------------------ core.check_middlewares / check_middleware
_CM_OLD = ("    provided_by = defaultdict(list)\n"
           "    for source, arg_list in args_dict.items():\n"
           "        for arg_name in arg_list:\n"
           "            provided_by[arg_name].append(source)\n"
           "\n"
           "    for mw in middlewares:\n"
           "        check_middleware(mw)\n"
           "        for arg in mw.provides:\n"
           "            provided_by[arg].append(mw)\n"
           "        for arg in mw.endpoint_provides:\n"
           "            provided_by[arg].append(mw)\n"
           "        for arg in mw.render_provides:\n"
           "            provided_by[arg].append(mw)\n"
           "\n"
           "    conflicts = [(n, tuple(ps)) for (n, ps) in\n"
           "                 provided_by.items() if len(ps) > 1]\n")
_CM_NEW = ("    providers_by_name = {}\n"
           "\n"
           "    def _register(name, provider):\n"
           "        providers_by_name.setdefault(name, []).append(provider)\n"
           "\n"
           "    for source, source_names in args_dict.items():\n"
           "        for name in source_names:\n"
           "            _register(name, source)\n"
           "\n"
           "    for mw in middlewares:\n"
           "        check_middleware(mw)\n"
           "        for provides_attr in %s:\n"
           "            for name in getattr(mw, provides_attr):\n"
           "                _register(name, mw)\n"
           "\n"
           "    conflicts = []\n"
           "    for name, providers in providers_by_name.items():\n"
           "        if len(providers) > %d:\n"
           "            conflicts.append((name, tuple(providers)))\n")
_ATTRS3 = "('provides', 'endpoint_provides', 'render_provides')"
T('pkgA_twin_conflict_map_closure_and_tables', ['C04'], (C, _CM_OLD, _CM_NEW % (_ATTRS3, 1)))
B('pkgA_conflict_map_table_lacks_render', ['C04'], 'R04.a', (C, _CM_OLD, _CM_NEW % ("('provides', 'endpoint_provides')", 1)))
B('pkgA_conflict_loop_gt2', ['C04'], 'R04.a', (C, _CM_OLD, _CM_NEW % (_ATTRS3, 2)))
_CKM_OLD = ("        if not get_arg_names(func)[0] == 'next':\n")
T('pkgA_twin_first_param_named', ['C04'],
  (C, _CKM_OLD, "        first_arg_name = get_arg_names(func)[0]\n        if first_arg_name != _INNER_NAME:\n"))
B('pkgA_first_param_named_second', ['C04'], 'R04.d',
  (C, _CKM_OLD, "        first_arg_name = get_arg_names(func)[-1]\n        if first_arg_name != _INNER_NAME:\n"))

# ------------------------------------------------------------------ sinter.inject
T('pkgA_twin_inject_named_accepted', ['C02'],
  (S, "    kwargs = dict([(k, v) for k, v in all_kwargs.items() if k in fb.get_arg_names()])\n",
      "    accepted_names = fb.get_arg_names()\n    kwargs = {k: v for k, v in all_kwargs.items() if k in accepted_names}\n"))
B('pkgA_inject_named_accepted_required_only', ['C02'], 'R02.b',
  (S, "    kwargs = dict([(k, v) for k, v in all_kwargs.items() if k in fb.get_arg_names()])\n",
      "    accepted_names = fb.get_arg_names(only_required=True)\n    kwargs = {k: v for k, v in all_kwargs.items() if k in accepted_names}\n"))

# ------------------------------------------------------------------ further spellings of the same constructions
T('pkgA_twin_phase_lists_by_loop', ALL4,
  (C, _REQ_SIGS_OLD, "    req_funcs, req_provides = [], []\n    for mw in middlewares:\n        if mw.request:\n"
                     "            req_funcs.append(mw.request)\n            req_provides.append(mw.provides)\n"),
  (C, "    req_all_provides = set(itertools.chain.from_iterable(req_provides))\n",
      "    req_all_provides = set()\n    for provided_names in req_provides:\n        req_all_provides.update(provided_names)\n"))
B('pkgA_phase_lists_by_loop_wrong_slot_test', ['C03'], 'R03.d',
  (C, _REQ_SIGS_OLD, "    req_funcs, req_provides = [], []\n    for mw in middlewares:\n        if mw.endpoint:\n"
                     "            req_funcs.append(mw.request)\n            req_provides.append(mw.provides)\n"))
T('pkgA_twin_phase_lists_two_comprehensions', ALL4,
  (C, _EP_SIGS_OLD, "    ep_funcs = [mw.endpoint for mw in middlewares if mw.endpoint]\n"
                    "    ep_provides = [mw.endpoint_provides for mw in middlewares if mw.endpoint]\n"),
  (C, "    req_all_provides = set(itertools.chain.from_iterable(req_provides))\n",
      "    req_all_provides = {name for provided_names in req_provides for name in provided_names}\n"))
T('pkgA_twin_argspec_index_loop', ['C01'],
  (S, "    for f, p in zip(func_list, provides):\n", "    for i, f in enumerate(func_list):\n        p = provides[i]\n"))
B('pkgA_argspec_index_loop_shifted', ['C01'], 'R01.c',
  (S, "    for f, p in zip(func_list, provides):\n", "    for i, f in enumerate(func_list):\n        p = provides[i - 1]\n"))
T('pkgA_twin_level_scope_ior_and_ifexp_default', ['C01', 'C02', 'C03'],
  (S, "    if params_sofar is None:\n        params_sofar = set([inner_name])\n\n    params_sofar.update(params[0])\n",
      "    params_sofar = {inner_name} if params_sofar is None else params_sofar\n    params_sofar |= set(params[0])\n"))
T('pkgA_twin_level_fstrings', ['C01', 'C02', 'C03'],
  (S, _BCS_TAIL_OLD,
      "    def_str = f'{outer_indent}def {inner_name}({outer_arg_str}):\\n'\n"
      "    body_str = build_chain_str(funcs[1:], params[1:], inner_name, params_sofar, level + 1)\n"
      "    htb_str = f'{inner_indent}__traceback_hide__ = True\\n'\n"
      "    return_str = f'{inner_indent}return funcs[{level}]({inner_args})\\n'\n"
      "    return def_str + body_str + htb_str + return_str\n"))
T('pkgA_twin_request_core_percent_dict', ['C02', 'C03'],
  (C, "def process_request({all_args}):", "def process_request(%(all_args)s):"),
  (C, "    context = endpoint({endpoint_args})", "    context = endpoint(%(endpoint_args)s)"),
  (C, "        resp = render({render_args})", "        resp = render(%(render_args)s)"),
  (C, "    code_str = _REQ_INNER_TMPL.format(all_args=all_args_str,\n"
      "                                      endpoint_args=ep_args_str,\n"
      "                                      render_args=rn_args_str)\n",
      "    code_str = _REQ_INNER_TMPL % {'all_args': all_args_str, 'endpoint_args': ep_args_str, 'render_args': rn_args_str}\n"))

T('pkgA_twin_unparse_roundtrip', ALL4, (S, '__UNPARSE__', ''), (C, '__UNPARSE__', ''), (R, '__UNPARSE__', ''), (A, '__UNPARSE__', ''))
_INJ_OLD = "    kwargs = dict([(k, v) for k, v in all_kwargs.items() if k in fb.get_arg_names()])\n"
T('pkgA_twin_inject_filter_loop', ['C02'],
  (S, _INJ_OLD, "    declared = fb.get_arg_names()\n    kwargs = {}\n    for k, v in all_kwargs.items():\n        if k in declared:\n            kwargs[k] = v\n"))
B('pkgA_inject_filter_loop_no_test', ['C02'], 'R02.b',
  (S, _INJ_OLD, "    kwargs = {}\n    for k, v in all_kwargs.items():\n        kwargs[k] = v\n"))
T('pkgA_twin_inject_varkw_named', ['C02'],
  (S, "    if fb.varkw:\n        return f(**all_kwargs)\n", "    takes_any_keyword = bool(fb.varkw)\n    if takes_any_keyword:\n        return f(**all_kwargs)\n"))
T('pkgA_twin_provided_itertools_chain', ['C01', 'C04'],
  (R, "        provided = set.union(*src_provides_map.values())\n",
      "        provided = set(self.converters) | set(RESERVED_ARGS) | set(self.resources.keys())\n"))
T('pkgA_twin_reserved_check_inline_intersection', ['C04'],
  (A, _RES_CHECK_OLD, "        if set(self.resources) & set(RESERVED_ARGS):\n            raise NameError('resource names conflict with builtins: %r' %\n"
                      "                            sorted(set(self.resources) & set(RESERVED_ARGS)))\n"))
T('pkgA_twin_reserved_check_any', ['C04'],
  (A, _RES_CHECK_OLD, "        if any(name in self.resources for name in RESERVED_ARGS):\n"
                      "            raise NameError('resource names conflict with builtins: %r' %\n"
                      "                            [name for name in RESERVED_ARGS if name in self.resources])\n"))
B('pkgA_reserved_check_any_wrong_table', ['C04'], 'R04.c',
  (A, _RES_CHECK_OLD, "        if any(name in self.resources for name in _REQUEST_BUILTINS):\n"
                      "            raise NameError('resource names conflict with builtins')\n"),
  (A, "RESERVED_ARGS", "RESERVED_ARGS, _REQUEST_BUILTINS"))

T('pkgA_twin_named_temporaries_binding', ['C01'],
  (A, "        self._null_route = NullRoute().bind(self)\n", "        null_route = NullRoute()\n        self._null_route = null_route.bind(self)\n"),
  (R, "        self._execute = make_middleware_chain(self.middlewares, unbound_route.endpoint, render, provided)\n",
      "        chain = make_middleware_chain(self.middlewares, unbound_route.endpoint, render, provided)\n        self._execute = chain\n"),
  (R, "        return inject(self._execute, injectables)\n", "        result = inject(self._execute, injectables)\n        return result\n"))
B('pkgA_named_chain_never_stored', ['C01'], 'R01.a',
  (R, "        self._execute = make_middleware_chain(self.middlewares, unbound_route.endpoint, render, provided)\n",
      "        chain = make_middleware_chain(self.middlewares, unbound_route.endpoint, render, provided)\n        self._execute = None\n"))
T('pkgA_twin_execute_named_application', ['C02', 'C04'],
  (R, "        injectables = {'_route': self,\n                       'request': request,\n                       '_application': self.bound_apps[-1]}\n        injectables.update(self.resources)\n        injectables.update(kwargs)\n        return inject(self._execute",
      "        serving_app = self.bound_apps[-1]\n        injectables = {'_route': self,\n                       'request': request,\n                       '_application': serving_app}\n        injectables.update(self.resources)\n        injectables.update(kwargs)\n        return inject(self._execute"))
T('pkgA_twin_dispatch_path_params_renamed', ['C02'],
  (A, "            path_params = route.match_path(url_path)\n            if path_params is None:\n                continue\n            request.path_params = path_params\n            params = dict(base_params, **path_params)\n",
      "            url_params = route.match_path(url_path)\n            if url_params is None:\n                continue\n            request.path_params = url_params\n            params = dict(base_params, **url_params)\n"))

T('pkgA_twin_request_core_globals_renamed', ['C02', 'C03', 'C04'],
  (C, "    context = endpoint({endpoint_args})\n    if isinstance(context, BaseResponse):", "    context = ep_chain({endpoint_args})\n    if isinstance(context, Response):"),
  (C, "        resp = render({render_args})", "        resp = rn_chain({render_args})"),
  (C, "    env = {'endpoint': endpoint, 'render': render, 'BaseResponse': BaseResponse}", "    env = {'ep_chain': endpoint, 'rn_chain': render, 'Response': BaseResponse}"))
B('pkgA_request_core_globals_renamed_crossed', ['C03'], 'R03.c',
  (C, "    context = endpoint({endpoint_args})\n    if isinstance(context, BaseResponse):", "    context = ep_chain({endpoint_args})\n    if isinstance(context, Response):"),
  (C, "        resp = render({render_args})", "        resp = rn_chain({render_args})"),
  (C, "    env = {'endpoint': endpoint, 'render': render, 'BaseResponse': BaseResponse}", "    env = {'rn_chain': endpoint, 'ep_chain': render, 'Response': BaseResponse}"))


# ==================================================================================================================
# second pass: clauses added for the seeded changes of round c
# ==================================================================================================================

# ------------------------------------------------------------------ R01.b / R04.*: the documented rejection is what the caller gets
# (building the message of the exception cannot itself raise: every format gets the number of values it takes)
_EP_RAISE = ('        raise NameError("unresolved endpoint middleware arguments: %r"\n'
             '                        % list(ep_unres))\n')
_RN_RAISE = ('        raise NameError("unresolved render middleware arguments: %r"\n'
             '                        % list(rn_unres))\n')
_REQ_RAISE = ('        raise NameError("unresolved request middleware arguments: %r"\n'
              '                        % list(req_unres))\n')
B('pkgA_unres_msg_bare_tuple_from_make_chain', ['C01', 'C04'], {'C01': 'R01.b', 'C04': 'R04.e'},
  (S, '    return chain, set(args), set(unresolved)', '    return chain, set(args), unresolved'),
  (C, _EP_RAISE, '        raise NameError("unresolved endpoint middleware arguments: %r" % (ep_unres))\n'))
B('pkgA_unres_msg_tuple_call_at_raise', ['C01'], 'R01.b',
  (C, _RN_RAISE, '        raise NameError("unresolved render middleware arguments: %r" % tuple(rn_unres))\n'))
B('pkgA_unres_msg_two_conversions_one_value', ['C01'], 'R01.b',
  (C, _REQ_RAISE, '        raise NameError("unresolved request middleware arguments: %r (available: %r)" % sorted(req_unres))\n'))
B('pkgA_unres_msg_format_missing_field', ['C01'], 'R01.b',
  (C, _EP_RAISE, '        raise NameError("unresolved endpoint middleware arguments: {0} (endpoint {1})".format(sorted(ep_unres)))\n'))
B('pkgA_unres_msg_str_plus_list', ['C01'], 'R01.b',
  (C, _RN_RAISE, '        raise NameError("unresolved render middleware arguments: " + sorted(rn_unres))\n'))
B('pkgA_unres_msg_module_constant_two_tuple', ['C01'], 'R01.b',
  (C, _REQ_RAISE, '        raise NameError(_UNRES_MSG % ("request", req_unres))\n'),
  (C, "_INNER_NAME = 'next'\n", "_INNER_NAME = 'next'\n_UNRES_MSG = 'unresolved middleware arguments: %r'\n"))
T('pkgA_twin_unres_msg_one_tuple', ['C01', 'C04'],
  (C, _EP_RAISE, '        raise NameError("unresolved endpoint middleware arguments: %r" % (sorted(ep_unres),))\n'))
T('pkgA_twin_unres_msg_set_operand', ['C01', 'C04'],
  (C, _EP_RAISE, '        raise NameError("unresolved endpoint middleware arguments: %r" % (ep_unres))\n'),
  (C, _RN_RAISE, '        raise NameError("unresolved render middleware arguments: %r" % rn_unres)\n'))
T('pkgA_twin_make_chain_returns_tuple_raise_wraps', ['C01', 'C04'],
  (S, '    return chain, set(args), set(unresolved)', '    return chain, set(args), unresolved'))
T('pkgA_twin_unres_msg_format_and_constant', ['C01', 'C04'],
  (C, _EP_RAISE, '        raise NameError("unresolved endpoint middleware arguments: {0!r}".format(sorted(ep_unres)))\n'),
  (C, _RN_RAISE, '        raise NameError(f"unresolved render middleware arguments: {sorted(rn_unres)!r}")\n'),
  (C, _REQ_RAISE, '        raise NameError(_UNRES_MSG % ("request", sorted(req_unres)))\n'),
  (C, "_INNER_NAME = 'next'\n", "_INNER_NAME = 'next'\n_UNRES_MSG = 'unresolved %s middleware arguments: %r'\n"))
B('pkgA_conflict_msg_tuple_operand', ['C04'], 'R04.a',
  (C, "        raise NameError('found conflicting provides: %r' % conflicts)", "        raise NameError('found conflicting provides: %r' % tuple(conflicts))"))
B('pkgA_reserved_msg_tuple_operand', ['C04'], 'R04.c',
  (A, "        resource_conflicts = [r for r in RESERVED_ARGS if r in self.resources]\n",
      "        resource_conflicts = tuple(r for r in RESERVED_ARGS if r in self.resources)\n"))
B('pkgA_next_first_msg_lacks_value', ['C04'], 'R04.d',
  (C, '                            " \'next\' as the first parameter (%s.%s)"\n                            % (mw.name, f_name))',
      '                            " \'next\' as the first parameter (%s.%s)"\n                            % (mw.name,))'))
T('pkgA_twin_conflict_msg_one_tuple', ['C04'],
  (C, "        raise NameError('found conflicting provides: %r' % conflicts)", "        raise NameError('found conflicting provides: %r' % (tuple(conflicts),))"))

# ------------------------------------------------------------------ R03.d / R04.a: merge_middlewares
# (duplicates are looked up in the result *as it grows*; what came from the new list is never replaced, moved or removed;
#  nothing but a unique duplicate is left out)
_DUP_I = "mw.unique and (mw in outer or mw in old[:i])"
_MERGE_CLOSED = ("    old = list(old)\n"
                 "    outer = list(new)\n"
                 "    dupes = [mw for i, mw in enumerate(old) if %(dup)s]\n"
                 "    pinned = [mw for mw in dupes if not mw.reorderable]\n"
                 "    if pinned:\n"
                 "        raise ValueError('multiple inclusion of unique middleware %%r' %% pinned[0].name)\n"
                 "    merged = outer + [mw for i, mw in enumerate(old) if not (%(dup)s)]\n")
T('pkgA_twin_merge_closed_form', ['C03', 'C04'], (C, _MERGE_OLD, _MERGE_CLOSED % {'dup': _DUP_I}))
T('pkgA_twin_merge_closed_form_any_concat', ['C03', 'C04'],
  (C, _MERGE_OLD, "    old, outer = list(old), list(new)\n"
                  "    if any(mw.unique and mw in outer + old[:i] and not mw.reorderable for i, mw in enumerate(old)):\n"
                  "        raise ValueError('multiple inclusion of a unique middleware')\n"
                  "    inner = [mw for i, mw in enumerate(old) if not mw.unique or mw not in outer + old[:i]]\n"
                  "    merged = outer + inner\n"))
B('pkgA_merge_closed_form_fixed_list', ['C03'], 'R03.d', (C, _MERGE_OLD, _MERGE_CLOSED % {'dup': "mw.unique and mw in outer"}))
B('pkgA_merge_closed_form_prefix_only', ['C03'], 'R03.d', (C, _MERGE_OLD, _MERGE_CLOSED % {'dup': "mw.unique and mw in old[:i]"}))
B('pkgA_merge_closed_form_whole_old', ['C03', 'C04'], {'C03': 'R03.d', 'C04': 'R04.a'},
  (C, _MERGE_OLD, _MERGE_CLOSED % {'dup': "mw.unique and (mw in outer or mw in old)"}))
B('pkgA_merge_closed_form_drops_nonunique', ['C03', 'C04'], {'C03': 'R03.d', 'C04': 'R04.a'},
  (C, _MERGE_OLD, _MERGE_CLOSED % {'dup': "(mw in outer or mw in old[:i])"}))
B('pkgA_merge_loop_tests_fixed_list', ['C03'], 'R03.d',
  (C, "    merged = list(new)\n    for mw in old:\n        if mw.unique and mw in merged:\n",
      "    outer = list(new)\n    merged = list(outer)\n    for mw in old:\n        if mw.unique and mw in outer:\n"))
T('pkgA_twin_merge_append_spellings', ['C03', 'C04'], (C, "        merged.append(mw)\n", "        merged += [mw]\n"))
T('pkgA_twin_merge_not_in_guard', ['C03', 'C04'],
  (C, _MERGE_OLD, "    old = list(old)\n    merged = list(new)\n    for mw in old:\n"
                  "        if not mw.unique or mw not in merged:\n"
                  "            merged.extend([mw])\n"
                  "        elif not mw.reorderable:\n"
                  "            raise ValueError('multiple inclusion of unique middleware %r' % mw.name)\n"))
B('pkgA_merge_replaces_outer_instance', ['C03'], 'R03.d',
  (C, "            if mw.reorderable:\n                continue\n", "            if mw.reorderable:\n                merged[merged.index(mw)] = mw\n                continue\n"))
B('pkgA_merge_moves_duplicate_inwards', ['C03'], 'R03.d',
  (C, "            if mw.reorderable:\n                continue\n", "            if mw.reorderable:\n                del merged[merged.index(mw)]\n"))
B('pkgA_merge_alias_insert_front', ['C03'], 'R03.d',
  (C, "        merged.append(mw)\n    return merged", "        merged.append(mw)\n    result = merged\n    result.insert(0, result.pop())\n    return merged"))
B('pkgA_merge_sorts_result', ['C03'], 'R03.d',
  (C, "        merged.append(mw)\n    return merged", "        merged.append(mw)\n    merged.sort(key=lambda m: m.name)\n    return merged"))
B('pkgA_merge_drops_present_nonunique', ['C04'], 'R04.a',
  (C, "        if mw.unique and mw in merged:\n            if mw.reorderable:\n                continue\n            else:\n",
      "        if mw in merged:\n            if mw.reorderable:\n                continue\n            if mw.unique:\n"))
B('pkgA_merge_outer_list_filtered', ['C03', 'C04'], {'C03': 'R03.d', 'C04': 'R04.a'},
  (C, "    merged = list(new)\n", "    merged = [m for m in new if m.unique]\n"))
B('pkgA_merge_result_truncated', ['C04'], 'R04.a',
  (C, "        merged.append(mw)\n    return merged", "        merged.append(mw)\n    while len(merged) > 16:\n        merged.pop()\n    return merged"))

# ------------------------------------------------------------------ R04.a / R04.d: tables of slot / provides names, generators, chained iterables
_PROV_LOOPS = ("        for arg in mw.provides:\n            provided_by[arg].append(mw)\n"
               "        for arg in mw.endpoint_provides:\n            provided_by[arg].append(mw)\n"
               "        for arg in mw.render_provides:\n            provided_by[arg].append(mw)\n")
T('pkgA_twin_conflict_map_chained_provides', ['C04'],
  (C, _PROV_LOOPS, "        mw_provides = itertools.chain(mw.provides, mw.endpoint_provides, mw.render_provides)\n"
                   "        for arg in mw_provides:\n            provided_by[arg].append(mw)\n"),
  (C, "    args_dict = args_dict or {}\n", ""),
  (C, "    for source, arg_list in args_dict.items():", "    for source, arg_list in (args_dict or {}).items():"))
B('pkgA_conflict_map_chained_provides_lacks_phase', ['C04'], 'R04.a',
  (C, _PROV_LOOPS, "        mw_provides = itertools.chain(mw.provides, mw.render_provides)\n"
                   "        for arg in mw_provides:\n            provided_by[arg].append(mw)\n"))
_PROV_GEN = ("_MW_PROVIDES_NAMES = (%s)\n\n\n"
             "def _iter_provides(mw):\n"
             "    for provides_name in _MW_PROVIDES_NAMES:\n"
             "        for arg in getattr(mw, provides_name):\n"
             "            yield arg\n\n\n"
             "def check_middlewares(")
T('pkgA_twin_conflict_map_generator_over_table', ['C04'],
  (C, _PROV_LOOPS, "        for arg in _iter_provides(mw):\n            provided_by[arg].append(mw)\n"),
  (C, "def check_middlewares(", _PROV_GEN % "'provides', 'endpoint_provides', 'render_provides'"))
B('pkgA_conflict_map_generator_table_lacks_phase', ['C04'], 'R04.a',
  (C, _PROV_LOOPS, "        for arg in _iter_provides(mw):\n            provided_by[arg].append(mw)\n"),
  (C, "def check_middlewares(", _PROV_GEN % "'provides', 'endpoint_provides'"))
B('pkgA_conflict_map_generator_yields_conditionally', ['C04'], 'R04.a',
  (C, _PROV_LOOPS, "        for arg in _iter_provides(mw):\n            provided_by[arg].append(mw)\n"),
  (C, "def check_middlewares(", (_PROV_GEN % "'provides', 'endpoint_provides', 'render_provides'").replace(
      "            yield arg\n", "            if not arg.startswith('_'):\n                yield arg\n")))
_PHASE_TABLE = ("_PHASES = (('request', 'provides'), ('endpoint', 'endpoint_provides'), ('render', 'render_provides'))\n\n\n"
                "def check_middlewares(")
T('pkgA_twin_conflict_map_table_of_pairs', ['C04'],
  (C, _PROV_LOOPS, "        for _phase_name, provides_attr in _PHASES:\n            for arg in getattr(mw, provides_attr):\n"
                   "                provided_by[arg].append(mw)\n"),
  (C, "def check_middlewares(", _PHASE_TABLE))
B('pkgA_conflict_map_table_of_pairs_wrong_column', ['C04'], 'R04.a',
  (C, _PROV_LOOPS, "        for provides_attr, _phase_name in _PHASES:\n            for arg in getattr(mw, provides_attr, ()) or ():\n"
                   "                provided_by[arg].append(mw)\n"),
  (C, "def check_middlewares(", _PHASE_TABLE))
_SLOT_GEN = ("_SLOTS = (%s)\n\n\n"
             "def _iter_slot_funcs(mw):\n"
             "    for slot_name, _provides_attr in _SLOTS:\n"
             "        func = getattr(mw, slot_name, None)\n"
             "        if func:\n"
             "            yield slot_name, func\n\n\n"
             "def check_middleware(mw):\n"
             "    for f_name, func in _iter_slot_funcs(mw):\n")
_SLOT_OLD = ("def check_middleware(mw):\n"
             "    for f_name in ('request', 'endpoint', 'render'):\n"
             "        func = getattr(mw, f_name, None)\n"
             "        if not func:\n"
             "            continue\n")
T('pkgA_twin_slots_generator_over_pairs', ['C04'],
  (C, _SLOT_OLD, _SLOT_GEN % "('request', 'provides'), ('endpoint', 'endpoint_provides'), ('render', 'render_provides')"))
B('pkgA_slots_generator_lacks_render', ['C04'], 'R04.d',
  (C, _SLOT_OLD, _SLOT_GEN % "('request', 'provides'), ('endpoint', 'endpoint_provides')"))

# ------------------------------------------------------------------ normaliser: f(a, *PAIR) with PAIR a module-level tuple of constants
_SIG_HELPER = ("_REQUEST_PHASE = ('request', 'provides')\n_ENDPOINT_PHASE = (%s)\n_RENDER_PHASE = ('render', 'render_provides')\n\n\n"
               "def _get_phase_signatures(middlewares, phase_name, provides_attr):\n"
               "    sigs = [(getattr(mw, phase_name), getattr(mw, provides_attr))\n"
               "            for mw in middlewares if getattr(mw, phase_name)]\n"
               "    funcs, provides = list(zip(*sigs)) or ((), ())\n"
               "    return funcs, provides\n\n\n"
               "def make_middleware_chain(")
_SIG_EDITS = (
    (C, "    req_sigs = [(mw.request, mw.provides)\n                for mw in middlewares if mw.request]\n"
        "    req_funcs, req_provides = list(zip(*req_sigs)) or ((), ())\n",
        "    req_funcs, req_provides = _get_phase_signatures(middlewares, *_REQUEST_PHASE)\n"),
    (C, "    ep_sigs = [(mw.endpoint, mw.endpoint_provides)\n               for mw in middlewares if mw.endpoint]\n"
        "    ep_funcs, ep_provides = list(zip(*ep_sigs)) or ((), ())\n",
        "    ep_funcs, ep_provides = _get_phase_signatures(middlewares, *_ENDPOINT_PHASE)\n"),
    (C, "    rn_sigs = [(mw.render, mw.render_provides)\n               for mw in middlewares if mw.render]\n"
        "    rn_funcs, rn_provides = list(zip(*rn_sigs)) or ((), ())\n",
        "    rn_funcs, rn_provides = _get_phase_signatures(middlewares, *_RENDER_PHASE)\n"))
T('pkgA_twin_phase_signatures_starred_constant_pairs', ALL4,
  *(_SIG_EDITS + ((C, "def make_middleware_chain(", _SIG_HELPER % "'endpoint', 'endpoint_provides'"),)))
B('pkgA_phase_signatures_starred_pairs_crossed', ['C01', 'C03'], {'C01': 'R01.d', 'C03': 'R03.d'},
  *(_SIG_EDITS + ((C, "def make_middleware_chain(", _SIG_HELPER % "'endpoint', 'provides'"),)))
